"""C18 — the dual mesh swaps nodes and faces with correct ring order.

Proof: coq/Props/C18_props.v (about coq/Model/C18.v: count / rows / corners / padding / ring order
under the stated angle hypothesis / nodes / data).
Tie: the extracted model (exact rational angle comparisons on the very doubles the code reads) and
the real `Grid.get_dual()` / `UxDataArray.get_dual()` run on the same generated meshes; the
property clauses are evaluated directly on the implementation's output: counts, corner sets and
padding exactly, ring order by an exact combinatorial test against the (exactly verified)
counter-clockwise primal faces plus an exact rational orientation test; JIT on and off.
"""
import json
import math
import os
import subprocess
import sys
import warnings
from fractions import Fraction

import numpy as np

if __name__ == "__main__":
    sys.path.insert(0, os.path.dirname(os.path.abspath(__file__)))

import common
import meshgen
from common import FILL, sx


# ---------------------------------------------------------------------------------------------
# exact helpers

def fr3(v):
    return (Fraction(float(v[0])), Fraction(float(v[1])), Fraction(float(v[2])))


def cross(a, b):
    return (a[1] * b[2] - a[2] * b[1], a[2] * b[0] - a[0] * b[2], a[0] * b[1] - a[1] * b[0])


def dot(a, b):
    return a[0] * b[0] + a[1] * b[1] + a[2] * b[2]


def faces_ccw_exact(nodes_q, faces):
    """every primal face counter-clockwise seen from outside, decided in exact arithmetic:
    sum over edges of (a x b) . c with c the corner sum"""
    for f in faces:
        c = tuple(sum(nodes_q[i][k] for i in f) for k in range(3))
        s = Fraction(0)
        for i in range(len(f)):
            s += dot(cross(nodes_q[f[i]], nodes_q[f[(i + 1) % len(f)]]), c)
        if s <= 0:
            return False
    return True


def face_convex(nodes, f, tol=1e-9):
    """no corner reflex by more than tol: (a x b) . c >= -tol for consecutive corners a, b, c (straight corners,
    e.g. subdivided edges, count as convex)"""
    k = len(f)
    for i in range(k):
        a, b, c = nodes[f[i]], nodes[f[(i + 1) % k]], nodes[f[(i + 2) % k]]
        if dot(cross(a, b), c) < -tol:
            return False
    return True


def nxt(face, v):
    i = face.index(v)
    return face[(i + 1) % len(face)]


def prv(face, v):
    i = face.index(v)
    return face[(i - 1) % len(face)]


def canon_ring(ring):
    if not ring:
        return []
    i = ring.index(min(ring))
    return ring[i:] + ring[:i]


def incident(faces, n_node):
    inc = [[] for _ in range(n_node)]
    for fi, f in enumerate(faces):
        for v in f:
            inc[v].append(fi)
    return inc


# ---------------------------------------------------------------------------------------------
# implementation

def build_grid(c):
    import uxarray as ux
    t = np.array(c["table"], dtype=np.intp)
    lon, lat = np.array(c["lonlat"][0], dtype=float), np.array(c["lonlat"][1], dtype=float)
    return ux.Grid.from_topology(lon, lat, t.copy(), fill_value=FILL)


def impl_dual(c):
    g = build_grid(c)
    with warnings.catch_warnings():
        warnings.simplefilter("ignore")
        d = g.get_dual()
    return g, d


def spec_check(ck, c, g, d, conn, tag="grid", mconn=None, report=True, check_ring=True, case_extra=None,
               corners="exact", stats=None):
    """clauses of C18 on one dual connectivity (list of rows); returns the list of (clause, row index) that fail.
    mconn: the rows of the exact faithful model (to tell the known algorithmic limitation — faces are ordered by the
    azimuth of their centres, which leaves the umbrella order at a face with a reflex corner — from any other way of
    getting a ring wrong)"""
    faces = [[x for x in r if x != FILL] for r in c["table"]]
    n_node = c["n_node"]
    inc = incident(faces, n_node)
    nodes3 = [v for v in range(n_node) if len(inc[v]) >= 3]
    info = {"level": tag, "closed": c["closed"], "mesh_class": c["mesh_class"]}
    bad = []

    def fail(clause, detail, extra=None, k=None):
        i2 = dict(info)
        if extra:
            i2.update(extra)
        bad.append((clause, k))
        if report:
            cc = {kk: c[kk] for kk in ("table", "lonlat", "n_node", "closed", "mesh_class", "name", "kind", "nodes")}
            cc.update(case_extra or {})
            ck.fail(clause, cc, i2, detail=detail)

    if len(conn) != len(nodes3):
        fail("count", "%d dual faces, %d nodes with >= 3 faces" % (len(conn), len(nodes3)))
        return bad
    for k, (row, v) in enumerate(zip(conn, nodes3)):
        ring = [x for x in row if x != FILL]
        if any(x != FILL for x in row[len(ring):]) or row[:len(ring)] != ring:
            fail("pad", "dual face %d (node %d) row %r" % (k, v, row), k=k)
            continue
        if corners == "subset":
            # after the centres were redefined (Welzl centres of coarse faces can coincide or sit on the node) only what
            # holds for ANY centres is demanded: no repeats, only faces of the node (C18_pad); incomplete rings are counted
            if len(set(ring)) != len(ring) or not set(ring) <= set(inc[v]):
                fail("corners", "dual face %d (node %d): corners %r, faces at the node %r" % (k, v, ring, sorted(inc[v])),
                     {"valence": len(inc[v])}, k=k)
            elif len(ring) != len(inc[v]) and stats is not None:
                stats["rows_with_a_face_dropped_after_centres_were_redefined"] = \
                    stats.get("rows_with_a_face_dropped_after_centres_were_redefined", 0) + 1
            continue
        if sorted(ring) != sorted(inc[v]):
            fail("corners", "dual face %d (node %d): corners %r, faces at the node %r" % (k, v, ring, sorted(inc[v])),
                 {"valence": len(inc[v])}, k=k)
            continue
        if check_ring and c.get("ccw_ok") and (c["closed"] or (c.get("interior") and c["interior"][v])):
            kk = len(ring)
            fwd = all(prv(faces[ring[i]], v) == nxt(faces[ring[(i + 1) % kk]], v) for i in range(kk))
            if not fwd:
                rev = all(nxt(faces[ring[i]], v) == prv(faces[ring[(i + 1) % kk]], v) for i in range(kk))
                fail("ring", "dual face %d (node %d, valence %d): ring %r is %s" % (
                    k, v, kk, ring, "clockwise" if rev else "not an edge-adjacent cycle"),
                    {"ring_defect": "clockwise" if rev else "not_adjacent", "valence": kk,
                     "extent_class": c.get("extent_class"),
                     "incident_faces_convex": all(c["convex"][f] for f in inc[v]) if c.get("convex") else None,
                     "same_as_exact_model": (None if mconn is None or k >= len(mconn) else
                                             canon_conn([row]) == canon_conn([mconn[k]]))}, k=k)
    return bad


def geometric_ccw(c, d, conn):
    """exact rational orientation of each dual face polygon about its primal node (secondary check,
    counts only): signed sum of n . (c_i x c_{i+1}) > 0"""
    nodes_q = [fr3(p) for p in c["nodes"]]
    cent = np.stack([d.node_x.values, d.node_y.values, d.node_z.values], axis=1)
    cq = [fr3(p) for p in cent]
    faces = [[x for x in r if x != FILL] for r in c["table"]]
    inc = incident(faces, c["n_node"])
    nodes3 = [v for v in range(c["n_node"]) if len(inc[v]) >= 3]
    pos = neg = 0
    for row, v in zip(conn, nodes3):
        ring = [x for x in row if x != FILL]
        s = Fraction(0)
        for i in range(len(ring)):
            s += dot(nodes_q[v], cross(cq[ring[i]], cq[ring[(i + 1) % len(ring)]]))
        if s > 0:
            pos += 1
        else:
            neg += 1
    return pos, neg


def check_nodes(ck, c, g, d, level="grid", case_extra=None, info_extra=None):
    """dual node i sits at the CURRENT centre (Grid.face_lon / face_lat) of primal face i"""
    info = {"level": level, "closed": c["closed"], "mesh_class": c["mesh_class"]}
    case = {k: c[k] for k in ("table", "lonlat", "n_node", "closed", "mesh_class", "name", "kind", "nodes")}
    case.update(case_extra or {})
    info.update(info_extra or {})
    if int(d.n_node) != len(c["table"]):
        ck.fail("nodes", case, info, detail="dual n_node %d, primal n_face %d" % (d.n_node, len(c["table"])))
        return
    dl = (np.asarray(d.node_lon.values) - np.asarray(g.face_lon.values) + 180.0) % 360.0 - 180.0
    db = np.asarray(d.node_lat.values) - np.asarray(g.face_lat.values)
    # at a pole the longitude is arbitrary
    atpole = np.abs(np.abs(np.asarray(g.face_lat.values)) - 90.0) < 1e-9
    if np.any(np.abs(db) > 1e-9) or np.any((np.abs(dl) > 1e-9) & ~atpole):
        ck.fail("nodes", case, info, detail="dual node coordinates differ from the primal face centres")


SWAP = {"n_face": "n_node", "n_node": "n_face"}
DATASET_UNAVAILABLE = []          # set once UxDataset.get_dual turned out not to be runnable with the installed xarray
LAYOUTS = [("last", 1), ("first", 2), ("last", 2), ("first", 3), ("middle", 3), ("last", 3)]      # (grid dim position, rank)


def gen_layouts(rng, nf, nn):
    """for each centering three of the six (position, rank) layouts, at least one with the grid dimension not last;
    the other axes sometimes have the length of an element count"""
    out = []
    for src in ("n_face", "n_node"):
        notlast = [l for l in LAYOUTS if l[0] != "last"]
        chosen = [rng.choice(notlast), rng.choice(LAYOUTS)]
        for pos, rank in chosen:
            others = [rng.choice([2, 3, nf, nn]) for _ in range(rank - 1)]
            out.append({"source": src, "position": pos, "rank": rank, "others": others})
    return out


def layout_dims(lay, nf, nn):
    ln = nf if lay["source"] == "n_face" else nn
    names = ["lev", "time"][: lay["rank"] - 1]
    dims = list(zip(names, lay["others"]))
    at = {"first": 0, "last": len(dims), "middle": 1}[lay["position"]]
    dims.insert(at, (lay["source"], ln))
    return [d for d, _ in dims], tuple(n for _, n in dims)


def check_one_data(ck, c, g, rng, lay, mconn, how="dataarray"):
    import uxarray as ux
    nf, nn = len(c["table"]), c["n_node"]
    dims, shape = layout_dims(lay, nf, nn)
    info = {"level": "data", "closed": c["closed"], "mesh_class": c["mesh_class"], "source": lay["source"],
            "position": lay["position"], "rank": lay["rank"], "method": how}
    case = {k: c[k] for k in ("table", "lonlat", "n_node", "closed", "mesh_class", "name", "kind", "nodes")}
    case["data_layout"] = dict(lay, method=how)
    arr = np.array([rng.randrange(-10 ** 6, 10 ** 6) / 64.0 for _ in range(int(np.prod(shape)))]).reshape(shape)
    uxda = ux.UxDataArray(arr.copy(), dims=dims, uxgrid=g, name="v")
    try:
        with warnings.catch_warnings():
            warnings.simplefilter("ignore")
            if how == "dataarray":
                r = uxda.get_dual()
            else:
                try:
                    ds = ux.UxDataset({"v": uxda}, uxgrid=g)
                    r = ds.get_dual()["v"]
                except TypeError as ex:            # UxDataset cannot be built / rebuilt with the installed xarray (C10's business)
                    if "Dataset" in str(ex):
                        return "unavailable"
                    raise
    except Exception as ex:
        ck.fail("raises", case, info, detail=repr(ex))
        return None
    if not isinstance(r, ux.UxDataArray):
        ck.fail("data_type", case, info, detail=str(type(r)))
        return None
    want = [SWAP.get(x, x) for x in dims]
    if list(r.dims) != want:
        ck.fail("data_dims", case, info, detail="dims %r -> %r, expected %r" % (tuple(dims), tuple(r.dims), tuple(want)))
        return None
    if tuple(r.shape) != tuple(arr.shape) or not np.array_equal(np.asarray(r.values), arr):
        ck.fail("data_values", case, info, detail="values changed or permuted (shape %r -> %r)" % (arr.shape, tuple(r.shape)))
        return None
    dg = r.uxgrid
    for name, ln in zip(r.dims, r.shape):
        cnt = {"n_node": int(dg.n_node), "n_face": int(dg.n_face)}.get(name)
        if cnt is not None and cnt != ln:
            ck.fail("data_grid", case, info, detail="dimension %s has length %d, the dual grid has %d" % (name, ln, cnt))
            return None
    # the values attached to the dual are the ones present when the dual was taken: editing the source in place
    # afterwards (uxda -= ..., uxda[0] = ...) must not change the result, and editing the result must not change the source
    if how == "dataarray" and arr.size:
        try:
            snap = np.asarray(r.values).copy()
            src = uxda.data
            src[...] = src * 2.0 + 1.0
            if not np.array_equal(np.asarray(r.values), snap):
                ck.fail("data_values", case, dict(info, stage="after the source array was edited in place"),
                        detail="the dual's data changed when the primal's data were edited in place after get_dual")
                return None
            edited = np.asarray(uxda.values).copy()
            r.data[...] = -1.0
            if not np.array_equal(np.asarray(uxda.values), edited):
                ck.fail("data_values", case, dict(info, stage="after the dual's data were edited in place"),
                        detail="the primal's data changed when the dual's data were edited in place")
                return None
        except (ValueError, TypeError):
            pass                                   # read-only buffers cannot be edited: nothing to check
    conn = dg.face_node_connectivity.values.tolist()
    bad = spec_check(ck, c, g, dg, conn, tag="data", mconn=mconn, case_extra={"data_layout": case["data_layout"]})
    check_nodes(ck, c, g, dg, level="data", case_extra={"data_layout": case["data_layout"]})
    return bad


def check_data(ck, c, g, rng, mconn=None, layouts=None, stats=None):
    """closed grid, every node with >= 3 faces: node/face dims swap BY NAME wherever they sit, every grid dimension of
    the result has the dual grid's element count, values stay in place; UxDataArray.get_dual and (where the installed
    xarray lets a UxDataset exist) UxDataset.get_dual"""
    nf, nn = len(c["table"]), c["n_node"]
    for lay in (layouts or gen_layouts(rng, nf, nn)):
        how = lay.get("method", "dataarray")
        check_one_data(ck, c, g, rng, lay, mconn, how)
        if stats is not None:
            key = "%s/%s/rank%d" % (lay["source"], lay["position"], lay["rank"])
            stats[key] = stats.get(key, 0) + 1
        if "method" not in lay and lay["position"] != "last" and rng.random() < 0.3 and not DATASET_UNAVAILABLE:
            res = check_one_data(ck, c, g, rng, lay, mconn, "dataset")
            if res == "unavailable":
                DATASET_UNAVAILABLE.append(True)
            if stats is not None:
                k2 = "dataset_unavailable" if res == "unavailable" else "dataset_checked"
                stats[k2] = stats.get(k2, 0) + 1


# ---------------------------------------------------------------------------------------------
# the dual is a fully functional, self-consistent grid

CONN_NAMES = ["n_nodes_per_face", "node_face_connectivity", "edge_node_connectivity", "face_edge_connectivity",
              "edge_face_connectivity", "face_face_connectivity"]


def real(row):
    return [x for x in row if x != FILL]


def canon_tables(tabs):
    """compare the way C03 does: rows as sets / multisets, edges as node pairs, tables addressed through the pairs"""
    out = {}
    for name, v in tabs.items():
        if isinstance(v, str):
            out[name] = v
    en = tabs.get("edge_node_connectivity")
    pairs = None
    if isinstance(en, list):
        pairs = [tuple(sorted(e)) for e in en]
        out["edge_node_connectivity"] = sorted(pairs)
    if isinstance(tabs.get("n_nodes_per_face"), list):
        out["n_nodes_per_face"] = list(tabs["n_nodes_per_face"])
    if isinstance(tabs.get("node_face_connectivity"), list):
        out["node_face_connectivity"] = [sorted(real(r)) for r in tabs["node_face_connectivity"]]
    if isinstance(tabs.get("face_face_connectivity"), list):
        out["face_face_connectivity"] = [sorted(real(r)) for r in tabs["face_face_connectivity"]]
    if isinstance(tabs.get("face_edge_connectivity"), list):
        if pairs is None:
            out["face_edge_connectivity"] = "edge table unavailable"
        else:
            out["face_edge_connectivity"] = [sorted(pairs[e] if 0 <= e < len(pairs) else ("bad", e) for e in real(r))
                                             for r in tabs["face_edge_connectivity"]]
    if isinstance(tabs.get("edge_face_connectivity"), list):
        if pairs is None or len(pairs) != len(tabs["edge_face_connectivity"]):
            out["edge_face_connectivity"] = "edge table unavailable / length differs"
        else:
            out["edge_face_connectivity"] = sorted((p, sorted(real(r))) for p, r in zip(pairs, tabs["edge_face_connectivity"]))
    return out


def present_tables(grid):
    """connectivity variables already stored in the grid's dataset (nothing is derived)"""
    out = {}
    for name in CONN_NAMES:
        if name in grid._ds:
            out[name] = np.asarray(grid._ds[name].values).tolist()
    return out


def derived_tables(grid):
    out = {}
    for name in CONN_NAMES:
        try:
            with warnings.catch_warnings():
                warnings.simplefilter("ignore")
                out[name] = np.asarray(getattr(grid, name).values).tolist()
        except Exception as ex:
            out[name] = "raises " + type(ex).__name__
    return out


def fresh_from(grid):
    import uxarray as ux
    return ux.Grid.from_topology(np.asarray(grid.node_lon.values).copy(), np.asarray(grid.node_lat.values).copy(),
                                 np.asarray(grid.face_node_connectivity.values).copy(), fill_value=FILL)


def subset_faces(grid, kind, idx):
    """corner positions of the faces of grid.isel(kind=idx), as a sorted list (or the exception name)"""
    try:
        with warnings.catch_warnings():
            warnings.simplefilter("ignore")
            sub = grid.isel(**{kind: idx})
        lon, lat = np.asarray(sub.node_lon.values), np.asarray(sub.node_lat.values)
        return sorted(tuple(sorted((round(float(lon[i]), 9), round(float(lat[i]), 9)) for i in real(r)))
                      for r in sub.face_node_connectivity.values.tolist())
    except Exception as ex:
        return "raises " + type(ex).__name__


def check_consistency(ck, c, d, rng, level="grid", case_extra=None, stats=None):
    """(i) every connectivity variable the dual carries, and every one derived from it afterwards, equals what a
    fresh Grid.from_topology(dual.node_lon, dual.node_lat, dual.face_node_connectivity) derives;
    (iii) node / face subsets of the dual select the same faces as subsets of that fresh grid"""
    info = {"level": level, "closed": c["closed"], "mesh_class": c["mesh_class"]}
    case = {k: c[k] for k in ("table", "lonlat", "n_node", "closed", "mesh_class", "name", "kind", "nodes")}
    case.update(case_extra or {})
    case["consistency"] = True
    if int(d.n_face) == 0:
        return
    try:
        pres = canon_tables(dict(present_tables(d), edge_node_connectivity=present_tables(d).get("edge_node_connectivity")))
        pres = {k: v for k, v in pres.items() if k in present_tables(d)}
        fresh = fresh_from(d)
        ref = canon_tables(derived_tables(fresh))
    except Exception as ex:
        ck.fail("raises", case, dict(info, where="fresh grid from the dual's own topology"), detail=repr(ex))
        return
    for name, v in pres.items():
        if name in ("face_edge_connectivity", "edge_face_connectivity") and isinstance(v, str):
            continue
        if v != ref.get(name):
            ck.fail("dual_consistency", case, dict(info, variable=name, stage="carried by the returned dual"),
                    detail="%s stored in the dual: %s ; derived from the dual's own faces: %s" % (
                        name, str(v)[:300], str(ref.get(name))[:300]))
            return
    # subsetting before anything is derived on the dual
    nn, nf = int(d.n_node), int(d.n_face)
    picks = [("n_node", sorted(rng.sample(range(nn), min(nn, rng.randrange(1, 4))))),
             ("n_face", sorted(rng.sample(range(nf), min(nf, rng.randrange(1, 4)))))]
    for kind, idx in picks:
        a, b = subset_faces(d, kind, idx), subset_faces(fresh, kind, idx)
        if a != b:
            ck.fail("dual_consistency", case, dict(info, variable="isel(%s)" % kind, stage="subset of the dual"),
                    detail="isel(%s=%r) of the dual: %s ; of a fresh grid with the same faces: %s" % (kind, idx, str(a)[:300], str(b)[:300]))
            return
    got = canon_tables(derived_tables(d))
    for name in CONN_NAMES:
        if got.get(name) != ref.get(name):
            ck.fail("dual_consistency", case, dict(info, variable=name, stage="derived on the returned dual"),
                    detail="%s of the dual: %s ; of a fresh grid with the same faces: %s" % (
                        name, str(got.get(name))[:300], str(ref.get(name))[:300]))
            return
    if stats is not None:
        stats["duals_compared_with_a_fresh_grid"] = stats.get("duals_compared_with_a_fresh_grid", 0) + 1


def case_from_grid(g, name, kind):
    """a grid produced by the implementation (a dual) as the primal of the next round"""
    t = g.face_node_connectivity.values.tolist()
    faces = [real(r) for r in t]
    n = int(g.n_node)
    lon, lat = np.asarray(g.node_lon.values).tolist(), np.asarray(g.node_lat.values).tolist()
    nodes = [list(p) for p in zip(np.asarray(g.node_x.values).tolist(), np.asarray(g.node_y.values).tolist(),
                                  np.asarray(g.node_z.values).tolist())]
    ef = {}
    for fi, f in enumerate(faces):
        for i in range(len(f)):
            a, b = f[i], f[(i + 1) % len(f)]
            ef.setdefault((min(a, b), max(a, b)), []).append(fi)
    simple = all(len(set(f)) == len(f) >= 3 for f in faces)
    closed = simple and bool(ef) and all(len(v) == 2 for v in ef.values())
    inc = incident(faces, n)
    val = [len(x) for x in inc]
    c = {"kind": kind, "name": name, "table": t, "lonlat": [lon, lat], "n_node": n, "closed": bool(closed), "nodes": nodes,
         "mesh_class": ("closed" if closed else "partial") + ("" if (not closed or min(val) >= 3) else "_valence2"),
         "extent_class": None, "simple": simple,
         "duplicate_nodes": len(set(zip(lon, lat))) != n}
    return c


def iterate_duals(ck, c0, d1, ok, levels=2, stats=None, rng=None):
    """(ii) the dual of the dual (and once more) must satisfy the clauses of a first dual, with the previous dual —
    the very object get_dual returned — as the primal"""
    prev_c, prev = c0, d1
    for lvl in range(2, 2 + levels):
        if int(prev.n_face) < 1:
            return
        try:
            cc = case_from_grid(prev, "%s | dual^%d" % (c0["name"], lvl - 1), c0["kind"])
        except Exception as ex:
            root = {k: c0[k] for k in ("table", "lonlat", "n_node", "closed", "mesh_class", "name", "kind", "nodes")}
            ck.fail("dual_consistency", dict(root, iterate=lvl, root=root),
                    {"level": "dual^%d" % (lvl - 1), "closed": c0["closed"], "mesh_class": c0["mesh_class"],
                     "variable": "face_node_connectivity", "stage": "indices of the returned dual"},
                    detail="the dual's face_node_connectivity does not index its own nodes: " + repr(ex))
            return
        inc = incident([real(r) for r in cc["table"]], cc["n_node"])
        if cc["duplicate_nodes"] or not cc["simple"] or not any(len(x) >= 3 for x in inc) \
                or max(len(x) for x in inc) > 8 or max(len(real(r)) for r in cc["table"]) > 8:
            if stats is not None:
                stats["iteration_stopped_outside_quantifier"] = stats.get("iteration_stopped_outside_quantifier", 0) + 1
            return
        prepare(cc)
        extra = {"iterate": lvl, "root": {k: c0[k] for k in ("table", "lonlat", "n_node", "closed", "mesh_class", "name", "kind", "nodes")}}
        info = {"level": "dual^%d" % lvl, "closed": cc["closed"], "mesh_class": cc["mesh_class"], "root_class": c0["mesh_class"]}
        case = {k: cc[k] for k in ("table", "lonlat", "n_node", "closed", "mesh_class", "name", "kind", "nodes")}
        case.update(extra)
        try:
            with warnings.catch_warnings():
                warnings.simplefilter("ignore")
                nxt_d = prev.get_dual()
            conn = nxt_d.face_node_connectivity.values.tolist()
        except Exception as ex:
            ck.fail("raises", case, info, detail="get_dual on the dual returned by get_dual: " + repr(ex))
            return
        mconn = None
        if ok:
            try:
                m = ck.run_model("c18dual", [model_line(cc, prev)])[0]
                if not (m and m[0] == "ERR"):
                    mconn = m[0]
            except Exception:
                pass
        spec_check(ck, cc, prev, nxt_d, conn, tag="dual^%d" % lvl, mconn=mconn, case_extra=extra)
        check_nodes(ck, cc, prev, nxt_d, level="dual^%d" % lvl, case_extra=extra)
        if lvl == 2:
            check_consistency(ck, cc, nxt_d, rng, level="dual^%d" % lvl, case_extra=extra, stats=stats)
        if stats is not None:
            key = "dual^%d of a %s grid" % (lvl, c0["mesh_class"])
            stats[key] = stats.get(key, 0) + 1
        prev_c, prev = cc, nxt_d


# ---------------------------------------------------------------------------------------------
# histories on one Grid object: public mutators of what the dual depends on, get_dual in between

HISTORY_OPS = ["centers_welzl", "centers_avg", "set_face_lonlat", "set_face_xyz", "normalize"]


def apply_op(g, op):
    import xarray as xr
    if op == "centers_welzl":
        g.construct_face_centers("welzl")
    elif op == "centers_avg":
        g.construct_face_centers("cartesian average")
    elif op == "set_face_lonlat":
        lon = (np.asarray(g.face_lon.values) + 0.0371 + 180.0) % 360.0 - 180.0
        lat = np.asarray(g.face_lat.values) * (1.0 - 2e-3)
        g.face_lon = xr.DataArray(lon, dims=["n_face"], attrs=dict(g.face_lon.attrs))
        g.face_lat = xr.DataArray(lat, dims=["n_face"], attrs=dict(g.face_lat.attrs))
    elif op == "set_face_xyz":
        for nm in ("face_x", "face_y", "face_z"):
            old = getattr(g, nm)
            setattr(g, nm, xr.DataArray(np.asarray(old.values) * 2.0, dims=["n_face"], attrs=dict(old.attrs)))
    elif op == "normalize":
        g.normalize_cartesian_coordinates()
    else:
        raise ValueError(op)


def gen_history(rng):
    """get_dual calls (Grid and UxDataArray) before/after/between mutators, incl. immediately repeated calls"""
    h = []
    if rng.random() < 0.8:
        h.append("dual")
    for _ in range(rng.randrange(1, 4)):
        h.append(rng.choice(HISTORY_OPS))
        if rng.random() < 0.3:
            h.append(rng.choice(HISTORY_OPS))
        h.append(rng.choice(["dual", "dual", "uxda_dual"]))
        if rng.random() < 0.25:
            h.append("dual")
    return h


def degenerate_centres(c, g, tol=1e-9):
    P = np.stack([g.node_x.values, g.node_y.values, g.node_z.values], axis=1)
    lo, la = np.radians(np.asarray(g.face_lon.values)), np.radians(np.asarray(g.face_lat.values))
    C = np.stack([np.cos(la) * np.cos(lo), np.cos(la) * np.sin(lo), np.sin(la)], axis=1)
    X = np.stack([g.face_x.values, g.face_y.values, g.face_z.values], axis=1)
    faces = [real(r) for r in c["table"]]
    for CC in (C, X):
        for fi, f in enumerate(faces):
            if np.min(np.linalg.norm(P[f] - CC[fi], axis=1)) < tol:
                return True
        for fs in incident(faces, c["n_node"]):
            for i in range(len(fs)):
                for j in range(i + 1, len(fs)):
                    if np.linalg.norm(CC[fs[i]] - CC[fs[j]]) < tol:
                        return True
    return False


def run_history(ck, c, hist, stats=None):
    """every get_dual of the history must satisfy count / corners / padding and put dual node i at the CURRENT centre
    (Grid.face_lon / face_lat at the time of the call) of primal face i"""
    import uxarray as ux
    g = build_grid(c)
    for step, op in enumerate(hist):
        extra = {"history": hist, "step": step}
        info = {"level": "history", "closed": c["closed"], "mesh_class": c["mesh_class"], "op": op,
                "mutators_before": sorted(set(x for x in hist[:step] if x not in ("dual", "uxda_dual")))}
        if op in ("dual", "uxda_dual"):
            case = {k: c[k] for k in ("table", "lonlat", "n_node", "closed", "mesh_class", "name", "kind", "nodes")}
            case.update(extra)
            cur_lon, cur_lat = np.asarray(g.face_lon.values), np.asarray(g.face_lat.values)
            if not (np.all(np.isfinite(cur_lon)) and np.all(np.isfinite(cur_lat))):
                if stats is not None:
                    stats["stopped_nonfinite_centres"] = stats.get("stopped_nonfinite_centres", 0) + 1
                return
            if any(x in ("centers_welzl", "set_face_lonlat", "set_face_xyz") for x in hist[:step]) and degenerate_centres(c, g):
                # redefined centres that coincide with a corner node of their face or with each other (Welzl centres of
                # faces with a straight corner do): the dual would have zero-length chords / duplicate nodes
                if stats is not None:
                    stats["stopped_degenerate_centres"] = stats.get("stopped_degenerate_centres", 0) + 1
                return
            try:
                with warnings.catch_warnings():
                    warnings.simplefilter("ignore")
                    if op == "dual":
                        d = g.get_dual()
                    else:
                        d = ux.UxDataArray(np.zeros(len(c["table"])), dims=["n_face"], uxgrid=g, name="v").get_dual().uxgrid
                conn = d.face_node_connectivity.values.tolist()
            except Exception as ex:
                ck.fail("raises", case, info, detail=repr(ex))
                return
            redefined = any(x in ("centers_welzl", "set_face_lonlat", "set_face_xyz") for x in hist[:step])
            spec_check(ck, c, g, d, conn, tag="history", check_ring=False, case_extra=extra,
                       corners="subset" if redefined else "exact", stats=stats)
            check_nodes(ck, c, g, d, level="history", case_extra=extra,
                        info_extra={"op": op, "mutators_before": info["mutators_before"]})
            if stats is not None:
                stats["get_dual_calls"] = stats.get("get_dual_calls", 0) + 1
        else:
            try:
                with warnings.catch_warnings():
                    warnings.simplefilter("ignore")
                    apply_op(g, op)
                if stats is not None:
                    stats[op] = stats.get(op, 0) + 1
            except Exception:
                if stats is not None:                   # a mutator that fails is not C18's business; the history ends
                    stats["mutator_raised:" + op] = stats.get("mutator_raised:" + op, 0) + 1
                return


# ---------------------------------------------------------------------------------------------
# generators

def valences(m):
    val = [0] * len(m.nodes)
    for f in m.faces:
        for v in f:
            val[v] += 1
    return val


def max_extent(m):
    """largest angular distance between a node and an incident face's corner (rad)"""
    mx = 0.0
    for f in m.faces:
        for a in f:
            for b in f:
                dd = sum(m.nodes[a][k] * m.nodes[b][k] for k in range(3))
                mx = max(mx, math.acos(max(-1.0, min(1.0, dd))))
    return mx


def to_antimeridian(m, rng):
    """rotate about z so that one node has longitude exactly 180"""
    p = m.nodes[rng.randrange(len(m.nodes))]
    r = math.hypot(p[0], p[1])
    if r < 1e-6:
        return False
    cs, sn = -p[0] / r, p[1] / r             # rotation taking (p0,p1) to (-r, 0)
    R = [[cs, -sn, 0.0], [sn, cs, 0.0], [0.0, 0.0, 1.0]]
    # R * p = (cs*p0 - sn*p1, sn*p0 + cs*p1) = (-(p0^2+p1^2)/r, 0)
    meshgen.rotate(m, R)
    m.nodes = [((q[0], 0.0, q[2]) if (abs(q[1]) < 1e-15 and q[0] < 0) else q) for q in m.nodes]
    return True


def refine(m, rng, rounds):
    """fine meshes: midpoint subdivision of a triangle mesh (1 -> 4, valences stay <= 6), jittered, then random
    triangle pairs merged into quads as long as every node keeps >= 3 faces"""
    for _ in range(rounds):
        mid = {}
        faces = []
        for f in m.faces:
            assert len(f) == 3
            ms = []
            for i in range(3):
                a, b = f[i], f[(i + 1) % 3]
                key = (min(a, b), max(a, b))
                if key not in mid:
                    t = 0.42 + 0.16 * rng.random()
                    pa, pb = m.nodes[key[0]], m.nodes[key[1]]
                    mid[key] = len(m.nodes)
                    m.nodes.append(meshgen._norm(tuple(pa[k] * (1 - t) + pb[k] * t for k in range(3))))
                ms.append(mid[key])
            faces += [[f[0], ms[0], ms[2]], [f[1], ms[1], ms[0]], [f[2], ms[2], ms[1]], [ms[0], ms[1], ms[2]]]
        m.faces = faces
    val = valences(m)
    ef = m.edge_faces()
    used = set()
    for (a, b), fs in sorted(ef.items()):
        if len(fs) == 2 and rng.random() < 0.2 and not (set(fs) & used) and val[a] > 3 and val[b] > 3:
            f1, f2 = m.faces[fs[0]], m.faces[fs[1]]
            x, y = (a, b) if nxt(f1, a) == b else (b, a)          # directed edge x->y in f1
            o1 = [v for v in f1 if v not in (x, y)][0]
            o2 = [v for v in f2 if v not in (x, y)][0]
            m.faces[fs[0]] = [x, o2, y, o1]
            m.faces[fs[1]] = None
            used |= set(fs)
            val[a] -= 1
            val[b] -= 1
    m.faces = [f for f in m.faces if f is not None]
    return m


def fan_mesh(rng):
    """bipyramid: north apex, ring of k nodes at very different colatitudes, south apex (all triangles)"""
    k = rng.randrange(4, 8)
    gaps = [rng.uniform(8, 120) for _ in range(k)]
    tot = sum(gaps)
    lons, acc = [], 0.0
    for gp in gaps:
        lons.append(acc)
        acc += gp * 360.0 / tot
    cols = [rng.choice([rng.uniform(8, 30), rng.uniform(60, 125)]) for _ in range(k)]

    def sph(colat, lon):
        cc, ll = math.radians(colat), math.radians(lon)
        return (math.sin(cc) * math.cos(ll), math.sin(cc) * math.sin(ll), math.cos(cc))
    nodes = [(0.0, 0.0, 1.0)] + [sph(a, b) for a, b in zip(cols, lons)] + [(0.0, 0.0, -1.0)]
    faces = [[0, 1 + i, 1 + (i + 1) % k] for i in range(k)] + [[k + 1, 1 + (i + 1) % k, 1 + i] for i in range(k)]
    return meshgen.Mesh(nodes, faces, True, "fan%d" % k)


def fine_patch(rng):
    """uniformly fine regional patch: (nx x ny) jittered lon/lat lattice with spacing 1e-4..1e-2 degrees anywhere on the
    sphere (also across the antimeridian / next to a pole), quads and triangles mixed"""
    nx, ny = rng.randrange(4, 8), rng.randrange(4, 8)
    h = 10.0 ** rng.uniform(-4, -2)
    lon0 = rng.choice([rng.uniform(-180, 180), 180.0 - h * nx / 2, 0.0, -180.0 + h])
    lat0 = rng.choice([rng.uniform(-80, 80), 0.0, 89.0, -60.0])
    nodes, ids = [], {}
    for j in range(ny):
        for i in range(nx):
            lo = math.radians(lon0 + h * (i + rng.uniform(-0.15, 0.15)))
            la = math.radians(lat0 + h * (j + rng.uniform(-0.15, 0.15)))
            ids[(i, j)] = len(nodes)
            nodes.append((math.cos(la) * math.cos(lo), math.cos(la) * math.sin(lo), math.sin(la)))
    faces = []
    for j in range(ny - 1):
        for i in range(nx - 1):
            q = [ids[(i, j)], ids[(i + 1, j)], ids[(i + 1, j + 1)], ids[(i, j + 1)]]
            r = rng.random()
            if r < 0.3:
                faces += [[q[0], q[1], q[2]], [q[0], q[2], q[3]]]
            elif r < 0.6:
                faces += [[q[0], q[1], q[3]], [q[1], q[2], q[3]]]
            else:
                faces.append(q)
    return meshgen.Mesh(nodes, faces, False, "finepatch%dx%d,h=%.1e" % (nx, ny, h))


def refined_spot(rng):
    """closed lon/lat sphere (pole triangles + quads, a node on each pole) whose meridians and parallels are clustered
    around one point so that the cells there are 1e-4..1e-2 degrees"""
    h = 10.0 ** rng.uniform(-4, -2)
    lon0, lat0 = rng.uniform(-180, 180), rng.uniform(-50, 50)
    kl, kb = rng.randrange(2, 5), rng.randrange(2, 5)
    lons = sorted({(lon0 + 90.0 * k + 180.0) % 360.0 - 180.0 for k in range(1, 4)} |
                  {(lon0 + h * (k - (kl - 1) / 2) + 180.0) % 360.0 - 180.0 for k in range(kl)})
    lats = sorted({-60.0, 65.0} | ({lat0 - 35.0} if lat0 > -20 else set()) | ({lat0 + 30.0} if lat0 < 30 else set()) |
                  {lat0 + h * (k - (kb - 1) / 2) for k in range(kb)})
    # order the meridians eastward starting anywhere (cyclic)
    nl = len(lons)
    nodes = [(0.0, 0.0, -1.0)]
    ids = {}
    for j, la in enumerate(lats):
        for i, lo in enumerate(lons):
            a, b = math.radians(la), math.radians(lo)
            ids[(i, j)] = len(nodes)
            nodes.append((math.cos(a) * math.cos(b), math.cos(a) * math.sin(b), math.sin(a)))
    north = len(nodes)
    nodes.append((0.0, 0.0, 1.0))
    faces = []
    for i in range(nl):
        i2 = (i + 1) % nl
        faces.append([0, ids[(i2, 0)], ids[(i, 0)]])
        for j in range(len(lats) - 1):
            faces.append([ids[(i, j)], ids[(i2, j)], ids[(i2, j + 1)], ids[(i, j + 1)]])
        faces.append([north, ids[(i, len(lats) - 1)], ids[(i2, len(lats) - 1)]])
    return meshgen.Mesh(nodes, faces, True, "refinedspot,h=%.1e" % h)


def gen_case(rng, tier, kind):
    for _ in range(200):
        if kind in ("finepatch", "refinedspot"):
            m = fine_patch(rng) if kind == "finepatch" else refined_spot(rng)
            if kind == "refinedspot" and rng.random() < 0.5:
                meshgen.rotate(m, meshgen.rotation_matrix(rng, "random"))
            meshgen.renumber(m, rng)
            meshgen.rotate_starts(m, rng)
        elif kind == "fan":
            m = fan_mesh(rng)
            meshgen.rotate(m, meshgen.rotation_matrix(rng))
            meshgen.renumber(m, rng)
            meshgen.rotate_starts(m, rng)
        elif kind == "poly":
            m = meshgen._poly(rng.choice(meshgen.SEEDS))
            meshgen.rotate(m, meshgen.rotation_matrix(rng))
            meshgen.renumber(m, rng)
            meshgen.rotate_starts(m, rng)
            m.name += ":seed"
        elif kind == "refined":
            m = meshgen._poly(rng.choice(["octa", "icosa", "icosa", "tetra"]))
            refine(m, rng, rng.choice([1, 2, 2]))
            m.orient()
            if rng.random() < 0.3:
                meshgen.node_to_pole(m, rng)
            else:
                meshgen.rotate(m, meshgen.rotation_matrix(rng))
            meshgen.renumber(m, rng)
            meshgen.rotate_starts(m, rng)
            m.name += ":refined"
        elif kind == "antimeridian":
            m = meshgen.gen_mesh(rng, max_ops=8, partial=False, rot=False)
            meshgen.rotate(m, meshgen.rotation_matrix(rng, "random"))
            if not to_antimeridian(m, rng):
                continue
            m.name += ",antimeridian"
        elif kind == "partial":
            m = meshgen.gen_mesh(rng, max_ops=10, partial=True)
        else:
            m = meshgen.gen_mesh(rng, max_ops=40 if (tier == "thorough" and rng.random() < 0.05) else 10, partial=False)
        val = valences(m)
        if max(val) > 8 or max(len(f) for f in m.faces) > 8:
            continue
        if len(set(m.nodes)) != len(m.nodes):
            continue
        lon, lat = m.lonlat()
        if len(set(zip(lon, lat))) != len(lon):
            continue
        closed = m.closed and m.is_manifold()
        ext = max_extent(m)
        c = {"kind": kind, "name": m.name, "table": m.table(m.width() + rng.choice([0, 0, 1])),
             "lonlat": [lon, lat], "n_node": len(m.nodes), "closed": bool(closed),
             "nodes": [list(p) for p in m.nodes],
             "mesh_class": ("closed" if closed else "partial") + ("" if min(val) >= 3 or not closed else "_valence2"),
             "min_valence": min(val), "max_valence": max(val),
             "extent_class": "coarse" if ext > 0.9 else "moderate" if ext > 0.35 else "fine"}
        return c
    raise RuntimeError("generator could not produce a mesh of kind " + kind)


def gen_cases(ck):
    rng = ck.rng
    quick = ck.tier == "quick"
    cases = []
    cdir = os.path.join(common.VERIF, "corpus", "C18")
    if os.path.isdir(cdir):
        for fn in sorted(os.listdir(cdir)):
            c = json.load(open(os.path.join(cdir, fn)))
            c["kind"] = "corpus"
            cases.append(c)
    plan = [("finepatch", 25 if quick else 300), ("refinedspot", 20 if quick else 250), ("fan", 20 if quick else 300), ("poly", 30 if quick else 100), ("closed", 95 if quick else 2200), ("refined", 20 if quick else 300),
            ("antimeridian", 30 if quick else 600), ("partial", 70 if quick else 1700)]
    for kind, n in plan:
        for _ in range(n):
            cases.append(gen_case(rng, ck.tier, kind))
    return cases


# ---------------------------------------------------------------------------------------------
# model

def scaled_vecs(arrs):
    """the doubles as integers in one common dyadic unit 2^-k (exact)"""
    fr = [[Fraction(float(x)) for x in a] for a in arrs]
    k = max([f.denominator for a in fr for f in a] or [1])
    return [[int(f * k) for f in a] for a in fr], k


def vecs_sx(xs, ys, zs):
    return "(" + " ".join("(%d %d %d)" % (x, y, z) for x, y, z in zip(xs, ys, zs)) + ")"


def node_margins(c, g):
    """per node: how far the float decisions of _order_nodes are from a tie (side test and angle gaps)"""
    faces = [[x for x in r if x != FILL] for r in c["table"]]
    inc = incident(faces, c["n_node"])
    P = np.stack([g.node_x.values, g.node_y.values, g.node_z.values], axis=1)
    C = np.stack([g.face_x.values, g.face_y.values, g.face_z.values], axis=1)
    out = {}
    for v, fs in enumerate(inc):
        if len(fs) < 3:
            continue
        n0 = C[fs[0]]
        nz = n0 - P[v]
        nzp = nz - np.dot(nz, P[v]) * P[v]
        ncross = np.cross(n0, P[v])
        ang = []
        mside = 1.0
        for f in fs[1:]:
            dd = C[f] - P[v]
            ddp = dd - np.dot(dd, P[v]) * P[v]
            side = float(np.dot(ncross, dd))
            mside = min(mside, abs(side) / (np.linalg.norm(ncross) * np.linalg.norm(dd) + 1e-300))
            cs = float(np.dot(nzp, ddp) / (np.linalg.norm(nzp) * np.linalg.norm(ddp)))
            a = math.acos(max(-1.0, min(1.0, cs)))
            ang.append(2 * math.pi - a if side > 0 else a)
        ang = sorted(ang + [0.0, 2 * math.pi])
        gap = min(b - a for a, b in zip(ang, ang[1:]))
        out[v] = min(mside, gap)
    return out


def canon_conn(conn):
    out = []
    for row in conn:
        ring = [x for x in row if x != FILL]
        out.append((canon_ring(ring), row[:len(ring)] == ring))      # width is not fixed by the property
    return out


# ---------------------------------------------------------------------------------------------
# JIT off: a separate interpreter with NUMBA_DISABLE_JIT=1

def worker():
    cases = json.load(sys.stdin)
    out = []
    for c in cases:
        try:
            g, d = impl_dual(c)
            out.append(d.face_node_connectivity.values.tolist())
        except Exception as ex:
            out.append({"error": repr(ex)})
    json.dump(out, sys.stdout)


def run_nojit(cases):
    env = common.impl_env({"NUMBA_DISABLE_JIT": "1"})
    payload = json.dumps([{k: c[k] for k in ("table", "lonlat", "n_node")} for c in cases])
    p = subprocess.run([sys.executable, "-W", "ignore", os.path.abspath(__file__), "--worker"], input=payload, text=True,
                       stdout=subprocess.PIPE, stderr=subprocess.PIPE, env=env, timeout=1500)
    if p.returncode != 0:
        raise RuntimeError("JIT-off worker failed: " + p.stderr[-1500:])
    return json.loads(p.stdout)


# ---------------------------------------------------------------------------------------------

def prepare(c):
    """exact facts about the generated primal mesh (its faces must be counter-clockwise)"""
    faces = [[x for x in r if x != FILL] for r in c["table"]]
    nodes_q = [fr3(p) for p in c["nodes"]]
    # premise of the ring test: consistently oriented (every directed edge used once) and every face
    # counter-clockwise in exact arithmetic
    de = [(f[i], f[(i + 1) % len(f)]) for f in faces for i in range(len(f))]
    c["ccw_ok"] = len(set(de)) == len(de) and faces_ccw_exact(nodes_q, faces)
    c["convex"] = [face_convex(c["nodes"], f) for f in faces]
    # nodes whose faces form a closed umbrella (every edge at the node has two faces): there the ring clause is as
    # meaningful on a partial grid as on a closed one
    cnt = {}
    for f in faces:
        for i in range(len(f)):
            a, b = f[i], f[(i + 1) % len(f)]
            cnt[(min(a, b), max(a, b))] = cnt.get((min(a, b), max(a, b)), 0) + 1
    interior = [True] * c["n_node"]
    for (a, b), k in cnt.items():
        if k != 2:
            interior[a] = interior[b] = False
    c["interior"] = interior


def model_line(c, g):
    v, _ = scaled_vecs([g.node_x.values, g.node_y.values, g.node_z.values, g.face_x.values, g.face_y.values, g.face_z.values])
    return "(%s %s %s)" % (sx(c["table"]), vecs_sx(v[0], v[1], v[2]), vecs_sx(v[3], v[4], v[5]))


def run_model_parallel(ck, cmd, lines, workers=14):
    """the extracted driver is a line filter: split the lines over a few processes"""
    from concurrent.futures import ThreadPoolExecutor
    if len(lines) < 4 * workers:
        return ck.run_model(cmd, lines)
    chunks = [lines[i::workers] for i in range(workers)]
    with ThreadPoolExecutor(workers) as ex:
        outs = list(ex.map(lambda ch: ck.run_model(cmd, ch), chunks))
    res = [None] * len(lines)
    for w, out in enumerate(outs):
        for j, o in enumerate(out):
            res[w + j * workers] = o
    return res


def run_impl(ck, c):
    """pass 1: the implementation"""
    prepare(c)
    case = {k: c[k] for k in ("table", "lonlat", "n_node", "closed", "mesh_class", "name", "kind", "nodes")}
    info = {"level": "grid", "closed": c["closed"], "mesh_class": c["mesh_class"]}
    try:
        g, d = impl_dual(c)
        conn = d.face_node_connectivity.values.tolist()
    except Exception as ex:
        ck.fail("raises", case, info, detail=repr(ex))
        return None
    return {"g": g, "d": d, "conn": conn}


def run_checks(ck, c, res, rng, mconn, do_data=True, stats=None, layouts=None):
    """pass 2: the property clauses on the implementation's output (mconn: rows of the exact model or None)"""
    g, d, conn = res["g"], res["d"], res["conn"]
    res["bad"] = spec_check(ck, c, g, d, conn, mconn=mconn)
    check_nodes(ck, c, g, d)
    if c["closed"]:
        res["geo"] = geometric_ccw(c, d, conn)
    if do_data and c["mesh_class"] == "closed" and (layouts or len(c["table"]) <= 60 or rng.random() < 0.3):
        check_data(ck, c, g, rng, mconn=mconn, layouts=layouts, stats=stats)
    return res


def main(ck):
    import time
    tm = {}
    t0 = time.time()
    ck.check_props()
    ok = ck.build_driver()
    tm["coq_build_and_props"] = round(time.time() - t0, 1)
    t0 = time.time()
    cases = gen_cases(ck)
    tm["generate"] = round(time.time() - t0, 1)
    t0 = time.time()
    ck.cov["rule"] = ("corpus + uniformly fine regional patches (cells 1e-4..1e-2 degrees, also across the antimeridian / next to a pole) "
                      "+ closed lon/lat spheres with a locally refined spot (cells down to 1e-4 degrees) + bipyramids with very uneven faces + 9 seed polyhedra + closed sphere tilings grown by split/subdivide/stellate/dual "
                      "(meshgen), refined tilings (2-3 rounds of stellation with random triangle pairs merged into "
                      "quads), tilings with a node exactly on the antimeridian / on a pole, partial grids by face "
                      "deletion; all renumbered, random start corner, random rigid rotation; data arrays of rank 1-3 with the grid "
                      "dimension first / middle / last (other axes sometimes as long as an element count); histories on one Grid: "
                      "get_dual / UxDataArray.get_dual before, between and after construct_face_centers(both methods), "
                      "face_lon/face_lat and face_x/y/z setters, normalize_cartesian_coordinates, repeated calls; the returned dual "
                      "compared with a fresh grid built from its own faces (stored + derived connectivity, node/face subsets); "
                      "dual of the dual and third dual on closed and partial grids; node valence <= 8, face "
                      "size 3..8, no duplicate nodes; non-trivial = at least one node with >= 3 faces; distinct = "
                      "distinct (table, coordinates)")
    hist, cls_hist, val_hist, ext_hist, conv_hist = {}, {}, {}, {}, {}
    data_stats, hist_stats, self_stats = {}, {}, {}
    results = []
    geo_pos = geo_neg = 0
    for idx, c in enumerate(cases):
        faces = [[x for x in r if x != FILL] for r in c["table"]]
        inc = incident(faces, c["n_node"])
        ck.note_case((c["table"], c["lonlat"]), any(len(x) >= 3 for x in inc))
        hist[c["kind"]] = hist.get(c["kind"], 0) + 1
        cls_hist[c["mesh_class"]] = cls_hist.get(c["mesh_class"], 0) + 1
        prepare(c)
        conv_hist["all faces convex" if all(c["convex"]) else "has a non-convex face"] = \
            conv_hist.get("all faces convex" if all(c["convex"]) else "has a non-convex face", 0) + 1
        ext_hist[c["extent_class"]] = ext_hist.get(c["extent_class"], 0) + 1
        for x in inc:
            val_hist[len(x)] = val_hist.get(len(x), 0) + 1
        results.append(run_impl(ck, c))
    tm["implementation"] = round(time.time() - t0, 1)
    t0 = time.time()
    # ---- the exact model on the same inputs ------------------------------------------------------
    models = [None] * len(cases)
    if ok:
        lines, owners = [], []
        for ci, (c, res) in enumerate(zip(cases, results)):
            if res is not None:
                lines.append(model_line(c, res["g"]))
                owners.append(ci)
        mo = run_model_parallel(ck, "c18dual", lines) if lines else []
        for ci, m in zip(owners, mo):
            models[ci] = m
    tm["model"] = round(time.time() - t0, 1)
    t0 = time.time()
    # ---- property clauses on the implementation output --------------------------------------------
    for idx, (c, res) in enumerate(zip(cases, results)):
        if res is None:
            continue
        m = models[idx]
        mconn = m[0] if (m and not (m and m[0] == "ERR")) else None
        run_checks(ck, c, res, ck.rng, mconn, stats=data_stats)
        if "geo" in res:
            geo_pos += res["geo"][0]
            geo_neg += res["geo"][1]
        if len(ck.cov["samples"]) < 4 and idx % 53 == 0:
            faces = [[x for x in r if x != FILL] for r in c["table"]]
            ck.sample({"kind": c["kind"], "name": c["name"], "mesh_class": c["mesh_class"],
                       "primal_faces": faces[:4], "dual_rows_impl": [["F" if x == FILL else x for x in r] for r in res["conn"][:4]]})
    tm["clauses_and_data"] = round(time.time() - t0, 1)
    t0 = time.time()
    # ---- the dual as a grid of its own: consistency with a fresh grid, subsets, iterated duals -------
    for idx, (c, res) in enumerate(zip(cases, results)):
        if res is None or len(c["table"]) > 400:
            continue
        r = ck.rng.random()
        if r < (0.2 if ck.tier == "quick" else 0.1):
            try:
                d1 = build_grid(c).get_dual()        # a dual nothing has been derived on yet
            except Exception:
                continue
            if r < (0.07 if ck.tier == "quick" else 0.04) or (not c["closed"] and r < (0.12 if ck.tier == "quick" else 0.07)):
                iterate_duals(ck, c, d1, ok, levels=2, stats=self_stats, rng=ck.rng)
            check_consistency(ck, c, d1, ck.rng, stats=self_stats)
    tm["dual_as_grid"] = round(time.time() - t0, 1)
    t0 = time.time()
    # ---- histories on one Grid object ----------------------------------------------------------
    n_hist = 0
    for idx, (c, res) in enumerate(zip(cases, results)):
        if res is None or len(c["table"]) > 400:
            continue
        if ck.rng.random() < (0.45 if ck.tier == "quick" else 0.3):
            run_history(ck, c, gen_history(ck.rng), hist_stats)
            n_hist += 1
    tm["histories"] = round(time.time() - t0, 1)
    t0 = time.time()
    # ---- model correspondence ---------------------------------------------------------------
    n_corr = n_skip = n_model_wrong = 0
    if ok:
        for ci, (c, res) in enumerate(zip(cases, results)):
            m = models[ci]
            if res is None or m is None:
                continue
            if isinstance(m, list) and m and m[0] == "ERR":
                ck.corr_failures.append({"case": c["name"], "model": m})
                continue
            mconn, mnodes, mnf = m
            faces = [[x for x in r if x != FILL] for r in c["table"]]
            inc = incident(faces, c["n_node"])
            nodes3 = [v for v in range(c["n_node"]) if len(inc[v]) >= 3]
            if mnodes != nodes3 or [sorted(x) for x in mnf] != [sorted(x) for x in inc]:
                ck.corr_failures.append({"case": c["name"], "what": "model node_face / dual face nodes", "model": mnodes[:10]})
            inf = [[x for x in r if x != FILL] for r in res["g"].node_face_connectivity.values.tolist()]
            if [sorted(x) for x in inf] != [sorted(x) for x in inc]:
                ck.corr_failures.append({"case": c["name"], "what": "impl node_face_connectivity differs from incidence"})
            ic, mc = canon_conn(res["conn"]), canon_conn(mconn)
            if len(ic) != len(mc):
                ck.corr_failures.append({"case": c["name"], "table": c["table"], "what": "row count", "impl": len(ic), "model": len(mc)})
                continue
            # rows on which the faithful model itself violates the property (chord-angle order != azimuth order):
            # there an implementation that is RIGHT may differ from the model (e.g. after a repair)
            mbad = {k for _, k in spec_check(ck, c, res["g"], res["d"], mconn, report=False)}
            ibad = {k for _, k in res.get("bad", [])}
            n_model_wrong += len(mbad)
            marg = None
            for k, (a, b) in enumerate(zip(ic, mc)):
                n_corr += 1
                if a != b:
                    if k in mbad and k not in ibad:
                        continue
                    if marg is None:
                        marg = node_margins(c, res["g"])
                    v = nodes3[k] if k < len(nodes3) else None
                    if v is not None and marg.get(v, 1.0) < 1e-9:
                        n_skip += 1            # float decision within rounding of a tie: not comparable
                        continue
                    ck.corr_failures.append({"case": c["name"], "table": c["table"], "lonlat": c["lonlat"], "node": v,
                                             "impl": a, "model": b, "margin": marg.get(v)})
    tm["correspondence"] = round(time.time() - t0, 1)
    t0 = time.time()
    # ---- JIT off --------------------------------------------------------------------------------
    n_nojit = 0
    sample = [(c, r) for c, r in zip(cases, results) if r is not None and len(c["table"]) <= 40]
    step = max(1, len(sample) // (12 if ck.tier == "quick" else 60))
    small = [(c, r) for c, r in zip(cases, results) if r is not None and c["kind"] in ("finepatch", "refinedspot")
             and len(c["table"]) <= 80]
    sample = small[: (6 if ck.tier == "quick" else 30)] + sample[::step][: (10 if ck.tier == "quick" else 50)]
    if sample:
        try:
            outs = run_nojit([c for c, _ in sample])
            for (c, r), o in zip(sample, outs):
                n_nojit += 1
                if o != r["conn"]:
                    ck.fail("jit", {k: c[k] for k in ("table", "lonlat", "n_node", "closed", "mesh_class", "name", "kind")},
                            {"level": "jit_off", "closed": c["closed"], "mesh_class": c["mesh_class"]},
                            detail="JIT off: %r ; JIT on: %r" % (str(o)[:300], str(r["conn"])[:300]))
        except Exception as ex:
            ck.proof["errors"].append("JIT-off run failed: " + repr(ex)[:800])
    tm["jit_off"] = round(time.time() - t0, 1)
    t0 = time.time()
    # ---- extraction audit -------------------------------------------------------------------------
    audit_n = 0
    if ok:
        small = [(c, r) for c, r in zip(cases, results) if r is not None and len(c["table"]) <= 8][:12]
        alines, mlines = [], []
        for c, r in small:
            g = r["g"]
            v, _ = scaled_vecs([g.node_x.values, g.node_y.values, g.node_z.values, g.face_x.values, g.face_y.values, g.face_z.values])

            def qv(xs, ys, zs):
                return "[" + ";".join("(%d,%d,%d)" % (x, y, z) for x, y, z in zip(xs, ys, zs)) + "]"
            tt = "[" + ";".join("[" + ";".join("FILL" if x == FILL else "%d" % x for x in row) + "]" for row in c["table"]) + "]"
            alines.append("Eval vm_compute in (c18_run %s %s %s)." % (tt, qv(v[0], v[1], v[2]), qv(v[3], v[4], v[5])))
            mlines.append(model_line(c, g))
        if alines:
            rc, out = ck.audit_vm(alines, "From Verif Require Import Base C18.\nOpen Scope Z_scope.")
            if rc != 0:
                ck.proof["errors"].append("in-kernel audit failed: " + out[-800:])
            else:
                import re
                blocks = re.split(r"(?m)^\s*= ", out)[1:]
                ml = ck.run_model("c18dual", mlines)
                for b, m in zip(blocks, ml):
                    body = b.split("\n     :")[0].replace("-9223372036854775808", "F")
                    nums = re.findall(r"-?\d+|F", body)
                    flat = []
                    for row in m[0]:
                        flat += ["F" if x == FILL else str(x) for x in row]
                    flat += [str(x) for x in m[1]]
                    if nums != flat:
                        ck.proof["errors"].append("extraction audit mismatch: kernel %s vs extracted %s" % (nums[:20], flat[:20]))
                    audit_n += 1
    tm["audit"] = round(time.time() - t0, 1)
    ck.extra.update({
        "phase_seconds": tm,
        "data_layouts_checked": dict(sorted(data_stats.items())), "histories": n_hist,
        "history_ops": dict(sorted(hist_stats.items())),
        "dual_as_grid": dict(sorted(self_stats.items())),
        "case_kinds": hist, "mesh_classes": cls_hist, "node_valence_histogram": {str(k): v for k, v in sorted(val_hist.items())},
        "face_extent_classes": ext_hist, "face_convexity": conv_hist, "model_vs_impl_rows_compared": n_corr, "rows_skipped_near_tie(<1e-9)": n_skip,
        "rows_where_the_exact_model_violates_the_ring_clause": n_model_wrong,
        "jit_off_cases": n_nojit, "extraction_audit_cases": audit_n,
        "geometric_orientation_exact": {"dual_faces_counter_clockwise": geo_pos, "not": geo_neg},
        "canonical_form": "rings compared up to rotation (start face is not fixed by the property); orientation and "
                          "edge adjacency exactly: prev_corner(F_i, v) == next_corner(F_{i+1}, v) on primal faces whose "
                          "counter-clockwise orientation was verified in exact rational arithmetic",
        "clauses_checked_on_impl": ["raises", "count", "nodes (current face_lon/face_lat, after every get_dual of a history)",
                                    "pad", "corners", "ring (closed grids)", "data_type", "data_dims (by name, grid dimension first/"
                                    "middle/last)", "data_values (also after the source / the result were edited in place)", "data_grid (every grid dimension vs the dual's counts)", "jit",
                                    "dual_consistency (carried and derived connectivity, isel subsets vs a fresh grid built from "
                                    "the dual's own faces)", "all clauses again for the dual of the dual and the third dual"],
        "partial": "ring order is proved only under the hypothesis that the azimuth order of the face centres (what _order_nodes "
                   "measures since c8b893ff) equals the umbrella order (C18_ring_partial); the exact checker decides it for every generated mesh; face centres "
                   "are whatever Grid.face_lon/face_lat report (C04 owns them)"})
    ck.trusted += ["numba njit (= the Python semantics of the same loops; exercised with JIT on and off)",
                   "np.cross / np.dot / np.linalg.norm / np.arccos modelled by exact integer sign and square comparisons; the "
                   "tangent-plane projection x - (x.n)n is modelled as the orthogonal projection (node_central is a unit vector up "
                   "to rounding; C18_projection ties the reduced keys to the literal projected form); "
                   "model and implementation are compared only where the float decision is >= 1e-9 away from a tie",
                   "Grid.from_topology and Grid.face_lon/face_lat/face_x/y/z, node_x/y/z (inputs to the model)"]
    ck.assumptions += ["primal faces are simple, counter-clockwise (verified exactly per case), no duplicate nodes, node "
                       "valence <= 8; face_node_connectivity in standard form (C01/C02)"]


def replay(ck, rp):
    c = dict(rp["case"])
    ck.note_case("replay")
    if "nodes" not in c:
        lon, lat = c["lonlat"]
        c["nodes"] = [[math.cos(math.radians(b)) * math.cos(math.radians(a)), math.cos(math.radians(b)) * math.sin(math.radians(a)),
                       math.sin(math.radians(b))] for a, b in zip(lon, lat)]
    c.setdefault("extent_class", None)
    c.setdefault("name", "replay")
    c.setdefault("kind", "replay")
    if "history" in c:
        prepare(c)
        run_history(ck, c, c["history"])
        return
    if "iterate" in c or "consistency" in c:
        root = dict(c.get("root") or c)
        root.setdefault("extent_class", None)
        prepare(root)
        try:
            d1 = build_grid(root).get_dual()
        except Exception as ex:
            ck.fail("raises", root, {"level": "grid"}, detail=repr(ex))
            return
        ok = False
        try:
            ok = ck.build_driver()
        except Exception:
            pass
        iterate_duals(ck, root, d1, ok, levels=2, rng=ck.rng)
        check_consistency(ck, root, d1, ck.rng)
        return
    res = run_impl(ck, c)
    if res is None:
        return
    mconn = None
    try:
        if ck.build_driver():
            m = ck.run_model("c18dual", [model_line(c, res["g"])])[0]
            if not (m and m[0] == "ERR"):
                mconn = m[0]
    except Exception:
        pass
    if "data_layout" in c:
        check_data(ck, c, res["g"], ck.rng, mconn=mconn, layouts=[c["data_layout"]])
        return
    run_checks(ck, c, res, ck.rng, mconn)


if __name__ == "__main__" and len(sys.argv) > 1 and sys.argv[1] == "--worker":
    worker()
