"""C07 — encoding a grid (UGRID / Exodus / SCRIP) and reading it back preserves the grid, for every
history of earlier encodes and materialised derived variables.

Proof: coq/Props/C07_props.v (about coq/Model/C07.v: the three encoders, the module-level
template dict as explicit state, enough of the decoders and of the netCDF step).
Tie: every generated scenario (grids from several kinds of sources, derived quantities
materialised, earlier encodes of the same and of other grids, both entry points, all formats) is
run on the real code — Grid.to_xarray / Grid.encode_as, Dataset.to_netcdf to /verif/.scratch,
ux.open_grid on the dataset and on the file — and on the extracted model; the property's clauses
are evaluated directly on the implementation's output; the canonicalised outputs are compared.
"""
import json
import math
import os
import subprocess
import sys
import time

import numpy as np

import common
import meshgen
from common import FILL, sx

TOL_RAD = math.radians(1e-9)          # Appendix B: corner positions within 1e-9 degree
SNAP_DEG = 0.01                       # _xyz_to_lonlat_rad snaps |z| > 1-1e-8 (0.0081 deg) to the pole
FORMATS = ["ugrid", "exodus", "scrip"]
ENCODE_AS = {"ugrid": "UGRID", "exodus": "Exodus", "scrip": "SCRIP"}
FEATURES = ["n_nodes_per_face", "edge_node_connectivity", "face_edge_connectivity", "face_face_connectivity",
            "edge_face_connectivity", "node_face_connectivity", "node_x", "face_lon", "face_x", "edge_lon",
            "edge_x", "face_areas", "bounds", "edge_node_distances", "edge_face_distances",
            "antimeridian_face_indices", "hole_edge_indices", "ball_tree", "kd_tree", "normalize"]
SOURCES = ["topo_ll", "topo_ll", "topo_ll", "topo_llxyz", "topo_llxyz", "exodus_src", "ugrid_src",
           "topo_edges", "xyz_only", "file_ugrid", "file_ugrid", "file_exodus", "file_scrip",
           "ctor_nospec", "ctor_nospec", "ctor_none", "ctor_spec", "from_dataset_spec", "scrip_src", "face_vertices",
           "cart_centres", "cart_centres", "sph_centres"]
GLOBAL_ATTR_SOURCES = ("cart_centres", "sph_centres", "ctor_nospec", "ctor_none", "ctor_spec", "from_dataset_spec", "ugrid_src", "exodus_src",
                       "scrip_src", "xyz_only", "file_ugrid", "file_exodus", "file_scrip")
DERIVATIONS = [None, None, None, None, "copy", "isel", "isel", "dual"]
MESHFILES = ["ugrid/geoflow-small/grid.nc", "ugrid/outCSne30/outCSne30.ug", "exodus/mixed/mixed.exo",
             "exodus/outCSne8/outCSne8.g", "scrip/outCSne8/outCSne8.nc"]
FROM_GRID_TRUTH = ("file_ugrid", "file_exodus", "file_scrip", "scrip_src", "face_vertices")
# + every "meshfile:..." source and every derived grid (copy / isel / dual)


def gen_global_attrs(rng):
    """extra global attributes a user's source dataset may carry"""
    if rng.random() < 0.5:
        return {}
    pool = [("title", "generated grid"), ("history", "created by a b c"), ("version", 3), ("scale", 2.5),
            ("levels", [1, 2, 3]), ("weights", [0.5, 0.25]), ("Conventions", "CF-1.8"), ("comment", None),
            ("institution", None)]
    return dict(rng.sample(pool, rng.randrange(1, 4)))
OPTIONAL_KEYS = ["edge_dimension", "face_coordinates", "edge_coordinates"]


# ---------------------------------------------------------------------------------------------
# names <-> integers (the model's c07_code)

def code(name):
    return int.from_bytes(name.replace(" ", "~").encode(), "big")


def uncode(z):
    if not isinstance(z, int) or z <= 0:
        return str(z)
    return z.to_bytes((z.bit_length() + 7) // 8, "big").decode(errors="replace")


# ---------------------------------------------------------------------------------------------
# geometry helpers (oracle side)

def xyz_of_deg(lon, lat):
    lo, la = math.radians(lon), math.radians(lat)
    return (math.cos(la) * math.cos(lo), math.cos(la) * math.sin(lo), math.sin(la))


def unit(v):
    n = math.sqrt(math.fsum(c * c for c in v))
    return (v[0] / n, v[1] / n, v[2] / n)


def min_rotation(face):
    if not face:
        return tuple(face)
    return min(tuple(face[k:] + face[:k]) for k in range(len(face)))


# ---------------------------------------------------------------------------------------------
# scenarios

def gen_mesh_case(rng, want=None):
    """a mesh (table + lon/lat) with the structure the property quantifies over"""
    for _ in range(50):
        want_ = want or rng.choice(["uniform", "uniform", "mixed", "mixed", "mixed", "small", "wide"])
        if want_ == "uniform":
            seed = rng.choice(["tetra", "cube", "octa", "icosa"])
            m = meshgen.gen_mesh(rng, max_ops=0, seeds=[seed], partial=rng.random() < 0.4)
            if rng.random() < 0.3 and seed in ("octa", "icosa", "tetra"):
                for _k in range(rng.randrange(1, 4)):
                    meshgen.stellate(m, rng)           # triangles stay triangles
                meshgen.renumber(m, rng)
        elif want_ == "small":
            m = meshgen.gen_mesh(rng, max_ops=2, partial=True)
            keep = rng.randrange(1, 3)
            m.faces = m.faces[:keep]
            meshgen.compact(m)
            m.closed = False
        else:
            m = meshgen.gen_mesh(rng, max_ops=rng.choice([2, 5, 9]))
        lon, lat = m.lonlat()
        # antimeridian / prime meridian on purpose: rotate about z so that one node has lon = +-180 or 0
        r = rng.random()
        if r < 0.25:
            k = rng.randrange(len(lon))
            target = rng.choice([180.0, -180.0, 0.0])
            d = target - lon[k]
            lon = [((x + d + 180.0) % 360.0) - 180.0 for x in lon]
            lon[k] = target
        # outside the pole snap zone unless exactly on the pole; nodes pairwise distinct
        if any(90 - abs(a) < SNAP_DEG and abs(a) != 90.0 for a in lat):
            continue
        pts = np.array([xyz_of_deg(a, b) for a, b in zip(lon, lat)])
        if len(pts) > 1:
            d2 = ((pts[:, None, :] - pts[None, :, :]) ** 2).sum(-1) + np.eye(len(pts))
            if d2.min() < (1e-6) ** 2:
                continue
        # unreferenced nodes (legal for from_topology and the UGRID reader): 1-3 extra node coordinates at
        # the start, in the middle and/or at the end of the node table; no face uses them
        orphans = []
        if rng.random() < 0.15:
            faces = [list(f) for f in m.faces]
            ok = True
            for _k in range(rng.randrange(1, 4)):
                where = rng.choice(["start", "start", "middle", "end"])
                pos = {"start": 0, "middle": len(lon) // 2, "end": len(lon)}[where]
                for _try in range(20):
                    a, b = rng.uniform(-179.0, 179.0), rng.uniform(-89.0, 89.0)
                    q = np.array(xyz_of_deg(a, b))
                    if ((pts - q) ** 2).sum(-1).min() > (1e-3) ** 2:
                        break
                else:
                    ok = False
                    break
                lon.insert(pos, a)
                lat.insert(pos, b)
                pts = np.insert(pts, pos, q, axis=0)
                faces = [[x + 1 if x >= pos else x for x in f] for f in faces]
                orphans = [o + 1 if o >= pos else o for o in orphans] + [pos]
            if not ok:
                continue
            m.faces = faces
        width = m.width()
        if want_ == "wide":
            width = rng.choice([width + 1, width + 2, 9])
            width = max(width, m.width())
        elif rng.random() < 0.1:
            width += 1
        sizes = sorted({len(f) for f in m.faces})
        return {"table": m.table(width), "lon": lon, "lat": lat, "name": m.name, "sizes": sizes,
                "padded": any(len(f) < width for f in m.faces), "kind": want_, "orphans": sorted(orphans)}
    raise RuntimeError("mesh generator did not converge")


def gen_scenario(rng, tier, idx):
    """a history: grids, materialisations, encodes; every encode in it is checked"""
    n_grids = rng.choice([1, 1, 2, 2, 3])
    pattern = rng.random()
    if pattern < 0.3:
        n_grids = max(n_grids, 2)
    grids = []
    for gi in range(n_grids):
        mc = gen_mesh_case(rng)
        src = rng.choice(SOURCES)
        if src == "xyz_only" and rng.random() < 0.5:
            src = "topo_ll"
        gd = {"mesh": mc, "source": src, "radius": rng.choice([1.0, 1.0, 2.0]),
              "file_fill": rng.choice([-1, -1, 999999, 0]), "file_start": rng.choice([0, 1]),
              "global_attrs": gen_global_attrs(rng) if src in GLOBAL_ATTR_SOURCES else {},
              "derive": rng.choice(DERIVATIONS) if src != "xyz_only" else None}
        nf = len(mc["table"])
        if gd["derive"] == "isel":
            gd["isel"] = sorted(rng.sample(range(nf), rng.randrange(1, nf + 1)))
        grids.append(gd)
    actions = []
    if pattern < 0.3:
        # shared-template pattern: a grid with many derived variables is encoded as UGRID first, then
        # another (fresh or differently equipped) grid
        for f in rng.sample(["edge_lon", "face_lon", "face_face_connectivity", "node_face_connectivity",
                             "edge_face_connectivity", "face_edge_connectivity", "edge_node_connectivity",
                             "face_areas", "bounds"], rng.randrange(1, 5)):
            actions.append(["mat", 0, f])
        actions.append(["enc", 0, "ugrid", rng.random() < 0.25])
        if rng.random() < 0.5:
            actions.append(["mat", 1, rng.choice(FEATURES)])
        actions.append(["enc", 1, "ugrid", rng.random() < 0.25])
        if rng.random() < 0.5:
            actions.append(["enc", 1, rng.choice(FORMATS), False])
        return {"grids": grids, "actions": actions}
    n_act = rng.randrange(1, 7)
    for _ in range(n_act):
        gi = rng.randrange(n_grids)
        if rng.random() < 0.55:
            actions.append(["mat", gi, rng.choice(FEATURES)])
        else:
            actions.append(["enc", gi, rng.choice(FORMATS), rng.random() < 0.25])
    actions.append(["enc", rng.randrange(n_grids), FORMATS[idx % 3], rng.random() < 0.25])
    return {"grids": grids, "actions": actions}


def fixed_scenarios():
    """the histories named in DESIGN section 8 / the property text, always run first"""
    F = FILL
    lon = [-170.0, -100.0, -30.0, 40.0, 110.0, 170.0, 10.0]
    lat = [-80.0, -50.0, -20.0, 10.0, 40.0, 70.0, -5.0]
    tri = {"table": [[0, 1, 2], [2, 3, 4]], "lon": lon, "lat": lat, "name": "two-tri", "sizes": [3],
           "padded": False, "kind": "fixed"}
    mixed = {"table": [[0, 1, 2, 3], [2, 3, 4, F], [4, 5, 6, F]], "lon": lon, "lat": lat, "name": "quad+2tri",
             "sizes": [3, 4], "padded": True, "kind": "fixed"}
    one = {"table": [[0, 1, 2]], "lon": lon[:3], "lat": lat[:3], "name": "one-tri", "sizes": [3],
           "padded": False, "kind": "fixed"}
    out = []
    for fmt in FORMATS:
        for mesh in (tri, mixed, one):
            for src in ("topo_ll", "topo_llxyz"):
                out.append({"grids": [{"mesh": mesh, "source": src, "radius": 1.0}],
                            "actions": [["enc", 0, fmt, False], ["enc", 0, fmt, True]]})
    # a bigger grid with edges/centres encoded first, then a small fresh one
    out.append({"grids": [{"mesh": mixed, "source": "topo_ll", "radius": 1.0},
                          {"mesh": tri, "source": "topo_ll", "radius": 1.0}],
                "actions": [["mat", 0, "edge_lon"], ["mat", 0, "face_lon"], ["mat", 0, "face_face_connectivity"],
                            ["enc", 0, "ugrid", False], ["enc", 1, "ugrid", False], ["enc", 1, "exodus", False],
                            ["enc", 1, "scrip", False]]})
    out.append({"grids": [{"mesh": tri, "source": "topo_ll", "radius": 1.0}],
                "actions": [["mat", 0, "edge_node_connectivity"], ["enc", 0, "ugrid", False]]})
    out.append({"grids": [{"mesh": tri, "source": "topo_ll", "radius": 1.0}],
                "actions": [["mat", 0, "bounds"], ["enc", 0, "ugrid", False], ["enc", 0, "exodus", False]]})
    out.append({"grids": [{"mesh": tri, "source": "topo_ll", "radius": 1.0}],
                "actions": [["mat", 0, "node_x"], ["enc", 0, "exodus", False]]})
    out.append({"grids": [{"mesh": mixed, "source": "xyz_only", "radius": 1.0}],
                "actions": [["enc", 0, "exodus", False], ["enc", 0, "ugrid", False]]})
    # centre coordinates supplied in ONE system only (Cartesian face/edge centres without lon/lat ones, and
    # the reverse), through Grid(ds) and from_dataset
    for src in ("cart_centres", "sph_centres"):
        for mesh in (tri, mixed):
            for ga_ in ({}, {"title": "t"}):
                out.append({"grids": [{"mesh": mesh, "source": src, "radius": 1.0, "global_attrs": ga_}],
                            "actions": [["enc", 0, "ugrid", False], ["enc", 0, "exodus", False], ["enc", 0, "scrip", False],
                                        ["enc", 0, "ugrid", True]]})
    # every public construction path, with global attributes on the source dataset
    ga = {"title": "t", "version": 3, "levels": [1, 2, 3]}
    for src in ("ctor_nospec", "ctor_none", "ctor_spec", "from_dataset_spec", "scrip_src", "face_vertices"):
        for mesh in (tri, mixed):
            out.append({"grids": [{"mesh": mesh, "source": src, "radius": 1.0, "global_attrs": ga}],
                        "actions": [["enc", 0, "ugrid", False], ["enc", 0, "exodus", False], ["enc", 0, "scrip", False],
                                    ["mat", 0, "edge_node_connectivity"], ["enc", 0, "ugrid", True]]})
    for der in ("copy", "isel", "dual"):
        for src in ("topo_ll", "ctor_nospec", "ugrid_src"):
            out.append({"grids": [{"mesh": mixed, "source": src, "radius": 1.0, "derive": der, "isel": [0, 2],
                                   "global_attrs": ga}],
                        "actions": [["enc", 0, "ugrid", False], ["enc", 0, "exodus", False], ["enc", 0, "scrip", False]]})
    out.append({"grids": [{"mesh": mixed, "source": "ctor_nospec", "radius": 1.0, "global_attrs": {"comment": None}}],
                "actions": [["enc", 0, "ugrid", False], ["enc", 0, "exodus", False]]})
    # node indices not referenced by any face: at the start (node 0; nodes 0..1), in the middle, at the end
    lon8 = [5.0, -170.0, -100.0, -30.0, 40.0, 110.0, 170.0, 10.0, -60.0]
    lat8 = [33.0, -80.0, -50.0, -20.0, 10.0, 40.0, 70.0, -5.0, 61.0]
    orphan_tables = {
        "orphan-node0": [[1, 2, 3, 4], [3, 4, 5, F], [5, 6, 7, F]],
        "orphan-nodes01": [[2, 3, 4, 5], [4, 5, 6, F], [6, 7, 8, F]],
        "orphan-middle-end": [[0, 1, 2, 3], [2, 3, 5, F], [5, 6, 7, F]],
        "orphan-node0-uniform": [[1, 2, 3], [3, 4, 5], [5, 6, 7]],
    }
    for nm, tab in orphan_tables.items():
        used = {x for r in tab for x in r if x != F}
        mesh = {"table": tab, "lon": lon8, "lat": lat8, "name": nm, "sizes": sorted({sum(1 for x in r if x != F) for r in tab}),
                "padded": any(F in r for r in tab), "kind": "orphan", "orphans": [i for i in range(9) if i not in used]}
        for src in ("topo_ll", "topo_llxyz", "file_ugrid", "file_exodus"):
            out.append({"grids": [{"mesh": mesh, "source": src, "radius": 1.0, "file_fill": -1, "file_start": 0}],
                        "actions": [["enc", 0, "ugrid", False], ["enc", 0, "exodus", False], ["enc", 0, "scrip", False],
                                    ["mat", 0, "edge_node_connectivity"], ["enc", 0, "ugrid", True]]})
    # grids opened FROM A FILE (int32 connectivity, declared _FillValue, start_index 0/1): the source
    # file's encoding must not block the export
    for mesh in (tri, mixed):
        for src in ("file_ugrid", "file_exodus", "file_scrip"):
            for k, fmt in enumerate(FORMATS):
                out.append({"grids": [{"mesh": mesh, "source": src, "radius": 1.0, "file_fill": [-1, 999999, -1][k],
                                       "file_start": [1, 0, 1][k]}],
                            "actions": [["enc", 0, fmt, False], ["mat", 0, "edge_node_connectivity"],
                                        ["enc", 0, fmt, True]]})
    # the real mesh files of the test-suite (read-only)
    for rel in MESHFILES:
        out.append({"grids": [{"mesh": {"table": [], "lon": [], "lat": [], "name": rel, "sizes": [], "padded": False,
                                        "kind": "meshfile"}, "source": "meshfile:" + rel, "radius": 1.0}],
                    "actions": [["enc", 0, "ugrid", False], ["mat", 0, "edge_node_connectivity"],
                                ["enc", 0, "ugrid", True], ["enc", 0, "exodus", False], ["enc", 0, "scrip", False]]})
    wide = {"table": [[0, 1, 2] + [F] * 6, [2, 3, 4] + [F] * 6], "lon": lon, "lat": lat, "name": "wide9",
            "sizes": [3], "padded": True, "kind": "fixed"}
    out.append({"grids": [{"mesh": wide, "source": "topo_ll", "radius": 1.0}],
                "actions": [["enc", 0, "exodus", False], ["enc", 0, "ugrid", False]]})
    return out


def systematic_scenarios(rng, tier):
    """depth-1 exhaustive over the history dimensions: every derived quantity x every format on a
    mixed and on a uniform grid; every ordered pair of equipment levels across two grids (Appendix C:
    shared templates need every ordered pair of differently parameterised calls)"""
    mixed = gen_mesh_case(rng, "mixed")
    uni = gen_mesh_case(rng, "uniform")
    out = []
    single = []
    for mesh in (mixed, uni):
        for f in FEATURES:
            for fmt in FORMATS:
                single.append({"grids": [{"mesh": mesh, "source": "topo_ll", "radius": 1.0}],
                               "actions": [["mat", 0, f], ["enc", 0, fmt, False]]})
    if tier == "quick":
        single = rng.sample(single, 30)
    out += single
    levels = {"none": [], "edges": ["edge_node_connectivity"], "centres": ["face_lon", "edge_lon"],
              "all": ["face_lon", "edge_lon", "face_face_connectivity", "node_face_connectivity", "face_areas"]}
    for a, fa in levels.items():
        for b, fb in levels.items():
            acts = [["mat", 0, f] for f in fa] + [["enc", 0, "ugrid", False]] + \
                   [["mat", 1, f] for f in fb] + [["enc", 1, "ugrid", False], ["enc", 0, "ugrid", True]]
            out.append({"grids": [{"mesh": mixed, "source": "topo_ll", "radius": 1.0},
                                  {"mesh": uni, "source": "topo_llxyz", "radius": 1.0}], "actions": acts})
    return out


# ---------------------------------------------------------------------------------------------
# running the implementation

class Impl:
    """access to the real code + the module-level state as it was at import time"""

    def __init__(self):
        import warnings
        warnings.filterwarnings("ignore")
        import uxarray as ux
        import xarray as xr
        import uxarray.conventions.ugrid as ug
        self.ux, self.xr, self.ug = ux, xr, ug
        self.base_template = dict(ug.BASE_GRID_TOPOLOGY_ATTRS)
        self.base_edge_attrs = dict(ug.EDGE_NODE_CONNECTIVITY_ATTRS)
        self.conn_names = list(ug.CONNECTIVITY_NAMES)

    def reset_globals(self):
        """module-level dicts back to their state in a fresh process"""
        ug = self.ug
        ug.BASE_GRID_TOPOLOGY_ATTRS.clear()
        ug.BASE_GRID_TOPOLOGY_ATTRS.update(self.base_template)
        ug.EDGE_NODE_CONNECTIVITY_ATTRS.clear()
        ug.EDGE_NODE_CONNECTIVITY_ATTRS.update(self.base_edge_attrs)

    def make_grid(self, gd, scratch=None, tag="g"):
        g = self.make_base_grid(gd, scratch, tag)
        der = gd.get("derive")
        if der == "copy":
            g = g.copy()
        elif der == "isel":
            idx = [i for i in gd.get("isel", [0]) if i < g.n_face] or [0]
            g = g.isel(n_face=idx)
        elif der == "dual":
            try:
                d = g.get_dual()
                # a dual without faces is not a grid (C18's domain); faces with more than 8 corners have no
                # Exodus element type (ELEMENT_TYPE_DICT; hypothesis c07_exo_elem_ok of the theorems)
                g = d if d.n_face >= 1 and int(d.n_nodes_per_face.max()) <= 8 else g.copy()
                if g is d:
                    del g._ds["n_nodes_per_face"]         # only looked at; not part of the history
            except Exception:
                g = g.copy()            # not every grid has a dual (partial grids, duplicate nodes)
        return g

    def ugrid_convention_ds(self, lon, lat, t, attrs):
        xr, ug = self.xr, self.ug
        ds = xr.Dataset(attrs=dict(attrs))
        ds["node_lon"] = xr.DataArray(lon, dims=["n_node"], attrs=dict(ug.NODE_LON_ATTRS))
        ds["node_lat"] = xr.DataArray(lat, dims=["n_node"], attrs=dict(ug.NODE_LAT_ATTRS))
        ds["face_node_connectivity"] = xr.DataArray(t, dims=["n_face", "n_max_face_nodes"],
                                                    attrs=dict(ug.FACE_NODE_CONNECTIVITY_ATTRS))
        return ds

    def make_base_grid(self, gd, scratch=None, tag="g"):
        ux, xr, ug = self.ux, self.xr, self.ug
        if gd["source"].startswith("meshfile:"):
            return ux.open_grid(os.path.join(common.REPO, "test", "meshfiles", gd["source"][9:]))
        m = gd["mesh"]
        lon = np.array(m["lon"], dtype=float)
        lat = np.array(m["lat"], dtype=float)
        t = np.array(m["table"], dtype=np.intp)
        pts = np.array([xyz_of_deg(a, b) for a, b in zip(m["lon"], m["lat"])]) * gd.get("radius", 1.0)
        src = gd["source"]
        gattrs = dict(gd.get("global_attrs") or {})
        if src == "face_vertices" and bool((t == FILL).any()):
            src = "topo_ll"                       # from_face_vertices takes a rectangular vertex array
        if src in ("cart_centres", "sph_centres"):
            ds = self.ugrid_convention_ds(lon, lat, t, gattrs)
            rows = [[int(x) for x in r if x != FILL] for r in t.tolist()]
            es = sorted({(min(a, b), max(a, b)) for r in rows for a, b in zip(r, r[1:] + r[:1])})
            fc = np.array([unit(pts[r].sum(axis=0) / gd.get("radius", 1.0)) for r in rows])
            ec = np.array([unit((pts[a] + pts[b]) / gd.get("radius", 1.0)) for a, b in es])
            ds["edge_node_connectivity"] = xr.DataArray(np.array(es, dtype=np.intp), dims=["n_edge", "two"],
                                                        attrs={"cf_role": "edge_node_connectivity", "start_index": 0})
            if src == "cart_centres":
                for k, ax in enumerate("xyz"):
                    ds["face_" + ax] = xr.DataArray(fc[:, k].copy(), dims=["n_face"])
                    ds["edge_" + ax] = xr.DataArray(ec[:, k].copy(), dims=["n_edge"])
            else:
                ds["face_lon"] = xr.DataArray(np.degrees(np.arctan2(fc[:, 1], fc[:, 0])), dims=["n_face"])
                ds["face_lat"] = xr.DataArray(np.degrees(np.arcsin(np.clip(fc[:, 2], -1, 1))), dims=["n_face"])
                ds["edge_lon"] = xr.DataArray(np.degrees(np.arctan2(ec[:, 1], ec[:, 0])), dims=["n_edge"])
                ds["edge_lat"] = xr.DataArray(np.degrees(np.arcsin(np.clip(ec[:, 2], -1, 1))), dims=["n_edge"])
            if len(gattrs) % 2:
                return ux.Grid.from_dataset(ds, source_grid_spec="custom")
            return ux.Grid(ds)
        if src == "ctor_nospec":
            return ux.Grid(self.ugrid_convention_ds(lon, lat, t, gattrs))
        if src == "ctor_none":
            return ux.Grid(self.ugrid_convention_ds(lon, lat, t, gattrs), source_grid_spec=None)
        if src == "ctor_spec":
            return ux.Grid(self.ugrid_convention_ds(lon, lat, t, gattrs), source_grid_spec="Hand Made")
        if src == "from_dataset_spec":
            return ux.Grid.from_dataset(self.ugrid_convention_ds(lon, lat, t, gattrs),
                                        source_grid_spec=None if len(gattrs) % 2 else "custom")
        if src == "face_vertices":
            return ux.Grid.from_face_vertices(np.stack([lon[t], lat[t]], axis=-1), latlon=True)
        if src == "scrip_src":
            n_per = (t != FILL).sum(axis=1)
            tt = np.where(t == FILL, t[np.arange(t.shape[0]), n_per - 1][:, None], t)
            ctr = pts[tt].mean(axis=1)
            ctr /= np.linalg.norm(ctr, axis=1)[:, None]
            ds = xr.Dataset(attrs=gattrs)
            ds["grid_corner_lon"] = xr.DataArray(lon[tt], dims=["grid_size", "grid_corners"])
            ds["grid_corner_lat"] = xr.DataArray(lat[tt], dims=["grid_size", "grid_corners"])
            ds["grid_center_lon"] = xr.DataArray(np.degrees(np.arctan2(ctr[:, 1], ctr[:, 0])) % 360.0, dims=["grid_size"])
            ds["grid_center_lat"] = xr.DataArray(np.degrees(np.arcsin(ctr[:, 2])), dims=["grid_size"])
            ds["grid_area"] = xr.DataArray(np.full(t.shape[0], 0.01), dims=["grid_size"])
            ds["grid_imask"] = xr.DataArray(np.ones(t.shape[0], dtype=np.int32), dims=["grid_size"])
            return ux.open_grid(ds)
        if src == "topo_ll":
            return ux.Grid.from_topology(lon, lat, t, fill_value=FILL)
        if src == "topo_llxyz":
            return ux.Grid.from_topology(lon, lat, t, fill_value=FILL, node_x=pts[:, 0].copy(),
                                         node_y=pts[:, 1].copy(), node_z=pts[:, 2].copy())
        if src == "topo_edges":
            es = sorted({(min(a, b), max(a, b)) for r in m["table"] for a, b in
                         zip([x for x in r if x != FILL], [x for x in r if x != FILL][1:] + [x for x in r if x != FILL][:1])})
            return ux.Grid.from_topology(lon, lat, t, fill_value=FILL,
                                         edge_node_connectivity=np.array(es, dtype=np.intp))
        if src == "exodus_src":
            exo = xr.Dataset(attrs=gattrs)
            exo["coord"] = xr.DataArray(pts.T.copy(), dims=["num_dim", "num_nodes"])
            exo["connect1"] = xr.DataArray(np.where(t == FILL, 0, t + 1), dims=["num_el_in_blk1", "num_nod_per_el1"])
            return ux.open_grid(exo)
        if src == "ugrid_src":
            ds = xr.Dataset(attrs=gattrs)
            ds["node_lon"] = xr.DataArray(lon, dims=["n_node"], attrs=dict(ug.NODE_LON_ATTRS))
            ds["node_lat"] = xr.DataArray(lat, dims=["n_node"], attrs=dict(ug.NODE_LAT_ATTRS))
            ds["face_node_connectivity"] = xr.DataArray(t, dims=["n_face", "n_max_face_nodes"],
                                                        attrs=dict(ug.FACE_NODE_CONNECTIVITY_ATTRS))
            ds["grid_topology"] = xr.DataArray(-1, attrs=dict(self.base_template))
            return ux.open_grid(ds)
        if src in ("file_ugrid", "file_exodus", "file_scrip"):
            return self.make_file_grid(gd, lon, lat, t, pts, scratch, tag)
        if src == "xyz_only":
            ds = xr.Dataset(attrs=gattrs)
            for k, nm in enumerate(["node_x", "node_y", "node_z"]):
                ds[nm] = xr.DataArray(pts[:, k].copy(), dims=["n_node"])
            ds["face_node_connectivity"] = xr.DataArray(t, dims=["n_face", "n_max_face_nodes"],
                                                        attrs=dict(ug.FACE_NODE_CONNECTIVITY_ATTRS))
            return ux.Grid.from_dataset(ds, source_grid_spec="Cartesian")
        raise ValueError(src)

    def make_file_grid(self, gd, lon, lat, t, pts, scratch, tag):
        """write a NetCDF file in the source format (int32 connectivity, declared _FillValue, start_index
        0 or 1) under the scratch directory and open it with ux.open_grid(path)"""
        ux, xr = self.ux, self.xr
        src = gd["source"]
        padded = bool((t == FILL).any())
        path = os.path.join(scratch, "src_%s.nc" % tag)
        if os.path.exists(path):
            os.remove(path)
        fv = int(gd.get("file_fill", -1))
        st = int(gd.get("file_start", 1))
        if fv == 0 and st == 0:
            fv = -1                              # 0 would be a valid zero-based index
        ds = xr.Dataset(attrs={k: v for k, v in (gd.get("global_attrs") or {}).items() if v is not None})
        if src == "file_ugrid":
            conn = np.where(t == FILL, fv, t + st).astype(np.int32)
            ds["Mesh2"] = xr.DataArray(np.int32(0), attrs={
                "cf_role": "mesh_topology", "topology_dimension": np.int32(2),
                "node_coordinates": "Mesh2_node_x Mesh2_node_y", "face_node_connectivity": "Mesh2_face_nodes",
                "face_dimension": "nMesh2_face"})
            ds["Mesh2_node_x"] = xr.DataArray(lon, dims=["nMesh2_node"], attrs={"standard_name": "longitude", "units": "degrees_east"})
            ds["Mesh2_node_y"] = xr.DataArray(lat, dims=["nMesh2_node"], attrs={"standard_name": "latitude", "units": "degrees_north"})
            ds["Mesh2_face_nodes"] = xr.DataArray(conn, dims=["nMesh2_face", "nMaxMesh2_face_nodes"],
                                                  attrs={"cf_role": "face_node_connectivity", "start_index": np.int32(st),
                                                         "_FillValue": np.int32(fv)})
        elif src == "file_exodus":
            ds["coord"] = xr.DataArray(pts.T.copy(), dims=["num_dim", "num_nodes"])
            rows = [[int(x) for x in r if x != FILL] for r in t.tolist()]
            for b, k in enumerate(sorted({len(r) for r in rows}), start=1):
                blk = np.array([r for r in rows if len(r) == k], dtype=np.int32) + 1
                ds["connect%d" % b] = xr.DataArray(blk, dims=["num_el_in_blk%d" % b, "num_nod_per_el%d" % b],
                                                   attrs={"elem_type": "SHELL%d" % k})
        else:
            # SCRIP has a fixed number of corners per cell: shorter faces repeat their last corner
            n_per = (t != FILL).sum(axis=1)
            last = t[np.arange(t.shape[0]), n_per - 1]
            t = np.where(t == FILL, last[:, None], t)
            clon, clat = lon[t], lat[t]
            ctr = pts[t].mean(axis=1)
            ctr /= np.linalg.norm(ctr, axis=1)[:, None]
            ds["grid_corner_lon"] = xr.DataArray(clon, dims=["grid_size", "grid_corners"], attrs={"units": "degrees"})
            ds["grid_corner_lat"] = xr.DataArray(clat, dims=["grid_size", "grid_corners"], attrs={"units": "degrees"})
            ds["grid_center_lon"] = xr.DataArray(np.degrees(np.arctan2(ctr[:, 1], ctr[:, 0])) % 360.0, dims=["grid_size"])
            ds["grid_center_lat"] = xr.DataArray(np.degrees(np.arcsin(ctr[:, 2])), dims=["grid_size"])
            ds["grid_area"] = xr.DataArray(np.full(t.shape[0], 0.01), dims=["grid_size"])
            ds["grid_imask"] = xr.DataArray(np.ones(t.shape[0], dtype=np.int32), dims=["grid_size"])
            ds["grid_dims"] = xr.DataArray(np.array([t.shape[0]], dtype=np.int32), dims=["grid_rank"])
        ds.to_netcdf(path)
        ds.close()
        return ux.open_grid(path)

    def materialise(self, g, feat):
        try:
            if feat == "ball_tree":
                g.get_ball_tree()
            elif feat == "kd_tree":
                g.get_kd_tree()
            elif feat == "normalize":
                g.normalize_cartesian_coordinates()
            else:
                getattr(g, feat)
            return None
        except Exception as e:          # C08's business; here it only shapes the history
            return type(e).__name__


def attr_kind(v):
    """(kind, payload) of an attribute value as the model sees it"""
    if isinstance(v, str):
        return ("s", v.split())
    if isinstance(v, (bool, np.bool_)):
        return ("b", None)
    if isinstance(v, (int, np.integer)):
        return ("n", int(v))
    if isinstance(v, (float, np.floating)):
        return ("n", 0)
    if isinstance(v, np.ndarray):
        if v.dtype == bool:
            return ("b", None)
        if v.dtype.kind in "iuf":
            return ("a", None)
        return ("o", None)
    if isinstance(v, (list, tuple)) and all(isinstance(x, (int, float, np.integer, np.floating)) and
                                            not isinstance(x, (bool, np.bool_)) for x in v):
        return ("a", None)
    return ("o", None)


def bad_attrs(ds):
    out = []
    for vn in ds.variables:
        for k, v in ds[vn].attrs.items():
            if attr_kind(v)[0] in ("b", "o"):
                out.append(str(k))
    for k, v in ds.attrs.items():
        if attr_kind(v)[0] in ("b", "o"):
            out.append(str(k))
    return sorted(set(out))


class Tokens:
    """order-preserving integer tokens for the floats of one scenario"""

    def __init__(self):
        self.vals = set()

    def add(self, arr):
        for x in np.asarray(arr, dtype=float).ravel().tolist():
            self.vals.add(x + 0.0)

    def freeze(self):
        self.sorted = sorted(self.vals)
        self.rank = {v: i for i, v in enumerate(self.sorted)}

    def val(self, toks):
        return [self.sorted[t] if isinstance(t, int) and 0 <= t < len(self.sorted) else float("nan") for t in toks]

    def tok(self, arr):
        return [self.rank.get(x + 0.0, -7) for x in np.asarray(arr, dtype=float).ravel().tolist()]


FLOAT_VARS = ("node_lon", "node_lat", "node_x", "node_y", "node_z")


def snapshot(ds):
    """what the model needs of a dataset: names, dims, attribute kinds, the arrays it reads"""
    vs = []
    for vn in ds.variables:
        v = ds.variables[vn]
        attrs = [(str(k), attr_kind(a)) for k, a in v.attrs.items()]
        data = None
        if vn == "face_node_connectivity" and v.dtype.kind in "iu":
            data = ("i", np.asarray(v.values).astype(object).tolist())
        elif vn in FLOAT_VARS and v.ndim == 1:
            data = ("f", np.asarray(v.values, dtype=float).copy())
        vs.append({"name": str(vn), "dims": [str(d) for d in v.dims], "attrs": attrs, "data": data})
    if ds.attrs:
        # the dataset's global attributes travel with the deep copy the UGRID exporter works on: the model
        # carries them as the attributes of one more (data-less) entry
        vs.append({"name": "@global", "dims": [], "attrs": [(str(k), attr_kind(a)) for k, a in ds.attrs.items()],
                   "data": None})
    return vs


def sx_dict(attrs):
    out = []
    for k, (kind, p) in attrs:
        if kind == "s":
            out.append([code(k), "s", [code(w) for w in p]])
        elif kind == "n":
            out.append([code(k), "n", p])
        else:
            out.append([code(k), kind])
    return out


def sx_snapshot(snap, toks):
    vs = []
    for v in snap:
        d = v["data"]
        if d is None:
            data = ["x"]
        elif d[0] == "i":
            data = ["i", [[int(x) for x in r] for r in d[1]]]
        else:
            data = ["f", toks.tok(d[1])]
        vs.append([code(v["name"]), [code(x) for x in v["dims"]], sx_dict(v["attrs"]), data])
    return vs


def py_closed(ds):
    """the self-consistency clause evaluated on an encoded UGRID dataset"""
    topo = [n for n in ds.variables if ds[n].attrs.get("cf_role") == "mesh_topology"]
    if not topo:
        return False, ["no mesh_topology variable"]
    at = ds[topo[0]].attrs
    missing = []
    for k, v in at.items():
        if not isinstance(v, str):
            continue
        if k.endswith("_dimension"):
            missing += [k + ":" + w for w in v.split() if w not in ds.dims]
        elif k.endswith("_coordinates") or k.endswith("_connectivity"):
            missing += [k + ":" + w for w in v.split() if w not in ds.variables]
    return not missing, missing


def signature(ds):
    if "coord" in ds or "coordx" in ds:
        return "exodus"
    if "grid_center_lon" in ds:
        return "scrip"
    if any(ds[n].attrs.get("cf_role") == "mesh_topology" for n in ds.variables):
        return "ugrid"
    return "unknown"


def truth_from_grid(g):
    """for grids opened from a file the reference is the grid itself (C01 owns the reading)"""
    t = np.asarray(g.face_node_connectivity.values)
    faces = [[int(x) for x in r if x != FILL] for r in t.tolist()]
    pts = np.array([xyz_of_deg(a, b) for a, b in zip(np.asarray(g.node_lon.values, dtype=float).tolist(),
                                                      np.asarray(g.node_lat.values, dtype=float).tolist())])
    return faces, pts, pts


def truth_of(gd):
    m = gd["mesh"]
    faces = [[x for x in r if x != FILL] for r in m["table"]]
    pts = np.array([xyz_of_deg(a, b) for a, b in zip(m["lon"], m["lat"])])
    alt = np.array([unit((math.cos(a) * math.cos(b), math.sin(a) * math.cos(b), math.sin(b)))
                    for a, b in zip(m["lon"], m["lat"])])     # degrees read as radians
    return faces, pts, alt


def compare_faces(fmt, faces, pts, alt, g2):
    """the round-trip clause on a reopened grid; returns (None | what, info)"""
    lon2 = np.asarray(g2.node_lon.values, dtype=float)
    lat2 = np.asarray(g2.node_lat.values, dtype=float)
    t2 = np.asarray(g2.face_node_connectivity.values)
    used = sorted({int(x) for x in t2.ravel().tolist() if x != FILL})
    if any(x < 0 or x >= len(lon2) for x in used):
        return "index_out_of_range", {}
    p2 = np.array([xyz_of_deg(a, b) for a, b in zip(lon2.tolist(), lat2.tolist())]).reshape(-1, 3)
    info = {}

    tol_chord = 2.0 * math.sin(TOL_RAD / 2.0)

    def matcher(ref):
        from scipy.spatial import cKDTree
        tree = cKDTree(ref)

        def canon_of(p):
            hits = tree.query_ball_point(p, tol_chord * (1 + 1e-9))
            return min(hits) if hits else None       # coinciding nodes: the smallest index of the class
        return canon_of

    def match(ref):
        f = matcher(ref)
        mp = {}
        for i in used:
            j = f(p2[i])
            if j is None:
                return None
            mp[i] = j
        return mp
    mp = match(pts)
    if mp is None:
        mp = match(alt)
        if mp is None:
            return "positions", info
        info["wrong_unit_signature"] = True
        what = "positions"
    else:
        what = None
    fcanon = matcher(pts)
    ccache = {}

    def canon_id(j):
        if j not in ccache:
            ccache[j] = fcanon(pts[j])
        return ccache[j]
    faces = [[canon_id(j) for j in f] for f in faces]
    got = [[mp[int(x)] for x in r if x != FILL] for r in t2.tolist()]
    a = [min_rotation(f) for f in got]
    b = [min_rotation(f) for f in faces]
    if fmt == "exodus":
        a, b = sorted(a), sorted(b)
    if a != b:
        if len(a) != len(b):
            info["faces"] = "count %d != %d" % (len(a), len(b))
        elif sorted(a) == sorted(b):
            info["faces"] = "face order"
        elif sorted(map(sorted, a)) == sorted(map(sorted, b)):
            info["faces"] = "cyclic order"
        else:
            info["faces"] = "corners"
        return (what + "+faces") if what else "faces", info
    return what, info


def run_scenario(impl, sc, scratch, tag):
    """run one history on the real code; returns per-encode observations + model steps"""
    ux = impl.ux
    impl.reset_globals()
    grids = [None] * len(sc["grids"])
    errs = []
    truths = [None] * len(sc["grids"])
    for gi, gd in enumerate(sc["grids"]):
        try:
            grids[gi] = impl.make_grid(gd, scratch, "%s_%d" % (tag, gi))
            if gd["source"] in FROM_GRID_TRUTH or gd["source"].startswith("meshfile:") or gd.get("derive"):
                truths[gi] = truth_from_grid(grids[gi])
            else:
                truths[gi] = truth_of(gd)
        except Exception as e:
            errs.append("make_grid %d %s: %r" % (gi, gd["source"], e))
    obs = []
    mats = []
    for ai, act in enumerate(sc["actions"]):
        g = grids[act[1]]
        if g is None:
            continue
        if act[0] == "mat":
            r = impl.materialise(g, act[2])
            mats.append((act[2], r))
            continue
        _, gi, fmt, use_encode_as = act
        gd = sc["grids"][gi]
        o = {"action": ai, "grid": gi, "fmt": fmt, "encode_as": bool(use_encode_as), "source": gd["source"]}
        ds_before = g._ds
        o["snap"] = snapshot(ds_before)
        o["tmpl_before"] = {k: v for k, v in impl.ug.BASE_GRID_TOPOLOGY_ATTRS.items()}
        names = set(ds_before.variables)
        dims = set(ds_before.dims)
        stale = []
        for k in o["tmpl_before"]:
            if k in impl.base_template:
                continue
            feat = {"edge_dimension": "n_edge" in dims, "face_coordinates": "face_lon" in names,
                    "edge_coordinates": "edge_lon" in names}.get(k, k in names)
            if not feat:
                stale.append(k)
        o["stale_keys"] = sorted(stale)
        o["has_node_lon"] = "node_lon" in names
        o["has_node_x"] = "node_x" in names
        o["bad_attrs_before"] = bad_attrs(ds_before)
        t = np.asarray(ds_before["face_node_connectivity"].values)
        o["has_padding"] = bool((t == FILL).any())
        o["n_max"] = int(t.shape[1])
        # ---- encode
        try:
            out = g.encode_as(ENCODE_AS[fmt]) if use_encode_as else g.to_xarray(fmt)
            o["encode_exc"] = None
        except Exception as e:
            out = None
            o["encode_exc"] = type(e).__name__
            o["encode_msg"] = str(e)[:200]
        o["tmpl_after"] = {k: v for k, v in impl.ug.BASE_GRID_TOPOLOGY_ATTRS.items()}
        if "node_lon" not in names and "node_lon" in g._ds.variables and "node_lat" in g._ds.variables:
            # the dispatch derived node_lon/node_lat from xyz before the encoder ran (it does so for SCRIP:
            # self.node_lon is an argument): the dataset the encoder saw is the grid's dataset after that
            # step, without the topology variable the encoder itself may have stored in it
            o["snap"] = [v for v in snapshot(g._ds) if v["name"] != "grid_topology" or "grid_topology" in names]
            o["lonlat_derived_by_dispatch"] = True
        if fmt == "scrip":
            try:
                o["areas_ok"] = bool(np.all(np.asarray(g.face_areas.values) != 0))
            except Exception:
                o["areas_ok"] = True
        else:
            o["areas_ok"] = True
        if out is None:
            obs.append(o)
            continue
        o["same_object"] = out is ds_before
        o["signature"] = signature(out)
        o["out_names"] = sorted(str(n) for n in out.variables)
        if fmt == "ugrid":
            tv = [n for n in out.variables if out[n].attrs.get("cf_role") == "mesh_topology"]
            o["topo"] = dict(out[tv[0]].attrs) if tv else None
            o["closed"], o["missing"] = py_closed(out)
        elif fmt == "exodus":
            o["coord"] = np.asarray(out["coord"].values, dtype=float) if "coord" in out else None
            blocks = []
            b = 1
            while "connect%d" % b in out:
                c = out["connect%d" % b]
                gid = out["global_id%d" % b].values if "global_id%d" % b in out else [None]
                blocks.append([np.asarray(c.values).astype(object).tolist(), int(c.shape[1]),
                               int(gid[0]) if len(gid) else None])
                b += 1
            o["blocks"] = blocks
        else:
            o["corner_lon"] = np.asarray(out["grid_corner_lon"].values, dtype=float)
            o["corner_lat"] = np.asarray(out["grid_corner_lat"].values, dtype=float)
        o["bad_attrs_out"] = bad_attrs(out)
        # ---- reopen directly
        faces, pts, alt = truths[gi]
        try:
            g2 = ux.open_grid(out)
            o["direct_exc"] = None
            o["direct"] = decoded_of(g2)
            o["direct_faces"] = compare_faces(fmt, faces, pts, alt, g2)
        except Exception as e:
            o["direct_exc"] = type(e).__name__ + ": " + str(e)[:160]
        # ---- write to netCDF, reopen the file
        path = os.path.join(scratch, "%s_%d.nc" % (tag, ai))
        try:
            if os.path.exists(path):
                os.remove(path)
            out.to_netcdf(path)
            o["write_exc"] = None
        except Exception as e:
            o["write_exc"] = type(e).__name__ + ": " + str(e)[:160]
        if o["write_exc"] is None:
            try:
                g3 = ux.open_grid(path)
                o["file_exc"] = None
                o["file"] = decoded_of(g3)
                o["file_faces"] = compare_faces(fmt, faces, pts, alt, g3)
                del g3
            except Exception as e:
                o["file_exc"] = type(e).__name__ + ": " + str(e)[:160]
        try:
            os.remove(path)
        except OSError:
            pass
        obs.append(o)
    for gi in range(len(sc["grids"])):
        try:
            os.remove(os.path.join(scratch, "src_%s_%d.nc" % (tag, gi)))
        except OSError:
            pass
    return {"obs": obs, "mats": mats, "errs": errs}


def decoded_of(g):
    return {"fnc": np.asarray(g.face_node_connectivity.values).astype(object).tolist(),
            "lon": np.asarray(g.node_lon.values, dtype=float).copy(),
            "lat": np.asarray(g.node_lat.values, dtype=float).copy()}


# ---------------------------------------------------------------------------------------------
# the property's clauses on the implementation's observations

def spec_check(ck, sc, o, label):
    """report every clause of C07 that fails for one encode; info is specific enough for the
    known-findings predicates"""
    fmt = o["fmt"]
    cause = None
    if fmt == "ugrid":
        if not o["has_node_lon"]:
            cause = "no_node_lon"
        elif o["stale_keys"]:
            cause = "stale_template"
    base = {"fmt": fmt, "source": o["source"], "encode_as": o["encode_as"]}
    case = {"scenario": sc, "action": o["action"], "label": label}
    n_fail = 0
    if o["encode_exc"] is not None:
        info = dict(base, exc=o["encode_exc"], has_padding=o["has_padding"], n_max_gt_8=o["n_max"] > 8)
        ck.fail("encode_raises", case, info, detail=o.get("encode_msg", ""))
        return 1
    if o["signature"] != fmt:
        ck.fail("format", case, dict(base, got=o["signature"]))
        n_fail += 1
    if fmt == "ugrid" and not o["closed"]:
        ck.fail("ugrid_closed", case, dict(base, cause=cause), detail=json.dumps(o["missing"]))
        n_fail += 1
    supplied_none = sorted(k for k, v in (sc["grids"][o["grid"]].get("global_attrs") or {}).items() if v is None)
    if o["write_exc"] is not None and o["bad_attrs_out"] and o["bad_attrs_out"] == [k for k in supplied_none
                                                                                   if k in o["bad_attrs_out"]]:
        # the only unstorable attributes are None-valued GLOBAL attributes of the user's own source dataset,
        # which the UGRID export carries over verbatim: the source itself could not be written either.
        # Recorded (and reported to the integrator), not counted as a violation of the property.
        o["unwritable_source_global_none"] = True
    elif o["write_exc"] is not None:
        bad = o["bad_attrs_out"]
        ck.fail("writable", case, dict(base, bad_attrs=",".join(bad) if bad else None), detail=o["write_exc"])
        n_fail += 1
    for route in ("direct", "file"):
        if route == "file" and o["write_exc"] is not None:
            continue
        exc = o.get(route + "_exc")
        if exc is not None:
            ck.fail("reopen_raises", case, dict(base, cause=cause, route=route), detail=exc)
            n_fail += 1
            continue
        what, finfo = o[route + "_faces"]
        if what is not None:
            info = dict(base, route=route, what=what,
                        coord_source=("xyz" if o["has_node_x"] else "lonlat") if fmt == "exodus" else None,
                        wrong_unit_signature=bool(finfo.get("wrong_unit_signature")))
            ck.fail("faces", case, info, detail=json.dumps(finfo))
            n_fail += 1
    return n_fail


# ---------------------------------------------------------------------------------------------
# model side

VARIANTS = {"faithful": [1, FILL, 1, 1, 1, 1, 1], "repaired": [1, FILL, 1, 1, 1, 1, 1]}


def all_variants():
    out = [("faithful", VARIANTS["faithful"]), ("repaired", VARIANTS["repaired"])]
    for c in (1, 0):
        for p in (0, 1):
            for h in (0, 1):
                for f, a in ((-1, 0), (FILL, 1)):
                    for d in (1, 0):
                        for r in (0, 1):
                            v = [c, f, a, d, r, h, p]
                            if v not in (VARIANTS["faithful"], VARIANTS["repaired"]):
                                out.append(("copy=%d fill=%s acc=%d deg2rad=%d readall=%d striphelpers=%d scrippad=%d"
                                            % (c, "F" if f == FILL else f, a, d, r, h, p), v))
    return out


def model_line(res, variant):
    toks = Tokens()
    for o in res["obs"]:
        for v in o["snap"]:
            if v["data"] is not None and v["data"][0] == "f":
                toks.add(v["data"][1])
    toks.freeze()
    steps = []
    for o in res["obs"]:
        fmtname = ENCODE_AS[o["fmt"]] if o["encode_as"] else o["fmt"]
        steps.append([1 if o["encode_as"] else 0, code(fmtname), sx_snapshot(o["snap"], toks),
                      1 if o["areas_ok"] else 0])
    res["toks"] = toks
    return sx([variant, "N", steps])


def norm_attr(v):
    if isinstance(v, str):
        return " ".join(v.split())
    if isinstance(v, (int, np.integer)) and not isinstance(v, (bool, np.bool_)):
        return int(v)
    return repr(type(v).__name__)


def model_dict(d):
    out = {}
    for e in d:
        k = uncode(e[0])
        if e[1] == "s":
            out[k] = " ".join(uncode(w) for w in e[2])
        elif e[1] == "n":
            out[k] = e[2]
        else:
            out[k] = "<" + str(e[1]) + ">"
    return out


def model_decoded(md):
    return None if md is None else {"fnc": md[0], "lon": md[1], "lat": md[2]}


def compare_decoded(toks, impl_dec, mdec, with_coords):
    if (impl_dec is None) != (mdec is None):
        return "decode: impl %s, model %s" % ("ok" if impl_dec else "raises", "ok" if mdec else "raises")
    if impl_dec is None:
        return None
    if [[int(x) for x in r] for r in impl_dec["fnc"]] != mdec["fnc"]:
        return "decoded connectivity differs: impl %s model %s" % (str(impl_dec["fnc"])[:200], str(mdec["fnc"])[:200])
    if with_coords:
        # the Grid constructor wraps longitudes into [-180, 180] when any exceeds 180: compare modulo 360
        a = np.asarray(impl_dec["lon"], dtype=float)
        b = np.asarray(toks.val(mdec["lon"]), dtype=float)
        c = np.asarray(impl_dec["lat"], dtype=float)
        d = np.asarray(toks.val(mdec["lat"]), dtype=float)
        if a.shape != b.shape or c.shape != d.shape or \
                not np.all(np.abs((a - b + 180.0) % 360.0 - 180.0) <= 1e-9) or not np.all(np.abs(c - d) <= 1e-9):
            return "decoded node coordinates differ"
    return None


def eval_coord(tag, o, snap_by_name):
    """numerical value of the model's symbolic description of the Exodus 'coord' array"""
    if tag == "X":
        return np.array([snap_by_name[n] for n in ("node_x", "node_y", "node_z")])
    if isinstance(tag, list) and tag[0] == "L":
        lon = np.asarray(snap_by_name["node_lon"], dtype=float)
        lat = np.asarray(snap_by_name["node_lat"], dtype=float)
        if tag[1] == 1:
            lon, lat = np.deg2rad(lon), np.deg2rad(lat)
        return np.array([np.cos(lon) * np.cos(lat), np.sin(lon) * np.cos(lat), np.sin(lat)])
    return None


def compare_with_model(res, mres):
    """canonicalised implementation output vs model output for one scenario; list of differences"""
    diffs = []
    toks = res["toks"]
    tmpl_after, results = mres
    if len(results) != len(res["obs"]):
        return ["model returned %d results for %d encodes" % (len(results), len(res["obs"]))]
    for o, r in zip(res["obs"], results):
        fmtc, ug_, closed, writable, exo, scr, direct, filed = r
        where = "action %d (%s)" % (o["action"], o["fmt"])
        if fmtc != {"ugrid": "U", "exodus": "E", "scrip": "S"}[o["fmt"]]:
            diffs.append(where + ": dispatch %s" % fmtc)
            continue
        m_encoded = {"U": ug_, "E": exo, "S": scr}[fmtc] is not None
        if m_encoded != (o["encode_exc"] is None):
            diffs.append(where + ": encode impl %s, model %s" % (o["encode_exc"] or "ok", "ok" if m_encoded else "raises"))
            continue
        if o["encode_exc"] is not None:
            continue
        if o["fmt"] == "ugrid":
            mt, names, same, topo = ug_
            if model_dict(mt) != {k: norm_attr(v) for k, v in o["tmpl_after"].items()}:
                diffs.append(where + ": template after call: impl %s model %s" % (o["tmpl_after"], model_dict(mt)))
            if sorted(uncode(n) for n in names if uncode(n) != "@global") != o["out_names"]:
                diffs.append(where + ": variables of the encoded dataset differ")
            # whether the returned dataset is Grid._ds itself (C19's business) is recorded, not compared
            if o["topo"] is None or model_dict(topo) != {k: norm_attr(v) for k, v in o["topo"].items()}:
                diffs.append(where + ": grid_topology attrs: impl %s model %s" % (o["topo"], model_dict(topo)))
            if bool(closed) != o["closed"]:
                diffs.append(where + ": closed impl %s model %s" % (o["closed"], bool(closed)))
        if bool(writable) != (o["write_exc"] is None):
            diffs.append(where + ": writable impl %s model %s" % (o["write_exc"], bool(writable)))
        snap_by_name = {v["name"]: v["data"][1] for v in o["snap"] if v["data"] is not None and v["data"][0] == "f"}
        if o["fmt"] == "exodus":
            blocks, ctag = exo
            if [[b[0], b[1], b[2]] for b in blocks] != [[[[int(x) for x in row] for row in b[0]], b[1], b[2]] for b in o["blocks"]]:
                diffs.append(where + ": connect blocks differ: impl %s model %s" % (str(o["blocks"])[:300], str(blocks)[:300]))
            want = eval_coord(ctag, o, snap_by_name)
            if want is None or o["coord"] is None or want.shape != o["coord"].shape or \
                    not np.allclose(want, o["coord"], rtol=0, atol=1e-12):
                diffs.append(where + ": coord array does not follow the model's dataflow %s" % (ctag,))
        if o["fmt"] == "scrip":
            lon_t = [toks.tok(r) for r in o["corner_lon"]]
            lat_t = [toks.tok(r) for r in o["corner_lat"]]
            mine = [[[a, b] for a, b in zip(rl, rt)] for rl, rt in zip(lon_t, lat_t)]
            if mine != scr:
                diffs.append(where + ": grid_corner arrays differ")
        with_coords = o["fmt"] != "exodus"
        d = compare_decoded(toks, o.get("direct") if o.get("direct_exc") is None else None, model_decoded(direct), with_coords)
        if d:
            diffs.append(where + ": direct " + d)
        if o["write_exc"] is None:
            d = compare_decoded(toks, o.get("file") if o.get("file_exc") is None else None, model_decoded(filed), with_coords)
            if d:
                diffs.append(where + ": file " + d)
    last = res["obs"][-1] if res["obs"] else None
    if last is not None and model_dict(tmpl_after) != {k: norm_attr(v) for k, v in last["tmpl_after"].items()}:
        diffs.append("template after the history differs")
    return diffs


# ---------------------------------------------------------------------------------------------
# fresh-process reference for the module-level state

SUB_CODE = r"""
import sys, json
sys.path.insert(0, %(harness)r)
import c07, common
impl = c07.Impl()
sc = json.load(open(sys.argv[1]))
res = c07.run_scenario(impl, sc, sys.argv[2], sys.argv[3])
print("RESULT " + json.dumps({"digest": c07.digest_obs(res), "errs": res["errs"]}))
"""


def digest_obs(res):
    out = []
    for o in res["obs"]:
        out.append([o["fmt"], o["encode_exc"], o.get("closed"), o.get("write_exc") is None,
                    {k: norm_attr(v) for k, v in (o.get("topo") or {}).items()},
                    o.get("direct_exc") is None, (o.get("direct_faces") or [None])[0],
                    o.get("file_exc") is None, (o.get("file_faces") or [None])[0],
                    {k: norm_attr(v) for k, v in o["tmpl_after"].items()}])
    return json.loads(json.dumps(out))


def start_subprocess(sc, scratch, k):
    p = os.path.join(scratch, "sub_%d.json" % k)
    json.dump(sc, open(p, "w"))
    codep = os.path.join(scratch, "sub_%d.py" % k)
    open(codep, "w").write(SUB_CODE % {"harness": os.path.dirname(os.path.abspath(__file__))})
    return subprocess.Popen([sys.executable, "-W", "ignore", codep, p, scratch, "sub%d" % k], stdout=subprocess.PIPE,
                            stderr=subprocess.PIPE, text=True, env=common.impl_env())


# ---------------------------------------------------------------------------------------------

def check_constants(ck, impl):
    """the model's constants are the strings of /repo (tie of the hand-written names)"""
    c = ck.run_model("consts", ["(N)"])[0]
    base = model_dict(c[0])
    if base != {k: norm_attr(v) for k, v in impl.base_template.items()}:
        ck.corr_failures.append({"what": "BASE_GRID_TOPOLOGY_ATTRS", "impl": impl.base_template, "model": base})
    if [uncode(x) for x in c[1]] != impl.conn_names:
        ck.corr_failures.append({"what": "CONNECTIVITY_NAMES", "impl": impl.conn_names, "model": [uncode(x) for x in c[1]]})
    if [uncode(x) for x in c[2]] != FORMATS or [uncode(x) for x in c[3]] != [ENCODE_AS[f] for f in FORMATS]:
        ck.corr_failures.append({"what": "format names"})
    want = ["grid_topology", "face_node_connectivity", "node_lon", "node_lat", "node_x", "node_y", "node_z",
            "_FillValue", "start_index", "cf_role", "n_edge", "face_lon", "edge_lon"]
    if [uncode(x) for x in c[4]] != want:
        ck.corr_failures.append({"what": "name constants", "model": [uncode(x) for x in c[4]]})


def run_all(ck, scenarios, impl, scratch, label_prefix="s"):
    results = []
    for i, sc in enumerate(scenarios):
        res = run_scenario(impl, sc, scratch, "%s%d" % (label_prefix, i))
        results.append(res)
    return results


def main(ck):
    ck.check_props()
    ok = ck.build_driver()
    impl = Impl()
    scratch = os.path.join(common.VERIF, ".scratch", "c07_%d" % os.getpid())
    os.makedirs(scratch, exist_ok=True)
    rng = ck.rng
    scenarios = []
    cdir = os.path.join(common.VERIF, "corpus", "C07")
    if os.path.isdir(cdir):
        for fn in sorted(os.listdir(cdir)):
            scenarios.append(json.load(open(os.path.join(cdir, fn)))["scenario"])
    scenarios += fixed_scenarios()
    scenarios += systematic_scenarios(rng, ck.tier)
    n_rand = 130 if ck.tier == "quick" else 9000
    n_rand = int(os.environ.get("C07_NRAND", n_rand))
    for i in range(n_rand):
        scenarios.append(gen_scenario(rng, ck.tier, i))
    # fresh-process references (module-level state): polluted-history scenarios, one process each
    n_sub = 2 if ck.tier == "quick" else 10
    sub_idx = [i for i, sc in enumerate(scenarios)
               if sum(1 for a in sc["actions"] if a[0] == "enc" and a[2] == "ugrid") >= 2
               and not any(a[0] == "mat" and a[2] == "bounds" for a in sc["actions"])][:n_sub]
    subs = [(i, start_subprocess(scenarios[i], scratch, k)) for k, i in enumerate(sub_idx)]
    if ok:
        check_constants(ck, impl)
    ck.cov["rule"] = ("corpus + the histories named in DESIGN section 8 (fresh/mixed/one-face grid x 3 formats x lon/lat "
                      "and xyz sources, big-then-small encode, edges/bounds/node_x materialised first, Cartesian-only "
                      "source, 9-column table; grids opened from NetCDF files written in UGRID/Exodus/SCRIP form with int32 "
                      "connectivity, declared _FillValue and start_index 0/1; the five real mesh files of test/meshfiles) + systematic depth-1 histories (each of 20 derived quantities x 3 formats "
                      "on a mixed and a uniform grid; all 16 ordered pairs of equipment levels across two grids) + "
                      "random histories (30% follow the shared-template pattern big-grid-then-other-grid): 1-3 grids (uniform tetra/cube/octa/icosa tilings, "
                      "mixed 3..8-gon tilings grown by split/subdivide/stellate/dual, partial, 1-2 face grids, "
                      "extra padding columns, 15% with 1-3 unreferenced nodes at the start/middle/end of the node table; nodes on poles, on lon=+-180/0; every public construction path: Grid(ds) with/without/None source_grid_spec, datasets whose face/edge centres are supplied in one coordinate system only (Cartesian without lon/lat, and the reverse), from_dataset with a custom spec, from_topology, from_face_vertices, open_grid on UGRID/Exodus/SCRIP datasets and files, results of copy()/isel()/get_dual(); source datasets carrying extra global attributes: str, numbers, lists, None), up to 6 "
                      "materialisations (20 derived quantities) and encodes of any grid in any format through "
                      "to_xarray or encode_as, then a final encode; every encode is checked directly and through a "
                      "netCDF file; non-trivial = history with >= 2 actions; distinct = distinct scenario")
    results = run_all(ck, scenarios, impl, scratch)
    # ---- clauses on the implementation
    hist = {"fmt": {}, "source": {}, "features": {}, "history_len": {}, "mesh_kind": {}, "face_sizes": {},
            "encodes_with_stale_template": 0, "encodes_on_padded_tables": 0, "pole_nodes": 0, "lon180_nodes": 0,
            "materialise_errors": {}, "encodes": 0, "encode_as_calls": 0, "clause_failures_incl_known": 0}
    for i, (sc, res) in enumerate(zip(scenarios, results)):
        ck.note_case(sc, len(sc["actions"]) >= 2)
        for e in res["errs"]:
            ck.proof["errors"].append("harness could not build a grid: " + e)
        hist["history_len"][str(len(sc["actions"]))] = hist["history_len"].get(str(len(sc["actions"])), 0) + 1
        for gd in sc["grids"]:
            hist["source"][gd["source"]] = hist["source"].get(gd["source"], 0) + 1
            dk = "derived:" + str(gd.get("derive"))
            hist.setdefault("derivation", {})[dk] = hist.setdefault("derivation", {}).get(dk, 0) + 1
            if gd.get("global_attrs"):
                hist["grids_with_global_attrs"] = hist.get("grids_with_global_attrs", 0) + 1
            hist["mesh_kind"][gd["mesh"]["kind"]] = hist["mesh_kind"].get(gd["mesh"]["kind"], 0) + 1
            for s in gd["mesh"]["sizes"]:
                hist["face_sizes"][str(s)] = hist["face_sizes"].get(str(s), 0) + 1
            if gd["mesh"].get("orphans"):
                hist["grids_with_unreferenced_nodes"] = hist.get("grids_with_unreferenced_nodes", 0) + 1
                if 0 in gd["mesh"]["orphans"]:
                    hist["grids_with_node_0_unreferenced"] = hist.get("grids_with_node_0_unreferenced", 0) + 1
            hist["pole_nodes"] += sum(1 for a in gd["mesh"]["lat"] if abs(a) == 90.0)
            hist["lon180_nodes"] += sum(1 for a in gd["mesh"]["lon"] if abs(a) == 180.0)
        for f, r in res["mats"]:
            hist["features"][f] = hist["features"].get(f, 0) + 1
            if r:
                hist["materialise_errors"][f + ":" + r] = hist["materialise_errors"].get(f + ":" + r, 0) + 1
        for o in res["obs"]:
            hist["encodes"] += 1
            hist["fmt"][o["fmt"]] = hist["fmt"].get(o["fmt"], 0) + 1
            hist["encode_as_calls"] += 1 if o["encode_as"] else 0
            hist["encodes_with_stale_template"] += 1 if o["stale_keys"] else 0
            hist["encodes_on_padded_tables"] += 1 if o["has_padding"] else 0
            if o.get("same_object"):
                hist["encodes_returning_grid_ds_itself"] = hist.get("encodes_returning_grid_ds_itself", 0) + 1
            for b in o.get("bad_attrs_out", []):
                hist.setdefault("unstorable_attrs_seen", {})
                hist["unstorable_attrs_seen"][b] = hist["unstorable_attrs_seen"].get(b, 0) + 1
            hist["clause_failures_incl_known"] += spec_check(ck, sc, o, "s%d" % i)
            if o.get("unwritable_source_global_none"):
                hist["exports_unwritable_only_because_source_global_attr_is_None"] = \
                    hist.get("exports_unwritable_only_because_source_global_attr_is_None", 0) + 1
    # ---- correspondence with the model
    variant_hits = {}
    if ok:
        lines = [model_line(res, VARIANTS["faithful"]) for res in results]
        mout = ck.run_model("run", lines)
        for i, (sc, res, mo) in enumerate(zip(scenarios, results, mout)):
            if isinstance(mo, list) and mo and mo[0] == "ERR":
                ck.corr_failures.append({"scenario": i, "model": mo})
                continue
            diffs = compare_with_model(res, mo)
            used = "faithful"
            if diffs:
                # the implementation may have been repaired: every variant of the model is covered by
                # theorems, so agreement with any of them keeps the tie
                for name, v in all_variants()[1:]:
                    mo2 = ck.run_model("run", [model_line(res, v)])[0]
                    if not (isinstance(mo2, list) and mo2 and mo2[0] == "ERR") and not compare_with_model(res, mo2):
                        used, diffs = name, []
                        break
            variant_hits[used] = variant_hits.get(used, 0) + 1
            if diffs:
                ck.corr_failures.append({"scenario_index": i, "scenario": sc, "differences": diffs[:6]})
    # ---- the theorems' hypothesis (c07_ds_wfb) evaluated by the extracted model on every dataset
    wf_counts = {"well_formed": 0, "not_well_formed": 0, "not_well_formed_but_has_node_lon": 0}
    if ok:
        for res, w in zip(results, ck.run_model("wf", [model_line(res, VARIANTS["faithful"]) for res in results])):
            for o, b in zip(res["obs"], w if isinstance(w, list) else []):
                if b == 1:
                    wf_counts["well_formed"] += 1
                else:
                    wf_counts["not_well_formed"] += 1
                    if o["has_node_lon"]:
                        wf_counts["not_well_formed_but_has_node_lon"] += 1
        if wf_counts["not_well_formed_but_has_node_lon"]:
            ck.corr_failures.append({"what": "a grid dataset with node_lon violates the well-formedness hypothesis "
                                             "of the theorems (c07_ds_wfb)", "count": wf_counts})
    # ---- hypotheses of C07_any_derived_set (c07_derived_ok, c07_pairs_ok) on every dataset with node_lon:
    #      the dataset is its three core variables plus a set S of further variables
    dset = {"hold": 0, "fail": 0, "further_variables_histogram": {}}
    for res in results:
        for o in res["obs"]:
            names = [v["name"] for v in o["snap"]]
            if "node_lon" not in names:
                continue
            core = {"node_lon", "node_lat", "face_node_connectivity"}
            derived_ok = all(names.count(n) == 1 for n in core if n in names) and core <= set(names) and not any(
                v["name"] != "grid_topology" and any(k == "cf_role" and kind == ("s", ["mesh_topology"]) for k, kind in v["attrs"])
                for v in o["snap"])
            pairs_ok = ("face_lon" not in names or "face_lat" in names) and ("edge_lon" not in names or "edge_lat" in names)
            dset["hold" if derived_ok and pairs_ok else "fail"] += 1
            k = str(min(len(names) - 3, 20))
            dset["further_variables_histogram"][k] = dset["further_variables_histogram"].get(k, 0) + 1
    if dset["fail"]:
        ck.corr_failures.append({"what": "a grid dataset violates the hypotheses of C07_any_derived_set", "count": dset})
    # ---- fresh-process reference
    sub_ok = 0
    for i, p in subs:
        try:
            so, se = p.communicate(timeout=600)
        except subprocess.TimeoutExpired:
            p.kill()
            ck.proof["errors"].append("fresh-process reference timed out")
            continue
        line = [l for l in so.splitlines() if l.startswith("RESULT ")]
        if p.returncode != 0 or not line:
            ck.proof["errors"].append("fresh-process reference failed: " + se[-600:])
            continue
        refd = json.loads(line[0][7:])
        ref = refd["digest"]
        if refd["errs"]:
            ck.proof["errors"].append("fresh-process reference could not build its grids: %s | stderr: %s"
                                      % (refd["errs"][:2], se[-300:]))
        elif ref != digest_obs(results[i]):
            ck.corr_failures.append({"what": "in-process run with reset globals differs from a fresh process",
                                     "scenario_index": i, "fresh": ref, "in_process": digest_obs(results[i])})
        else:
            sub_ok += 1
    # ---- extraction audit: the kernel evaluates the same digest by vm_compute
    audit_n = 0
    if ok:
        small = [r for r in results if r["obs"] and sum(len(o["snap"]) for o in r["obs"]) <= 40 and
                 all(len(v["data"][1]) <= 12 for o in r["obs"] for v in o["snap"] if v["data"] is not None)][:12]
        audit_n = extraction_audit(ck, small)
    for res in results[:60]:
        for o in res["obs"]:
            if len(ck.cov["samples"]) < 4 and o["fmt"] == FORMATS[len(ck.cov["samples"]) % 3]:
                ck.sample({"format": o["fmt"], "source": o["source"], "encode_exc": o["encode_exc"],
                           "closed": o.get("closed"), "write_exc": o.get("write_exc"),
                           "direct": (o.get("direct_faces") or [o.get("direct_exc")])[0],
                           "file": (o.get("file_faces") or [o.get("file_exc")])[0],
                           "topology": {k: norm_attr(v) for k, v in (o.get("topo") or {}).items()},
                           "stale_keys": o["stale_keys"]})
    ck.extra.update({"distribution": hist, "model_variant_matched": variant_hits, "hypothesis_c07_ds_wfb": wf_counts, "hypotheses_C07_any_derived_set": dset,
                     "fresh_process_references_agreeing": sub_ok, "extraction_audit_cases": audit_n,
                     "tolerances": {"corner position": "1e-9 degree (angle between unit vectors)",
                                    "exodus coord vs model dataflow": "1e-12 absolute",
                                    "generator": "nodes >= 0.01 degree from a pole unless exactly on it (reader snaps |z|>1-1e-8), pairwise >= 1e-6 apart"},
                     "clauses_checked_on_impl": ["encode_raises", "format", "ugrid_closed", "writable", "reopen_raises",
                                                 "faces (positions + cyclic order; face order for UGRID/SCRIP, multiset for Exodus)"],
                     "partial": "netCDF4/xarray I/O, float trigonometry of the Exodus coordinate conversion (symbolic in the "
                                "model, evaluated numerically by the harness) and xyz->lon/lat of the reader (C04) are "
                                "validated, not proved"})
    if os.environ.get("C07_DEBUG"):
        json.dump(ck.corr_failures, open(os.environ["C07_DEBUG"], "w"), indent=1, default=str)
    ck.trusted += ["xarray Dataset semantics as modelled: `name in ds`, ds.dims, drop_vars returns a new object, "
                   "DataArray(attrs=d) copies d, rename fails on a missing name, mask_and_scale decoding of _FillValue",
                   "netCDF4 attribute types (str, numbers, numeric arrays storable; bool arrays and objects not)",
                   "numpy: fancy indexing bounds, np.unique(axis=0, return_inverse), list.sort(key=len) stable",
                   "float comparison through order-preserving tokens (the encoders only move, compare and sort coordinates)"]
    ck.assumptions += ["faces have 3..8 corners: _encode_exodus has element types for 2..8 nodes only (KeyError beyond; "
                       "hypothesis c07_exo_elem_ok), so generated and derived (dual) grids stay within that range",
                       "grid datasets are well formed: node_lon/node_lat (or node_x/y/z) and face_node_connectivity in "
                       "standard form (C01 owns that), coordinates come in lon/lat pairs",
                       "xyz <-> lon/lat conversions are C04's; C07 compares corner positions as points on the sphere"]
    try:
        import shutil
        shutil.rmtree(scratch, ignore_errors=True)
    except Exception:
        pass


def coq_list(xs, f=str):
    return "[" + "; ".join(f(x) for x in xs) + "]"


def coq_z(x):
    return "FILL" if x == FILL else ("(%d)" % x if x < 0 else "%d" % x)


def coq_aval(kind, p):
    if kind == "s":
        return "C07_AStr " + coq_list([code(w) for w in p], coq_z)
    if kind == "n":
        return "C07_ANum " + coq_z(p)
    return {"a": "C07_ANumArr", "b": "C07_ABool", "o": "C07_AObj"}[kind]


def coq_step(o, toks):
    vs = []
    for v in o["snap"]:
        d = v["data"]
        if d is None:
            data = "C07_DNone"
        elif d[0] == "i":
            data = "C07_DInt " + coq_list(d[1], lambda r: coq_list([int(x) for x in r], coq_z))
        else:
            data = "C07_DFloat " + coq_list(toks.tok(d[1]), coq_z)
        attrs = coq_list(v["attrs"], lambda kv: "(%s, %s)" % (coq_z(code(kv[0])), coq_aval(*kv[1])))
        vs.append("{| cv_name := %s; cv_dims := %s; cv_attrs := %s; cv_data := %s |}" %
                  (coq_z(code(v["name"])), coq_list([code(x) for x in v["dims"]], coq_z), attrs, data))
    fmtname = ENCODE_AS[o["fmt"]] if o["encode_as"] else o["fmt"]
    return "{| sp_encode_as := %s; sp_format := %s; sp_ds := %s; sp_areas_ok := %s |}" % (
        "true" if o["encode_as"] else "false", coq_z(code(fmtname)), coq_list(vs), "true" if o["areas_ok"] else "false")


def extraction_audit(ck, small):
    import re
    if not small:
        return 0
    lines = []
    for res in small:
        lines.append("Eval vm_compute in (c07_digest c07_faithful c07_base_template %s)." %
                     coq_list([coq_step(o, res["toks"]) for o in res["obs"]]))
    rc, out = ck.audit_vm(lines, "From Verif Require Import Base C07.\nOpen Scope Z_scope.")
    if rc != 0:
        ck.proof["errors"].append("in-kernel audit failed: " + out[-800:])
        return 0
    blocks = re.split(r"(?m)^\s*= ", out)[1:]
    ml = ck.run_model("digest", [model_line(res, VARIANTS["faithful"]) for res in small])
    n = 0
    for b, mo in zip(blocks, ml):
        body = b.split("\n     :")[0]
        nums = [int(x) for x in re.findall(r"-?\d+", body)]
        if nums != [int(x) for x in mo]:
            ck.proof["errors"].append("extraction audit mismatch: kernel %s vs extracted %s" % (nums[:20], mo[:20]))
        n += 1
    if len(blocks) != len(ml):
        ck.proof["errors"].append("extraction audit: %d kernel answers for %d cases" % (len(blocks), len(ml)))
    return n


def replay(ck, rp):
    impl = Impl()
    scratch = os.path.join(common.VERIF, ".scratch", "c07_%d" % os.getpid())
    os.makedirs(scratch, exist_ok=True)
    sc = rp["case"]["scenario"]
    ck.note_case(sc)
    ck.note_case("replay")
    res = run_scenario(impl, sc, scratch, "replay")
    for o in res["obs"]:
        spec_check(ck, sc, o, "replay")
    try:
        import shutil
        shutil.rmtree(scratch, ignore_errors=True)
    except Exception:
        pass
