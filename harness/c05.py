"""C05 — face areas are the spherical-polygon areas, invariantly.

Proof: coq/Props/C05_props.v about coq/Model/C05.v (+ C05_rules.v); the literal quadrature tables and
the defaults of Grid.compute_face_areas are regenerated from /repo by harness/translators/c05_tables.py
on every run (15 table theorems re-checked by vm_compute whenever area.py changes).
Tie: (a) the tables the real get_*_quadratureDG functions return are compared with the generated ones;
(b) the extracted fixed-point model (2^-100) and the real calculate_face_area /
Grid.compute_face_areas run on the same corners; (c) every property clause is evaluated directly on
the implementation's output against the exact spherical excess (mpmath, 50 digits).
The `dim` that Grid.compute_face_areas passes on the Cartesian path is generated from grid.py too
(c05_dim_cartesian3; `dim = 2 if latlon else 3` since fix 4eed51d9) and selects the model variant.
The accuracy classes and the convergence are numerical facts (validated here, not proved).
"""
import json
import math
import os
import subprocess
import sys
from fractions import Fraction

import numpy as np

import common
import meshgen
from common import FILL, sx

sys.path.insert(0, os.path.join(common.VERIF, ".pydeps"))
import mpmath as mp  # noqa: E402

mp.mp.dps = 50

SBITS = 100
S = 1 << SBITS
TRI = [1, 4, 8, 10, 12]
GAUSS = list(range(1, 11))
RULES = [("triangular", o) for o in TRI] + [("gaussian", o) for o in GAUSS]
GOOD_RULES = [("triangular", o) for o in TRI if o >= 4] + [("gaussian", o) for o in GAUSS if o >= 3]
CLASSES = [(10.0, 1e-6), (30.0, 1e-4), (65.0, 1e-2)]            # the property's figures
CONV_TOL = {10.0: 1e-10, 30.0: 1e-9, 65.0: 1e-6}                # top order of each family
TIGHT = 1e-9        # float deviation allowed where the model is exactly invariant
MODEL_TOL = 1e-10   # implementation vs fixed-point model


def noise_floor(P, area):
    """relative float64 rounding noise of the area of a face given by 1e-16-accurate unit vectors:
    moving a corner by eps changes the area by about eps * edge length, so the relative noise is
    ~ eps * perimeter / area (2e-11 for a compact face 0.01 degrees across, 1e-9 at 1e-4 degrees,
    more for slivers).  Only used to widen the TIGHT comparisons and the convergence bound on
    km-scale faces; the accuracy classes of the property are never widened."""
    per = sum(vangle(P[i], P[(i + 1) % len(P)]) for i in range(len(P)))
    return 2 * 2.2e-16 * per / max(float(area), 1e-300)


MODEL_MIN_DIAM = 0.01    # degrees: below this the 2^-100 fixed-point model rounds the squared Jacobian
#                          (~ area^2) too coarsely to be a 1e-10 reference; sub-km faces are judged by the
#                          exact oracle only


def class_of(diam_deg):
    for lim, tol in CLASSES:
        if diam_deg <= lim:
            return lim, tol
    return None, None


# ---------------------------------------------------------------------------------------------
# float geometry

def vnorm(v):
    n = math.sqrt(v[0] * v[0] + v[1] * v[1] + v[2] * v[2])
    return (v[0] / n, v[1] / n, v[2] / n)


def vdot(a, b):
    return a[0] * b[0] + a[1] * b[1] + a[2] * b[2]


def vcross(a, b):
    return (a[1] * b[2] - a[2] * b[1], a[2] * b[0] - a[0] * b[2], a[0] * b[1] - a[1] * b[0])


def vangle(a, b):
    c = vcross(a, b)
    return math.atan2(math.sqrt(vdot(c, c)), vdot(a, b))


def diameter_deg(P):
    return math.degrees(max(vangle(a, b) for i, a in enumerate(P) for b in P[i + 1:]))


def max_edge_deg(P):
    return math.degrees(max(vangle(P[i], P[(i + 1) % len(P)]) for i in range(len(P))))


def is_convex(P, eps=1e-7):
    """every corner on the inner side of (or on) every edge's great circle; the margin is relative to
    the face size so that km-scale faces are judged like large ones"""
    n = len(P)
    size = max(vangle(P[0], q) for q in P[1:])
    for i in range(n):
        nrm = vcross(P[i], P[(i + 1) % n])
        ln = math.sqrt(vdot(nrm, nrm))
        if ln == 0.0:
            return False
        if any(vdot(nrm, q) / ln < -eps * size for q in P):
            return False
    return True


def apply(R, p):
    return tuple(R[r][0] * p[0] + R[r][1] * p[1] + R[r][2] * p[2] for r in range(3))


def to_lonlat(p):
    # atan2 keeps full relative precision next to the poles (asin does not)
    return (math.degrees(math.atan2(p[1], p[0])), math.degrees(math.atan2(p[2], math.hypot(p[0], p[1]))))


# ---------------------------------------------------------------------------------------------
# exact oracle (mpmath): spherical excess by signed fan sum (Van Oosterom-Strackee per triangle)

def mp_unit(p):
    v = [mp.mpf(float(x)) for x in p]
    n = mp.sqrt(v[0] * v[0] + v[1] * v[1] + v[2] * v[2])
    return [v[0] / n, v[1] / n, v[2] / n]


def mp_from_lonlat(lon, lat):
    lo = mp.radians(mp.mpf(float(lon)))
    la = mp.radians(mp.mpf(float(lat)))
    return [mp.cos(lo) * mp.cos(la), mp.sin(lo) * mp.cos(la), mp.sin(la)]


def exact_area(P):
    tot = mp.mpf(0)
    a = P[0]
    for j in range(1, len(P) - 1):
        b, c = P[j], P[j + 1]
        num = (a[0] * (b[1] * c[2] - b[2] * c[1]) - a[1] * (b[0] * c[2] - b[2] * c[0])
               + a[2] * (b[0] * c[1] - b[1] * c[0]))
        den = 1 + (a[0] * b[0] + a[1] * b[1] + a[2] * b[2]) + (b[0] * c[0] + b[1] * c[1] + b[2] * c[2]) \
            + (a[0] * c[0] + a[1] * c[1] + a[2] * c[2])
        tot += 2 * mp.atan2(num, den)
    return tot


def relerr(a, ex):
    return float(abs((mp.mpf(a) - ex) / ex))


# ---------------------------------------------------------------------------------------------
# generators (everything from ck.rng)

def _hull(pts):
    pts = sorted(set(pts))

    def cr(o, a, b):
        return (a[0] - o[0]) * (b[1] - o[1]) - (a[1] - o[1]) * (b[0] - o[0])
    lo = []
    for p in pts:
        while len(lo) >= 2 and cr(lo[-2], lo[-1], p) <= 0:
            lo.pop()
        lo.append(p)
    up = []
    for p in reversed(pts):
        while len(up) >= 2 and cr(up[-2], up[-1], p) <= 0:
            up.pop()
        up.append(p)
    return lo[:-1] + up[:-1]


def _gnomonic(pl, s):
    return [vnorm((u * s, v * s, 1.0)) for (u, v) in pl]


def planar_shape(rng, n, shape):
    """counter-clockwise convex n-gon in the plane (gnomonic image of the face around the north pole)"""
    if shape == "regular":
        ph = rng.uniform(0, 2 * math.pi)
        return [(math.cos(ph + 2 * math.pi * i / n), math.sin(ph + 2 * math.pi * i / n)) for i in range(n)]
    if shape == "circle":
        while True:
            ang = sorted(rng.uniform(0, 2 * math.pi) for _ in range(n))
            gaps = [(ang[(i + 1) % n] - ang[i]) % (2 * math.pi) for i in range(n)]
            if max(gaps) < math.pi * 0.95 and min(gaps) > 0.1:
                return [(math.cos(a), math.sin(a)) for a in ang]
    if shape == "collinear" and n >= 4:
        base = planar_shape(rng, n - 1, "hull")
        k = rng.randrange(n - 1)
        a, b = base[k], base[(k + 1) % (n - 1)]
        t = rng.uniform(0.3, 0.7)
        return base[:k + 1] + [(a[0] * (1 - t) + b[0] * t, a[1] * (1 - t) + b[1] * t)] + base[k + 1:]
    thin = 0.12 if shape == "thin" else 1.0
    for _ in range(2000):
        k = rng.randrange(n, n + 6)
        pts = [(rng.uniform(-1, 1), rng.uniform(-1, 1) * thin) for _ in range(k)]
        h = _hull(pts)
        if len(h) == n:
            # reject nearly coincident corners
            if min(math.hypot(h[i][0] - h[(i + 1) % n][0], h[i][1] - h[(i + 1) % n][1]) for i in range(n)) > 0.05 * thin:
                return h
    return planar_shape(rng, n, "circle")


def scale_to_diameter(pl, D):
    cx = sum(p[0] for p in pl) / len(pl)
    cy = sum(p[1] for p in pl) / len(pl)
    pl = [(p[0] - cx, p[1] - cy) for p in pl]
    lo, hi = 0.0, 1.0
    while diameter_deg(_gnomonic(pl, hi)) < D:
        hi *= 2
        if hi > 1e6:
            break
    for _ in range(70):
        mid = (lo + hi) / 2
        if diameter_deg(_gnomonic(pl, mid)) < D:
            lo = mid
        else:
            hi = mid
    return _gnomonic(pl, lo)


def rot_to(p, target):
    """orthonormal matrix taking unit vector p to unit vector target (rows)"""
    def frame(w):
        a = (1.0, 0.0, 0.0) if abs(w[0]) < 0.9 else (0.0, 1.0, 0.0)
        u = vnorm(vcross(a, w))
        v = vcross(w, u)
        return u, v, w
    u1, v1, w1 = frame(p)
    u2, v2, w2 = frame(target)
    # R = [u2 v2 w2] [u1 v1 w1]^T
    return [[u2[r] * u1[c] + v2[r] * v1[c] + w2[r] * w1[c] for c in range(3)] for r in range(3)]


PLACES = ["random", "random", "random", "pole_inside", "pole_node", "antimeridian", "prime", "pole_edge"]


def place(rng, P, kind):
    n = len(P)
    if kind == "pole_inside":
        if rng.random() < 0.5:
            return P
        return [(p[0], -p[1], -p[2]) for p in P]          # rotation by pi about x: south pole inside
    if kind == "pole_node":
        k = rng.randrange(n)
        s = rng.choice([1.0, -1.0])
        R = rot_to(P[k], (0.0, 0.0, s))
        Q = [vnorm(apply(R, p)) for p in P]
        Q[k] = (0.0, 0.0, s)
        return Q
    if kind == "pole_edge":
        k = rng.randrange(n)
        m = vnorm(tuple(P[k][i] + P[(k + 1) % n][i] for i in range(3)))
        R = rot_to(m, (0.0, 0.0, rng.choice([1.0, -1.0])))
        return [vnorm(apply(R, p)) for p in P]
    if kind in ("antimeridian", "prime"):
        c = vnorm(tuple(sum(p[i] for p in P) for i in range(3)))
        la = math.radians(rng.uniform(-60, 60))
        lo = math.pi if kind == "antimeridian" else 0.0
        tgt = (math.cos(la) * math.cos(lo), math.cos(la) * math.sin(lo), math.sin(la))
        R = rot_to(c, vnorm(tgt))
        a = rng.uniform(0, 2 * math.pi)
        Q = [vnorm(apply(R, p)) for p in P]
        # spin about the centre direction
        t = vnorm(tgt)
        out = []
        for q in Q:
            kx = vcross(t, q)
            kd = vdot(t, q)
            out.append(vnorm(tuple(q[i] * math.cos(a) + kx[i] * math.sin(a) + t[i] * kd * (1 - math.cos(a)) for i in range(3))))
        return out
    R = meshgen.rotation_matrix(rng, "random")
    return [vnorm(apply(R, p)) for p in P]


SHAPES = ["hull", "hull", "hull", "thin", "regular", "circle", "collinear"]


def gen_face(rng, cls=None):
    n = rng.choice([3, 3, 4, 4, 5, 6, 7, 8])
    shape = rng.choice(SHAPES)
    if shape == "collinear" and n < 4:
        shape = "hull"
    cls = cls or rng.choice(["tiny", "tiny", "c10", "c10", "c30", "c30", "c65", "c65", "c65", "big"])
    if cls == "tiny":              # km-scale and sub-km cells: 1e-4 .. 1e-2 degrees across, log-uniform
        D = 10 ** rng.uniform(-4, -2)
        n = rng.choice([3, 4, 8, n])
    elif cls == "c10":
        D = rng.choice([rng.uniform(0.01, 1.0), rng.uniform(1.0, 9.95), 9.95])
    elif cls == "c30":
        D = rng.choice([rng.uniform(10.1, 29.9), 29.9])
    elif cls == "c65":
        D = rng.choice([rng.uniform(30.1, 64.8), rng.uniform(55, 64.8), 64.8])
    else:
        D = rng.uniform(65.5, 85.0)
    P = scale_to_diameter(planar_shape(rng, n, shape), D)
    pk = rng.choice(PLACES)
    P = place(rng, P, pk)
    k = rng.randrange(n)
    P = P[k:] + P[:k]
    return {"kind": "face", "n": n, "shape": shape, "place": pk, "cart": [list(p) for p in P]}


def ll_to_xyz(lo, la):
    """float conversion written so that (lon, lat) and (lon, -lat) get bit-identical x and y, and
    (lon, lat) and (-lon, lat) bit-identical x and z (cos is even in floating point as well)"""
    lo, la = math.radians(lo), math.radians(la)
    return (math.cos(lo) * math.cos(la), math.sin(lo) * math.cos(la), math.sin(la))


def gen_symmetric_face(rng):
    """convex face symmetric about the equator and/or a meridian plane, listed counter-clockwise
    from its south-west corner (the conventional order of structured meshes); every start corner is
    checked on it"""
    kind = rng.choice(["equator_quad", "equator_quad", "equator_hexagon", "meridian_quad", "both_quad", "equator_triangle"])
    lon0 = rng.choice([0.0, 0.0, 90.0, 180.0, -135.0, rng.uniform(-180, 180)])
    a = 10 ** rng.uniform(-3.3, 1.45)          # half width in degrees: 0.0005 .. 28
    b = a * rng.uniform(0.5, 1.5)
    b = min(b, 28.0)
    if kind == "equator_quad":                 # trapezoid: NE mirrors SE, NW mirrors SW
        a2 = a * rng.uniform(0.6, 1.0)
        ll = [(lon0 - a, -b), (lon0 + a2, -b), (lon0 + a2, b), (lon0 - a, b)]
    elif kind == "both_quad":
        ll = [(lon0 - a, -b), (lon0 + a, -b), (lon0 + a, b), (lon0 - a, b)]
    elif kind == "meridian_quad":
        c = rng.uniform(-50, 50)
        ll = [(lon0 - a, c - b), (lon0 + a, c - b), (lon0 + a * 0.8, c + b), (lon0 - a * 0.8, c + b)]
    elif kind == "equator_hexagon":
        ll = [(lon0 - a, -b * 0.5), (lon0, -b), (lon0 + a, -b * 0.5), (lon0 + a, b * 0.5), (lon0, b), (lon0 - a, b * 0.5)]
    else:                                      # apex on the equator, base edge mirrored
        ll = [(lon0 - a, -b), (lon0 + a, 0.0), (lon0 - a, b)]
    ll = [(((lo + 180.0) % 360.0) - 180.0, la) for lo, la in ll]
    P = [ll_to_xyz(lo, la) for lo, la in ll]
    return {"kind": "face", "n": len(P), "shape": kind, "place": "symmetric", "cart": [list(p) for p in P],
            "lonlat": [list(q) for q in ll], "all_starts": True}


def latlon_mesh(rng, nlon, nlat, shift):
    """closed latitude-longitude mesh with an ODD number of rows (the middle row is centred on the
    equator), triangles at the poles, corners listed counter-clockwise from the south-west corner and
    then rotated by `shift`; NOT rotated or renumbered, so the mirror symmetry is exact"""
    lon0 = rng.choice([-180.0, 0.0, -180.0 + 180.0 / nlon])
    lons = [((lon0 + 360.0 * i / nlon + 180.0) % 360.0) - 180.0 for i in range(nlon)]
    half = [90.0 - 180.0 * j / nlat for j in range(1, (nlat - 1) // 2 + 1)]      # northern rings, pole -> equator
    lats = [-h for h in half] + list(reversed(half))                              # exact mirror pairs, ascending
    ll = [(0.0, -90.0), (0.0, 90.0)]
    idx = {}
    for j, la in enumerate(lats):
        for i, lo in enumerate(lons):
            idx[(i, j)] = len(ll)
            ll.append((lo, la))
    faces = []
    nr = len(lats)
    for i in range(nlon):
        i2 = (i + 1) % nlon
        faces.append([0, idx[(i2, 0)], idx[(i, 0)]])                              # south cap
        for j in range(nr - 1):
            faces.append([idx[(i, j)], idx[(i2, j)], idx[(i2, j + 1)], idx[(i, j + 1)]])   # SW SE NE NW
        faces.append([idx[(i, nr - 1)], idx[(i2, nr - 1)], 1])                    # north cap
    faces = [f[shift % len(f):] + f[:shift % len(f)] for f in faces]
    w = 4 + rng.choice([0, 1])
    nodes = [ll_to_xyz(lo, la) for lo, la in ll]
    return {"kind": "latlon_mesh", "nodes": [list(p) for p in nodes], "lonlat": [list(q) for q in ll],
            "table": [f + [FILL] * (w - len(f)) for f in faces], "closed": True,
            "name": "latlon %dx%d shift %d" % (nlon, nlat, shift)}


# ---------------------------------------------------------------------------------------------
# implementation

def impl_area(xs, ys, zs, rule, order, ctype):
    from uxarray.grid.area import calculate_face_area
    a, j = calculate_face_area(np.array(xs, dtype=np.float64), np.array(ys, dtype=np.float64),
                               np.array(zs, dtype=np.float64), rule, order, ctype)
    return float(a), float(j)


def cart_area(P, rule, order):
    return impl_area([p[0] for p in P], [p[1] for p in P], [p[2] for p in P], rule, order, "cartesian")[0]


def sph_area(LL, rule, order):
    return impl_area([p[0] for p in LL], [p[1] for p in LL], [0.0] * len(LL), rule, order, "spherical")[0]


def fx(x):
    return int(math.floor(Fraction(float(x)) * S))


def fxm(v):
    return int(mp.floor(v * S))


def model_line_cart(P, rule, order):
    return sx([0 if rule == "gaussian" else 1, order, 0, [], [[fx(p[0]), fx(p[1]), fx(p[2])] for p in P]])


def conv_table(LL):
    out = []
    seen = set()
    for lo, la in LL:
        key = (fx(lo), fx(la))
        if key in seen:
            continue
        seen.add(key)
        v = mp_from_lonlat(lo, la)
        out.append([[key[0], key[1]], [fxm(v[0]), fxm(v[1]), fxm(v[2])]])
    return out


def model_line_sph(LL, rule, order):
    return sx([0 if rule == "gaussian" else 1, order, 1, conv_table(LL), [[fx(p[0]), fx(p[1]), 0] for p in LL]])


def run_model_par(ck, cmd, lines, nproc=8, timeout=1500):
    """the extracted model on many lines, spread over a few driver processes"""
    if not lines:
        return []
    nproc = max(1, min(nproc, len(lines), (os.cpu_count() or 4)))
    chunks = [lines[i::nproc] for i in range(nproc)]
    procs = []
    for ch in chunks:
        p = subprocess.Popen([os.path.join(common.OCAML, "driver_" + ck.pid), cmd], stdin=subprocess.PIPE,
                             stdout=subprocess.PIPE, stderr=subprocess.PIPE, text=True)
        procs.append(p)
    import threading
    outs = [None] * nproc

    def feed(i):
        o, e = procs[i].communicate("\n".join(chunks[i]) + "\n", timeout=timeout)
        if procs[i].returncode != 0:
            raise RuntimeError("model driver failed: " + e[-1000:])
        outs[i] = [common.parse_sx(l) for l in o.splitlines() if l.strip()]
    th = [threading.Thread(target=feed, args=(i,)) for i in range(nproc)]
    for t in th:
        t.start()
    for t in th:
        t.join()
    res = [None] * len(lines)
    for i in range(nproc):
        if outs[i] is None or len(outs[i]) != len(chunks[i]):
            raise RuntimeError("model driver returned %s results for %d lines" % (outs[i] and len(outs[i]), len(chunks[i])))
        for k, r in enumerate(outs[i]):
            res[i + k * nproc] = r
    return res


# ---------------------------------------------------------------------------------------------
# the property clauses on one face (function level)

class Stats:
    def __init__(self):
        self.worst = {}          # (class, rule) -> worst relative error
        self.hist = {}
        self.tight = {}          # name -> worst deviation seen in the tight (correspondence) comparisons

    def err(self, lim, rule, e):
        k = "%s/%s%d" % ("<=%g" % lim if lim else ">65", rule[0][0], rule[1])
        if e > self.worst.get(k, 0.0):
            self.worst[k] = e

    def count(self, name, key):
        d = self.hist.setdefault(name, {})
        d[str(key)] = d.get(str(key), 0) + 1

    def dev(self, name, v):
        if v > self.tight.get(name, 0.0):
            self.tight[name] = v


def check_face(ck, case, st, default_rule, model_jobs=None, full=True):
    """evaluate the clauses of C05 on the implementation for one convex face; returns a small summary"""
    rng = ck.rng
    P = [tuple(p) for p in case["cart"]]
    n = len(P)
    LL = [tuple(q) for q in case["lonlat"]] if case.get("lonlat") else [to_lonlat(p) for p in P]
    diam = diameter_deg(P)
    lim, tol = class_of(diam)
    info0 = {"level": "function", "class": lim}
    exC = exact_area([mp_unit(p) for p in P])
    exS = exact_area([mp_from_lonlat(lo, la) for lo, la in LL])
    out = {"diam": diam, "n": n}
    if not (exC > 0 and exS > 0):
        return out                      # generator produced a degenerate face: nothing to claim
    nfl = noise_floor(P, exC)
    tight = max(TIGHT, nfl)
    areas = {}
    try:
        for rule in RULES:
            areas[("c",) + rule] = cart_area(P, *rule)
            areas[("s",) + rule] = sph_area(LL, *rule)
    except Exception as ex:
        ck.fail("raises", case, dict(info0, call="calculate_face_area"), detail=repr(ex))
        return out
    # never negative
    for k, a in areas.items():
        if not (a >= 0.0) or not math.isfinite(a):
            ck.fail("nonneg", case, dict(info0, rule=k[1], order=k[2], coords=k[0]), detail="area=%r" % a)
    errs = {}
    for k, a in areas.items():
        e = relerr(a, exC if k[0] == "c" else exS)
        errs[k] = e
        st.err(lim, k[1:], e)
    out["err_default"] = errs[("c",) + default_rule]
    # accuracy of the default rule per class, both coordinate inputs
    if tol is not None:
        for c in ("c", "s"):
            e = errs[(c,) + default_rule]
            if e > tol:
                ck.fail("accuracy_default", case, dict(info0, coords=c), detail="relerr=%g tol=%g diam=%g" % (e, tol, diam))
        # convergence: the top order of each family reaches the exact excess, and is not worse than order 1
        for fam, top in (("triangular", 12), ("gaussian", 10)):
            for c in ("c", "s"):
                et, e1 = errs[(c, fam, top)], errs[(c, fam, 1)]
                if et > max(CONV_TOL[lim], nfl) or et > max(e1, 1e-12, nfl):
                    ck.fail("converge", case, dict(info0, coords=c, family=fam),
                            detail="relerr(top)=%g relerr(order1)=%g bound=%g diam=%g" % (et, e1, CONV_TOL[lim], diam))
    if not full:
        return out
    rules = [default_rule, rng.choice(GOOD_RULES)]
    for rule in rules:
        a0 = areas[("c",) + rule]
        s0 = areas[("s",) + rule]
        # coordinate input
        if tol is not None and abs(a0 - s0) > tol * float(exC):
            ck.fail("coords_path", case, dict(info0, rule=rule[0], order=rule[1], path="function"),
                    detail="cart=%r sph=%r" % (a0, s0))
        d = abs(a0 - s0) / float(exC)
        st.dev("coords(function)", d if diam >= 0.01 else 0.0)
        if d > tight:
            ck.corr_failures.append({"what": "spherical vs cartesian input differ beyond float noise (model: equal, C05_coords)",
                                     "case": case, "rule": rule, "cart": a0, "sph": s0})
        # starting corner
        k = rng.randrange(1, n)
        Pk = P[k:] + P[:k]
        ak = cart_area(Pk, *rule)
        sk = sph_area(LL[k:] + LL[:k], *rule)
        if tol is not None:
            if abs(ak - a0) > 2 * tol * float(exC) or relerr(ak, exC) > tol or relerr(sk, exS) > tol:
                ck.fail("start_corner", case, dict(info0, rule=rule[0], order=rule[1], shift=k),
                        detail="a0=%r a_shift=%r exact=%s" % (a0, ak, mp.nstr(exC, 20)))
        # rigid motion (rotation, sometimes composed with an axis permutation)
        R = meshgen.rotation_matrix(rng, rng.choice(["random", "random", "z"]))
        if rng.random() < 0.3:
            perm = rng.choice([(1, 2, 0), (2, 0, 1)])
            R = [R[perm[0]], R[perm[1]], R[perm[2]]]
        PR = [vnorm(apply(R, p)) for p in P]
        ar = cart_area(PR, *rule)
        sr = sph_area([to_lonlat(p) for p in PR], *rule)
        if tol is not None and (abs(ar - a0) > 2 * tol * float(exC) or abs(sr - s0) > 2 * tol * float(exC)):
            ck.fail("rigid_rotation", case, dict(info0, rule=rule[0], order=rule[1]), detail="a=%r rotated=%r R=%r" % (a0, ar, R))
        d = max(abs(ar - a0), abs(sr - s0)) / float(exC)
        st.dev("rigid", d if diam >= 0.01 else 0.0)
        if d > tight:
            ck.corr_failures.append({"what": "rigid rotation changes the area beyond float noise (model: invariant, C05_rigid)",
                                     "case": case, "rule": rule, "a": a0, "rotated": ar, "R": R})
        # additivity: cut along a diagonal (fan diagonal from corner 0 and another one)
        if n >= 4:
            for i0 in (0, rng.randrange(1, n)):
                Q = P[i0:] + P[:i0]
                kk = rng.randrange(2, n - 1)
                p1, p2 = Q[:kk + 1], [Q[0]] + Q[kk:]
                aw = cart_area(Q, *rule)
                a1, a2 = cart_area(p1, *rule), cart_area(p2, *rule)
                if tol is not None and abs(aw - a1 - a2) > 2 * tol * float(exC):
                    ck.fail("additivity", case, dict(info0, rule=rule[0], order=rule[1], cut="diagonal"),
                            detail="whole=%r pieces=%r+%r start=%d k=%d" % (aw, a1, a2, i0, kk))
                d = abs(aw - a1 - a2) / float(exC)
                st.dev("fan_additivity", d)
                if d > max(1e-11, nfl):
                    ck.corr_failures.append({"what": "fan-diagonal cut does not add up (model: exact, C05_subdivision)",
                                             "case": case, "rule": rule, "whole": aw, "pieces": [a1, a2]})
        # additivity: star subdivision from an interior point (pieces are triangles; quadrature differs)
        c = vnorm(tuple(sum(p[i] for p in P) for i in range(3)))
        if tol is not None:
            pieces = [cart_area([P[i], P[(i + 1) % n], c], *rule) for i in range(n)]
            if abs(sum(pieces) - a0) > 2 * tol * float(exC):
                ck.fail("additivity", case, dict(info0, rule=rule[0], order=rule[1], cut="star"),
                        detail="whole=%r sum(pieces)=%r" % (a0, sum(pieces)))
    # faces built symmetric about the equator / a meridian plane: EVERY starting corner, both inputs
    if case.get("all_starts") and tol is not None:
        for rule in rules:
            for k in range(n):
                try:
                    ak = cart_area(P[k:] + P[:k], *rule)
                    sk = sph_area(LL[k:] + LL[:k], *rule)
                except Exception as ex:
                    ck.fail("raises", case, dict(info0, call="calculate_face_area", shift=k), detail=repr(ex))
                    continue
                if relerr(ak, exC) > tol or abs(ak - areas[("c",) + rule]) > 2 * tol * float(exC):
                    ck.fail("start_corner", case, dict(info0, rule=rule[0], order=rule[1], shift=k, coords="c", symmetric=True),
                            detail="cartesian input, start corner %d: area=%r, start corner 0: %r, exact=%s"
                            % (k, ak, areas[("c",) + rule], mp.nstr(exC, 17)))
                if relerr(sk, exS) > tol or abs(sk - areas[("s",) + rule]) > 2 * tol * float(exS):
                    ck.fail("start_corner", case, dict(info0, rule=rule[0], order=rule[1], shift=k, coords="s", symmetric=True),
                            detail="lon/lat input, start corner %d: area=%r, start corner 0: %r, exact=%s"
                            % (k, sk, areas[("s",) + rule], mp.nstr(exS, 17)))
                if abs(ak - sk) > tol * float(exC):
                    ck.fail("coords_path", case, dict(info0, rule=rule[0], order=rule[1], path="function", shift=k, symmetric=True),
                            detail="start corner %d: cart=%r sph=%r" % (k, ak, sk))
    if model_jobs is not None:
        model_jobs.append((case, P, LL, areas))
    return out


# ---------------------------------------------------------------------------------------------
# Grid level

def build_grid(lon, lat, table):
    import uxarray as ux
    return ux.Grid.from_topology(np.array(lon, dtype=float), np.array(lat, dtype=float),
                                 np.array(table, dtype=np.intp), fill_value=FILL)


def faces_grid(rng, k, maxw_extra=None):
    """k disjointly numbered random faces (not a tiling): mixed sizes -> padding layouts"""
    faces = [gen_face(rng) for _ in range(k)]
    nodes, rows = [], []
    for f in faces:
        base = len(nodes)
        nodes += [tuple(p) for p in f["cart"]]
        rows.append(list(range(base, base + f["n"])))
    # random node renumbering
    perm = list(range(len(nodes)))
    rng.shuffle(perm)
    nn = [None] * len(nodes)
    for o, nw in enumerate(perm):
        nn[nw] = nodes[o]
    rows = [[perm[i] for i in r] for r in rows]
    w = max(len(r) for r in rows) + (maxw_extra if maxw_extra is not None else rng.choice([0, 0, 1, 2]))
    table = [r + [FILL] * (w - len(r)) for r in rows]
    return {"kind": "faces_grid", "nodes": [list(p) for p in nn], "table": table, "closed": False}


def geodesic(level):
    """icosahedron with every triangle split into 4, `level` times (nodes pushed to the sphere)"""
    m = meshgen._poly("icosa")
    for _ in range(level):
        mid = {}
        faces = []

        def midpoint(a, b):
            key = (min(a, b), max(a, b))
            if key not in mid:
                pa, pb = m.nodes[a], m.nodes[b]
                m.nodes.append(meshgen._norm(tuple(pa[k] + pb[k] for k in range(3))))
                mid[key] = len(m.nodes) - 1
            return mid[key]
        for (a, b, c) in m.faces:
            ab, bc, ca = midpoint(a, b), midpoint(b, c), midpoint(c, a)
            faces += [[a, ab, ca], [ab, b, bc], [ca, bc, c], [ab, bc, ca]]
        m.faces = faces
    m.name = "geodesic%d" % level
    return m


def cubed_sphere(n):
    """equiangular cubed sphere with n x n quadrilaterals per panel"""
    nodes, index, faces = [], {}, []

    def nid(p):
        p = meshgen._norm(p)
        key = (round(p[0], 9), round(p[1], 9), round(p[2], 9))
        if key not in index:
            index[key] = len(nodes)
            nodes.append(p)
        return index[key]
    frames = [((1, 0, 0), (0, 1, 0), (0, 0, 1)), ((0, 1, 0), (-1, 0, 0), (0, 0, 1)), ((-1, 0, 0), (0, -1, 0), (0, 0, 1)),
              ((0, -1, 0), (1, 0, 0), (0, 0, 1)), ((0, 0, 1), (0, 1, 0), (-1, 0, 0)), ((0, 0, -1), (0, 1, 0), (1, 0, 0))]
    t = [math.tan(-math.pi / 4 + (math.pi / 2) * i / n) for i in range(n + 1)]
    for (c, u, v) in frames:
        def pt(i, j):
            return nid(tuple(c[k] + t[i] * u[k] + t[j] * v[k] for k in range(3)))
        for i in range(n):
            for j in range(n):
                faces.append([pt(i, j), pt(i + 1, j), pt(i + 1, j + 1), pt(i, j + 1)])
    m = meshgen.Mesh(nodes, faces, True, "cubed%d" % n)
    return m.orient()


def tiling_grid(rng, limit):
    """closed tiling whose faces are all convex with diameter <= limit degrees"""
    for _ in range(20):
        if limit >= 60:
            base = rng.choice(["icosa", "geo1", "geo1*", "cubed2", "cubed3"])
        elif limit >= 25:
            base = rng.choice(["geo2", "geo2*", "cubed5"])
        else:
            base = "geo3"
        if base == "icosa":
            m = meshgen._poly("icosa")
        elif base.startswith("geo"):
            m = geodesic(int(base[3]))
            if base.endswith("*"):
                m = meshgen.dual(m)
        else:
            m = cubed_sphere(int(base[5:]))
        ops = []
        for _ in range(rng.randrange(0, 9)):
            op = rng.choice(["split", "subdiv", "stellate"])
            okk = {"split": meshgen.split_face, "subdiv": meshgen.subdivide_edge}.get(op, meshgen.stellate)(m, rng)
            if okk:
                ops.append(op)
        if rng.random() < 0.2:
            meshgen.node_to_pole(m, rng)
            ops.append("pole")
        else:
            meshgen.rotate(m, meshgen.rotation_matrix(rng))
        meshgen.renumber(m, rng)
        meshgen.rotate_starts(m, rng)
        m.name = base + ":" + ",".join(ops)
        polys = [[m.nodes[j] for j in f] for f in m.faces]
        if max(diameter_deg(P) for P in polys) <= limit and all(is_convex(P) for P in polys) \
                and all(3 <= len(f) <= 8 for f in m.faces):
            w = m.width() + rng.choice([0, 0, 1])
            return {"kind": "tiling", "nodes": [list(p) for p in m.nodes], "table": m.table(w), "closed": True,
                    "name": m.name}
    return None


def random_tiling(rng):
    """meshgen tiling of any face size (faces outside the accuracy classes are checked for sign, cache,
    numbering and correspondence only)"""
    m = meshgen.gen_mesh(rng, max_ops=rng.choice([2, 6, 10]), partial=rng.random() < 0.3)
    w = m.width() + rng.choice([0, 0, 1])
    return {"kind": "meshgen", "nodes": [list(p) for p in m.nodes], "table": m.table(w), "closed": bool(m.closed),
            "name": m.name}


def grid_history(rng):
    ops = []
    for _ in range(rng.randrange(0, 5)):
        r = rng.random()
        rule = rng.choice(RULES)
        if r < 0.4:
            ops.append(["compute", rule[0], rule[1], rng.random() < 0.7])
        elif r < 0.6:
            ops.append(["total", rule[0], rule[1]])
        elif r < 0.8:
            ops.append(["face_areas"])
        else:
            ops.append(["face_jacobian"])
    return ops


def z_dropped_symptom(nodes_xyz, table, got, rule, order):
    """does the Cartesian-path result equal what calculate_face_area gives for (x, y, 0)?"""
    try:
        for r, a in zip(table, got):
            idx = [i for i in r if i != FILL]
            ref = impl_area([nodes_xyz[i][0] for i in idx], [nodes_xyz[i][1] for i in idx], [0.0] * len(idx),
                            rule, order, "cartesian")[0]
            if abs(ref - a) > 1e-12 + 1e-9 * abs(ref):
                return False
        return True
    except Exception:
        return False


MUT_TEMPLATES = [
    # (op, args...) ; "D" = the default argument set, "R" = the case's other rule
    [("compute_mut", "D"), ("compute", "D"), ("total", "D"), ("face_areas",)],
    [("compute_mut", "D"), ("face_areas",), ("total", "D")],
    [("face_areas_mut",), ("compute", "D"), ("total", "D"), ("compute", "R")],
    [("compute_mut", "R"), ("compute", "R"), ("total", "R"), ("compute", "D"), ("compute_mut", "D"), ("compute", "D")],
    [("compute_mut", "Rx"), ("compute", "Rx"), ("compute", "R")],
    [("compute", "D"), ("set_coords",), ("compute", "D"), ("total", "D"), ("face_areas",)],
    [("compute_mut", "R"), ("set_coords",), ("compute", "R"), ("compute_mut", "D"), ("total", "D")],
]


def check_mutation_history(ck, case, st, lon, lat, table, rule, default_rule, info0):
    """results must not depend on what the caller did with earlier results, on earlier calls, or on
    stale coordinates: every returned array is edited in place (areas and jacobian), coordinates are
    replaced through the public setters, and each later answer is compared (exactly) with the same
    call on a FRESH grid built from the current coordinates"""
    import xarray as xr
    rng = ck.rng
    tmpl = case.get("mut_history")
    if tmpl is None:
        tmpl = [list(o) for o in rng.choice(MUT_TEMPLATES)]
        for _ in range(rng.randrange(0, 3)):
            tmpl.insert(rng.randrange(len(tmpl) + 1), list(rng.choice([("compute_mut", "D"), ("compute", "R"), ("total", "D"),
                                                                        ("compute_mut", "R"), ("compute", "Rx")])))
        case["mut_history"] = tmpl
    cur = {"lon": list(lon), "lat": list(lat)}
    refs = {}

    def args_of(tag):
        if tag == "D":
            return (default_rule[0], default_rule[1], True)
        if tag == "Rx":
            return (rule[0], rule[1], False)
        return (rule[0], rule[1], True)

    def fresh(a):
        key = (a, tuple(cur["lon"]), tuple(cur["lat"]))
        if key not in refs:
            r = build_grid(cur["lon"], cur["lat"], table).compute_face_areas(*a)
            refs[key] = (np.array(r[0], dtype=float).copy(), np.array(r[1], dtype=float).copy())
        return refs[key]
    g = build_grid(lon, lat, table)
    fa_valid = True          # face_areas comparable: not edited in place, not cached before a coordinate change
    fa_cached = False
    coords_replaced = False
    done = []
    try:
        for op in tmpl:
            done.append(op)
            if op[0] in ("compute", "compute_mut"):
                a = args_of(op[1])
                r = g.compute_face_areas(*a)
                if coords_replaced and not a[2]:
                    continue              # node_x/y/z derived BEFORE the lon/lat replacement are not claimed here (C04/C08)
                want = fresh(a)
                if not (np.array_equal(np.asarray(r[0]), want[0]) and np.array_equal(np.asarray(r[1]), want[1])):
                    ck.fail("cache", case, dict(info0, what="compute_face_areas depends on the history", history="in-place edits / setters"),
                            detail="after %r: compute_face_areas%r = %r, fresh grid: %r" % (done, a, np.asarray(r[0])[:4], want[0][:4]))
                    return
                if op[0] == "compute_mut":
                    r[0][...] = r[0] * 6371.0 ** 2 + 1.0          # the caller's own arrays
                    r[1][...] = -3.0
            elif op[0] == "total":
                a = args_of(op[1])
                tot = float(g.calculate_total_face_area(a[0], a[1]))
                want = float(np.sum(fresh((a[0], a[1], True))[0]))
                if tot != want and abs(tot - want) > 1e-12 * abs(want):
                    ck.fail("cache", case, dict(info0, what="calculate_total_face_area depends on the history", history="in-place edits / setters"),
                            detail="after %r: total%r = %r, fresh grid: %r" % (done, a[:2], tot, want))
                    return
            elif op[0] in ("face_areas", "face_areas_mut"):
                v = g.face_areas.values
                if fa_valid:
                    want = fresh((default_rule[0], default_rule[1], True))[0]
                    if not np.array_equal(np.asarray(v, dtype=float), want):
                        ck.fail("cache", case, dict(info0, what="face_areas depends on the history", history="in-place edits / setters"),
                                detail="after %r: face_areas = %r, fresh default computation: %r" % (done, np.asarray(v)[:4], want[:4]))
                        return
                fa_cached = True
                if op[0] == "face_areas_mut":
                    v[...] = v * 2.0 + 5.0
                    fa_valid = False      # the cache exposes its storage (like every variable xarray holds): not claimed
            else:                         # new node coordinates through the public setters
                cur["lat"] = [x * 0.96 for x in cur["lat"]]
                cur["lon"] = [((x + 11.0 + 180.0) % 360.0) - 180.0 for x in cur["lon"]]
                g.node_lon = xr.DataArray(np.array(cur["lon"], dtype=float), dims=["n_node"])
                g.node_lat = xr.DataArray(np.array(cur["lat"], dtype=float), dims=["n_node"])
                coords_replaced = True
                if fa_cached:
                    fa_valid = False      # a face_areas cached BEFORE the coordinates were replaced is not claimed here
        st.count("mutation_history", " ".join(o[0] for o in tmpl)[:60])
    except Exception as ex:
        ck.fail("raises", case, dict(info0, call="mutation history"), detail="%r after %r" % (ex, done))


PROV_SOURCES = ["face_vertices_xyz", "dataset_xyz", "face_vertices_lonlat"]
PROV_FIRST = ["compute()", "face_areas", "total()", "compute(latlon=False)", "compute(latlon=True)", "node_lon", "node_x"]


def build_provenance(source, R, nodes, LL, table):
    """a fresh Grid holding the same faces but coming from another kind of source: Cartesian-only
    (from_face_vertices(latlon=False) or a node_x/y/z-only dataset, on a sphere of radius R) or
    lon/lat face vertices"""
    import uxarray as ux
    import xarray as xr
    rows = [[i for i in r if i != FILL] for r in table]
    w = len(table[0])
    if source == "face_vertices_xyz":
        fv = np.array([[[c * R for c in nodes[i]] for i in r] + [[FILL] * 3] * (w - len(r)) for r in rows], dtype=float)
        return ux.Grid.from_face_vertices(fv, latlon=False)
    if source == "face_vertices_lonlat":
        fv = np.array([[list(LL[i]) for i in r] + [[FILL] * 2] * (w - len(r)) for r in rows], dtype=float)
        return ux.Grid.from_face_vertices(fv, latlon=True)
    xyz = np.array([[c * R for c in p] for p in nodes], dtype=float)
    ds = xr.Dataset({"node_x": (("n_node",), xyz[:, 0]), "node_y": (("n_node",), xyz[:, 1]), "node_z": (("n_node",), xyz[:, 2]),
                     "face_node_connectivity": (("n_face", "n_max_face_nodes"), np.array(table, dtype=np.intp),
                                                {"_FillValue": FILL, "start_index": 0, "cf_role": "face_node_connectivity"})})
    return ux.Grid.from_dataset(ds, source_grid_spec="Cartesian dataset")


def check_provenance(ck, case, st, nodes, LL, table, exact, tols, convex, ref_default, default_rule, info0):
    """every source/provenance class x every order of first access: the areas a fresh grid reports
    must not depend on which coordinates its source stored, nor on whether node_lon / node_x were
    derived before the first area request (default and explicit latlon)"""
    rng = ck.rng
    plan = case.get("prov")
    if plan is None:
        plan = []
        for src in (["face_vertices_xyz", "dataset_xyz"] if rng.random() < 0.7 else [rng.choice(PROV_SOURCES)]):
            R = rng.choice([1.0, 1.0, 6371.0, 6371229.0, 0.5]) if src != "face_vertices_lonlat" else 1.0
            for first in rng.sample(PROV_FIRST, 3):
                plan.append([src, R, first])
        case["prov"] = plan
    nf = len(table)
    rows = [[i for i in r if i != FILL] for r in table]
    # relative area noise of lon/lat DERIVED from Cartesian coordinates: _xyz_to_lonlat_rad snaps every node
    # with |z| > 1 - 1e-8 (colatitude < 1.4e-4 rad, ~900 m) onto the pole and uses arcsin(z) (absolute error
    # ~eps / colatitude); that is C04's business -- faces it touches are not judged here (infinite noise
    # inside the snap zone)
    polar_noise = []
    for f in range(nf):
        PP = [nodes[i] for i in rows[f]]
        colat = min(math.atan2(math.hypot(q[0], q[1]), abs(q[2])) for q in PP)
        if colat < 2.0e-4:
            polar_noise.append(float("inf"))
        else:
            per = sum(vangle(PP[i], PP[(i + 1) % len(PP)]) for i in range(len(PP)))
            polar_noise.append(8 * 2.2e-16 / colat * per / max(float(exact[f]), 1e-300))
    for src, R, first in plan:
        info = {"level": "grid", "provenance": src, "first_access": first, "unit_radius": bool(R == 1.0)}
        got = {}
        try:
            g = build_provenance(src, R, nodes, LL, table)
            if first == "compute()":
                got["compute()"] = np.array(g.compute_face_areas()[0], dtype=float)
            elif first == "face_areas":
                got["face_areas"] = np.array(g.face_areas.values, dtype=float)
            elif first == "total()":
                got["total()"] = float(g.calculate_total_face_area())
            elif first == "compute(latlon=False)":
                got["compute(latlon=False)"] = np.array(g.compute_face_areas(latlon=False)[0], dtype=float)
            elif first == "compute(latlon=True)":
                got["compute(latlon=True)"] = np.array(g.compute_face_areas(default_rule[0], default_rule[1], True)[0], dtype=float)
            elif first == "node_lon":
                _ = g.node_lon.values, g.node_lat.values
            else:
                _ = g.node_x.values, g.node_y.values, g.node_z.values
            # ... and afterwards everything again on the same object
            got.setdefault("compute()", np.array(g.compute_face_areas()[0], dtype=float))
            got["later compute(latlon=False)"] = np.array(g.compute_face_areas(latlon=False)[0], dtype=float)
            got["later face_areas"] = np.array(g.face_areas.values, dtype=float)
            got["later total()"] = float(g.calculate_total_face_area())
        except Exception as ex:
            ck.fail("raises", case, dict(info, call="provenance"), detail="%r after %r" % (ex, list(got)))
            continue
        st.count("provenance", "%s / first %s%s" % (src, first, "" if R == 1.0 else " / R != 1"))
        for name, val in got.items():
            if isinstance(val, float):
                want = float(np.sum(ref_default))
                tmax = max([t for t in tols if t is not None] or [1e-2])
                if all(convex) and all(t is not None for t in tols) and (src == "face_vertices_lonlat" or max(polar_noise) < 1e-3) \
                        and abs(val - want) > tmax * abs(want):
                    ck.fail("coords_path", case, dict(info, what=name), detail="%s = %r, lon/lat topology grid: %r" % (name, val, want))
                continue
            if val.shape != (nf,):
                ck.fail("coords_path", case, dict(info, what=name), detail="shape %r" % (val.shape,))
                continue
            for f in range(nf):
                if not (convex[f] and tols[f] is not None and exact[f] > 0):
                    continue
                if src != "face_vertices_lonlat" and polar_noise[f] > 0.1 * tols[f]:
                    continue          # not claimed here: lon/lat derived from xyz next to a pole (C04: snap zone, arcsin)
                if abs(val[f] - ref_default[f]) > tols[f] * float(exact[f]) or relerr(val[f], exact[f]) > tols[f]:
                    ck.fail("coords_path", case, dict(info, what=name),
                            detail="face %d: %s = %r, lon/lat topology grid: %r, exact %s"
                            % (f, name, val[f], ref_default[f], mp.nstr(exact[f], 15)))
                    break
                PP = [nodes[i] for i in rows[f]]
                d = abs(val[f] - ref_default[f]) / float(exact[f])
                if d > max(TIGHT, noise_floor(PP, exact[f]), 0.0 if src == "face_vertices_lonlat" else polar_noise[f]):
                    ck.corr_failures.append({"what": "provenance changes an area beyond float noise (model: C05_coords_grid)",
                                             "case": case, "provenance": [src, R, first], "what2": name, "face": f,
                                             "got": float(val[f]), "ref": float(ref_default[f])})
                    break


def check_grid(ck, case, st, default_rule, model_jobs=None):
    rng = ck.rng
    nodes = [tuple(p) for p in case["nodes"]]
    table = case["table"]
    LL = [tuple(q) for q in case["lonlat"]] if case.get("lonlat") else [to_lonlat(p) for p in nodes]
    lon, lat = [p[0] for p in LL], [p[1] for p in LL]
    rows = [[i for i in r if i != FILL] for r in table]
    info0 = {"level": "grid", "gkind": case["kind"]}
    exact = [exact_area([mp_from_lonlat(*LL[i]) for i in r]) for r in rows]
    diams = [diameter_deg([nodes[i] for i in r]) for r in rows]
    tols = [class_of(d)[1] for d in diams]
    convex = [is_convex([nodes[i] for i in r]) for r in rows]
    try:
        g = build_grid(lon, lat, table)
        fresh = build_grid(lon, lat, table)
        ref_default = np.array(fresh.compute_face_areas()[0], dtype=float).copy()
    except Exception as ex:
        ck.fail("raises", case, dict(info0, call="Grid.from_topology/compute_face_areas"), detail=repr(ex))
        return
    nf = len(rows)
    # per-face accuracy of the default rule through the Grid (lon/lat path)
    for f in range(nf):
        if not (ref_default[f] >= 0.0):
            ck.fail("nonneg", case, dict(info0, face=f), detail="area=%r" % ref_default[f])
        if convex[f] and tols[f] is not None and exact[f] > 0:
            e = relerr(ref_default[f], exact[f])
            st.err(class_of(diams[f])[0], ("grid-" + default_rule[0], default_rule[1]), e)
            if e > tols[f]:
                ck.fail("accuracy_default", case, dict(info0, face=f), detail="relerr=%g tol=%g diam=%g" % (e, tols[f], diams[f]))
    # history of area operations, then the cached face_areas must equal the fresh default computation
    hist = case.get("history")
    if hist is None:
        hist = grid_history(rng)
        case["history"] = hist
    try:
        for op in hist:
            if op[0] == "compute":
                got = np.array(g.compute_face_areas(op[1], op[2], op[3])[0], dtype=float)
                ref = np.array(build_grid(lon, lat, table).compute_face_areas(op[1], op[2], op[3])[0], dtype=float)
                if not np.array_equal(got, ref):
                    ck.fail("cache", case, dict(info0, what="compute_face_areas depends on history", op=op[1]),
                            detail="got=%r fresh=%r" % (got[:5], ref[:5]))
            elif op[0] == "total":
                got = float(g.calculate_total_face_area(op[1], op[2]))
                ref = float(np.sum(build_grid(lon, lat, table).compute_face_areas(op[1], op[2])[0]))
                if abs(got - ref) > 1e-12 * abs(ref):
                    ck.fail("total_sum", case, dict(info0, rule=op[1], order=op[2]), detail="total=%r sum=%r" % (got, ref))
            elif op[0] == "face_areas":
                got = np.array(g.face_areas.values, dtype=float)
                if not np.array_equal(got, ref_default):
                    ck.fail("cache", case, dict(info0, what="face_areas inside history"), detail="got=%r fresh=%r" % (got[:5], ref_default[:5]))
            else:
                try:                      # not a C05 clause: on a fresh grid the attribute does not exist yet
                    _ = g.face_jacobian
                except AttributeError:
                    st.count("face_jacobian", "AttributeError on a grid without a previous area computation")
        got = np.array(g.face_areas.values, dtype=float)
        if got.shape != ref_default.shape or not np.array_equal(got, ref_default):
            ck.fail("cache", case, dict(info0, what="face_areas after history"), detail="hist=%r got=%r fresh=%r" % (hist, got[:5], ref_default[:5]))
        got2 = np.array(g.face_areas.values, dtype=float)
        if not np.array_equal(got2, ref_default):
            ck.fail("cache", case, dict(info0, what="second read"), detail="")
    except Exception as ex:
        ck.fail("raises", case, dict(info0, call="history"), detail=repr(ex) + " hist=%r" % (hist,))
    # one more rule through the grid: lon/lat vs Cartesian node input, total
    rule = case.get("rule") or list(rng.choice([default_rule] + GOOD_RULES))
    case["rule"] = rule
    rule = tuple(rule)
    try:
        a_ll = np.array(g.compute_face_areas(rule[0], rule[1], True)[0], dtype=float)
    except Exception as ex:
        ck.fail("raises", case, dict(info0, call="compute_face_areas"), detail=repr(ex))
        return
    check_mutation_history(ck, case, st, lon, lat, table, rule, default_rule, info0)
    if nf <= 200:
        check_provenance(ck, case, st, nodes, LL, table, exact, tols, convex, ref_default, default_rule, info0)
    try:
        a_xyz = np.array(g.compute_face_areas(rule[0], rule[1], False)[0], dtype=float)
        xyz = list(zip(g.node_x.values.tolist(), g.node_y.values.tolist(), g.node_z.values.tolist()))
        bad = [f for f in range(nf) if convex[f] and tols[f] is not None
               and abs(a_xyz[f] - a_ll[f]) > tols[f] * float(exact[f])]
        if bad:
            sym = "z_dropped" if z_dropped_symptom(xyz, table, a_xyz, rule[0], rule[1]) else "other"
            ck.fail("coords_path", case, {"level": "grid", "path": "Grid.compute_face_areas(latlon=False)", "symptom": sym},
                    detail="face %d: lonlat=%r cartesian=%r" % (bad[0], a_ll[bad[0]], a_xyz[bad[0]]))
    except Exception as ex:
        # a node on a pole becomes the zero vector when z is dropped (1/sqrt(0) at a Lobatto end point):
        # the same defect as the z_dropped finding if the function-level call on (x, y, 0) raises alike
        # while the call on (x, y, z) does not
        sym = "other"
        try:
            xyz = list(zip(g.node_x.values.tolist(), g.node_y.values.tolist(), g.node_z.values.tolist()))
            same = False
            for r in rows:
                full_ok = True
                try:
                    impl_area([xyz[i][0] for i in r], [xyz[i][1] for i in r], [xyz[i][2] for i in r], rule[0], rule[1], "cartesian")
                except Exception:
                    full_ok = False
                try:
                    impl_area([xyz[i][0] for i in r], [xyz[i][1] for i in r], [0.0] * len(r), rule[0], rule[1], "cartesian")
                except Exception as ex2:
                    if type(ex2) is type(ex) and full_ok:
                        same = True
            if same:
                sym = "z_dropped"
        except Exception:
            pass
        if sym == "z_dropped":
            ck.fail("coords_path", case, {"level": "grid", "path": "Grid.compute_face_areas(latlon=False)", "symptom": sym},
                    detail="raises %r instead of returning the lon/lat areas" % (ex,))
        else:
            ck.fail("raises", case, dict(info0, call="compute_face_areas(latlon=False)"), detail=repr(ex))
        a_xyz = None
    # renumbering of nodes and faces, new starting corners: same areas
    try:
        nperm = list(range(len(nodes)))
        rng.shuffle(nperm)
        lon2, lat2 = [0.0] * len(nodes), [0.0] * len(nodes)
        for o, nw in enumerate(nperm):
            lon2[nw], lat2[nw] = lon[o], lat[o]
        fperm = list(range(nf))
        rng.shuffle(fperm)                     # new face i is old face fperm[i]
        w = len(table[0])
        t2 = []
        for i in range(nf):
            r = [nperm[x] for x in rows[fperm[i]]]
            t2.append(r + [FILL] * (w - len(r)))
        g2 = build_grid(lon2, lat2, t2)
        b = np.array(g2.compute_face_areas(rule[0], rule[1], True)[0], dtype=float)
        for i in range(nf):
            f = fperm[i]
            if convex[f] and tols[f] is not None and abs(b[i] - a_ll[f]) > tols[f] * float(exact[f]):
                ck.fail("numbering", case, dict(info0, rule=rule[0], order=rule[1]),
                        detail="face %d -> %d: %r vs %r" % (f, i, a_ll[f], b[i]))
            if b[i] != a_ll[f]:
                st.dev("renumber", abs(b[i] - a_ll[f]) / max(float(exact[f]), 1e-300))
                if abs(b[i] - a_ll[f]) > 1e-12 * abs(a_ll[f]):
                    ck.corr_failures.append({"what": "renumbering changes an area (model: identical, C05_renumber)",
                                             "case": case, "face": f, "a": a_ll[f], "b": b[i]})
    except Exception as ex:
        ck.fail("raises", case, dict(info0, call="renumbered grid"), detail=repr(ex))
    # closed tilings: the areas add up to 4 pi to the accuracy of the coarsest face
    if case.get("closed") and all(convex) and all(t is not None for t in tols):
        tot = float(g.calculate_total_face_area(default_rule[0], default_rule[1]))
        tmax = max(tols)
        e = abs(tot - 4 * math.pi) / (4 * math.pi)
        st.dev("tiling_total_relerr", e)
        if e > tmax:
            ck.fail("total_4pi", case, dict(info0, rule=default_rule[0]), detail="total=%r relerr=%g tol=%g" % (tot, e, tmax))
        tt = float(g.calculate_total_face_area("gaussian", 10))
        if abs(tt - 4 * math.pi) / (4 * math.pi) > CONV_TOL[class_of(max(diams))[0]]:
            ck.fail("converge", case, dict(info0, family="gaussian", what="tiling total"), detail="total=%r" % tt)
    if model_jobs is not None and nf <= 12:
        model_jobs.append((case, LL, rule, a_ll, a_xyz, g))


def model_line_grid(LL, xyz, table, rule, order, latlon, fixdim=0):
    rows = [[i for i in r if i != FILL] for r in table]
    return sx([fixdim, 0 if rule == "gaussian" else 1, order, 1 if latlon else 0, conv_table(LL),
               [[fx(p[0]), fx(p[1]), 0] for p in LL], [[fx(p[0]), fx(p[1]), fx(p[2])] for p in xyz],
               table, [len(r) for r in rows]])


# ---------------------------------------------------------------------------------------------
# tie of the generated tables to what the real functions return

def check_tables(ck):
    from uxarray.grid.area import get_gauss_quadratureDG, get_tri_quadratureDG
    lines = [sx([0, n]) for n in GAUSS] + [sx([1, n]) for n in TRI]
    res = ck.run_model("c05_table", lines)
    n_ok = 0
    for (kind, n), r in zip([(0, n) for n in GAUSS] + [(1, n) for n in TRI], res):
        if r is None:
            ck.corr_failures.append({"what": "model has no table", "kind": kind, "order": n})
            continue
        den, pts, ws = r
        if kind == 0:
            dG, dW = get_gauss_quadratureDG(n)
            got_p = [float(x) for x in np.asarray(dG)[0]]
            want_p = [Fraction(p, den) for p in pts]
        else:
            dG, dW = get_tri_quadratureDG(n)
            got_p = [float(x) for row in np.asarray(dG) for x in row]
            want_p = [Fraction(x, den) for p in pts for x in p]
        got_w = [float(x) for x in np.asarray(dW)]
        want_w = [Fraction(w, den) for w in ws]
        ok = len(got_p) == len(want_p) and len(got_w) == len(want_w) and \
            all(abs(Fraction(a) - b) <= Fraction(1, 10 ** 15) for a, b in zip(got_p + got_w, want_p + want_w))
        if not ok:
            ck.corr_failures.append({"what": "runtime table differs from the generated one", "kind": kind, "order": n,
                                     "got": (got_p[:4], got_w[:4])})
        else:
            n_ok += 1
    d = ck.run_model("c05_defaults", ["()"])[0]
    return n_ok, d


# ---------------------------------------------------------------------------------------------

def run_models(ck, face_jobs, grid_jobs, st, budget_pts, dim3=True):
    """fixed-point model vs implementation on a sample bounded by the number of quadrature points"""
    rng = ck.rng
    lines, meta = [], []
    used = 0

    def cost(rule, ntri):
        if rule[0] == "triangular":
            return ntri * {1: 1, 4: 6, 8: 16, 10: 25, 12: 33}[rule[1]]
        return ntri * rule[1] * rule[1]
    glines, gmeta, zdrop_bad = [], [], []
    for case, LL, rule, a_ll, a_xyz, g in grid_jobs:
        ntri = sum(max(0, sum(1 for i in r if i != FILL) - 2) for r in case["table"])
        c = cost(rule, ntri)
        if used + 2 * c > 0.4 * budget_pts:
            continue
        if min(diameter_deg([tuple(case["nodes"][i]) for i in r if i != FILL]) for r in case["table"]) < MODEL_MIN_DIAM:
            continue
        used += 2 * c
        xyz = list(zip(g.node_x.values.tolist(), g.node_y.values.tolist(), g.node_z.values.tolist()))
        glines.append(model_line_grid(LL, xyz, case["table"], rule[0], rule[1], True))
        gmeta.append(("grid-lonlat", case, rule, a_ll))
        if a_xyz is not None:
            # the code's `dim` choice on the Cartesian path: both model variants are evaluated and the
            # implementation has to agree with ONE of them on every case (recorded in the evidence)
            # the model variant generated from the source (c05_dim_cartesian3).  dim = 3 is compared
            # numerically; the dim = 2 variant is mathematically 0 (float noise in the implementation),
            # so it would be tied through the dataflow instead: result = function-level call on
            # (x, y, 0)  (theorem C05_coords_grid_dim2_drops_z)
            if dim3:
                glines.append(model_line_grid(LL, xyz, case["table"], rule[0], rule[1], False, fixdim=1))
                gmeta.append(("grid-xyz", case, rule, a_xyz))
            elif not z_dropped_symptom(xyz, case["table"], a_xyz, rule[0], rule[1]):
                zdrop_bad.append({"what": "source says dim = 2 on the Cartesian path, but the result is not the "
                                          "z-dropped dataflow", "case": case, "rule": rule})
    for case, P, LL, areas in face_jobs:
        if diameter_deg(P) < MODEL_MIN_DIAM:
            continue
        for rule in [("triangular", 4), rng.choice(RULES)]:
            c = cost(rule, len(P) - 2)
            if used + 2 * c > budget_pts:
                continue
            used += 2 * c
            lines.append(model_line_cart(P, *rule))
            meta.append(("face-cart", case, rule, areas[("c",) + rule]))
            lines.append(model_line_sph(LL, *rule))
            meta.append(("face-sph", case, rule, areas[("s",) + rule]))
    res = run_model_par(ck, "c05_area", lines)
    n = 0
    for (what, case, rule, a), r in zip(meta, res):
        n += 1
        if r is None or (isinstance(r, list) and r and r[0] == "ERR"):
            ck.corr_failures.append({"what": "model raised", "case": case, "rule": rule, "model": r})
            continue
        ma = mp.mpf(r[0]) / S
        d = float(abs(ma - mp.mpf(a)) / max(abs(ma), mp.mpf(10) ** -300))
        PP = [tuple(q) for q in case["cart"]]
        st.dev("model_vs_impl(" + what + ")", d if diameter_deg(PP) >= 0.01 else 0.0)
        if d > max(MODEL_TOL, noise_floor(PP, abs(ma))):
            ck.corr_failures.append({"what": "model/implementation differ: " + what, "case": case, "rule": rule,
                                     "impl": a, "model": mp.nstr(ma, 20)})
    gres = run_model_par(ck, "c05_grid", glines)
    for (what, case, rule, arr), r in zip(gmeta, gres):
        n += 1
        if r is None or (isinstance(r, list) and r and r[0] == "ERR") or len(r) != len(arr):
            ck.corr_failures.append({"what": "model raised / shape: " + what, "case": case, "rule": rule, "model": str(r)[:200]})
            continue
        grows = [[i for i in rr if i != FILL] for rr in case["table"]]
        for f, (pair, a) in enumerate(zip(r, arr)):
            ma = mp.mpf(pair[0]) / S
            PP = [tuple(case["nodes"][i]) for i in grows[f]]
            d = float(abs(ma - mp.mpf(float(a))) / abs(ma)) if ma != 0 else (0.0 if float(a) == 0.0 else 1.0)
            st.dev("model_vs_impl(" + what + ")", d if diameter_deg(PP) >= 0.01 else 0.0)
            if d > max(MODEL_TOL, noise_floor(PP, abs(ma))):
                ck.corr_failures.append({"what": "model/implementation differ: " + what, "case": case, "rule": rule,
                                         "face": f, "impl": float(a), "model": mp.nstr(ma, 20)})
                break
    ck.corr_failures += zdrop_bad[:1]
    ck.extra["cartesian_path_model_variant"] = ("dim = 3 on the Cartesian path (generated from grid.py: `dim = 2 if latlon else 3`)"
                                                if dim3 else "dim = 2 on the Cartesian path (generated from grid.py): z dropped")
    return n, lines


def gen_cases(ck):
    rng = ck.rng
    quick = ck.tier == "quick"
    cases = []
    cdir = os.path.join(common.VERIF, "corpus", "C05")
    if os.path.isdir(cdir):
        for fn in sorted(os.listdir(cdir)):
            cases.append(json.load(open(os.path.join(cdir, fn))))
    # fixed seeds of the classic shapes: octant triangle, polar cap square, antimeridian quad
    cases.append({"kind": "face", "n": 3, "shape": "octant", "place": "fixed",
                  "cart": [[1.0, 0.0, 0.0], [0.0, 1.0, 0.0], [0.0, 0.0, 1.0]]})
    cases.append({"kind": "face", "n": 4, "shape": "cap", "place": "fixed",
                  "cart": [list(vnorm((math.cos(a), math.sin(a), 2.0))) for a in (0.3, 1.9, 3.4, 5.0)]})
    cases.append({"kind": "face", "n": 4, "shape": "amquad", "place": "fixed",
                  "cart": [list(vnorm((math.cos(math.radians(lo)) * math.cos(math.radians(la)),
                                       math.sin(math.radians(lo)) * math.cos(math.radians(la)),
                                       math.sin(math.radians(la))))) for lo, la in ((170, -10), (-170, -10), (-170, 12), (170, 12))]})
    for _ in range(420 if quick else 6000):
        cases.append(gen_face(rng))
    for _ in range(40 if quick else 600):
        cases.append(gen_symmetric_face(rng))
    meshes = [(12, 5), (16, 7), (20, 9), (36, 5)]
    for i in range(4 if quick else 16):
        nlon, nlat = meshes[i % 4] if quick else rng.choice(meshes)
        cases.append(latlon_mesh(rng, nlon, nlat, i % 4))
    for _ in range(24 if quick else 400):
        cases.append(faces_grid(rng, rng.choice([1, 2, 3, 5, 8])))
    for _ in range(8 if quick else 120):
        cases.append(random_tiling(rng))
    for _ in range(8 if quick else 60):
        t = tiling_grid(rng, rng.choice([64.9, 64.9, 29.9]) if quick else rng.choice([64.9, 64.9, 29.9, 29.9, 9.95]))
        if t:
            cases.append(t)
    return cases


def main(ck):
    import time
    t0 = time.time()
    phase = {}
    ck.check_props()
    ok = ck.build_driver()
    phase["coq+driver"] = round(time.time() - t0, 1)
    st = Stats()
    default_rule = ("triangular", 4)
    dim3 = True           # `dim` on the Cartesian path, as generated from grid.py (c05_dim_cartesian3)
    n_tab = 0
    if ok:
        try:
            n_tab, d = check_tables(ck)
            default_rule = ("triangular" if d[0] == 1 else "gaussian", int(d[1]))
            if d[2] != 1:
                ck.corr_failures.append({"what": "default latlon is not True"})
            dim3 = bool(d[3])
        except Exception as ex:
            ck.proof["errors"].append("table tie failed: %r" % (ex,))
    t1 = time.time()
    cases = gen_cases(ck)
    phase["generate"] = round(time.time() - t1, 1)
    t1 = time.time()
    ck.cov["rule"] = ("corpus + 3 fixed faces + random convex spherical polygons (3..8 corners; gnomonic hulls, thin, "
                      "regular, cocircular, with a 180-degree corner; diameter classes <=10/<=30/<=65/<=85 degrees incl. "
                      "the class limits; placed at random / pole inside / corner on a pole / edge over a pole / across "
                      "the antimeridian / prime meridian; random starting corner) through calculate_face_area for all "
                      "15 rules x 2 coordinate inputs; grids of unrelated faces (padding layouts, shuffled numbering) "
                      "+ faces symmetric about the equator / a meridian plane listed from the SW corner (every start "
                      "corner, both inputs) + km-scale faces down to 1e-4 degrees + latitude-longitude meshes with an "
                      "equator-centred row (start corner shifted 0..3, not rotated) "
                      "and closed tilings refined to the class limit through Grid.compute_face_areas/face_areas/"
                      "calculate_total_face_area, also rebuilt as Cartesian-only sources (from_face_vertices(latlon=False), node_x/y/z-only dataset, unit and non-unit radius) with every kind of first access, with random call histories, incl. histories that edit every returned array in place and replace node coordinates through the setters; non-trivial = every case (>=3 corners, "
                      "positive area); distinct = distinct corner coordinates")
    face_jobs, grid_jobs = [], []
    for idx, c in enumerate(cases):
        if c["kind"] == "face":
            ck.note_case(c["cart"], True)
            st.count("shape", c["shape"])
            st.count("place", c["place"])
            st.count("corners", c["n"])
            r = check_face(ck, c, st, default_rule, face_jobs)
            st.count("class", class_of(r["diam"])[0])
            if idx % 97 == 0:
                ck.sample({"kind": "face", "shape": c["shape"], "place": c["place"], "diameter_deg": round(r["diam"], 4),
                           "lonlat": [[round(x, 6) for x in to_lonlat(p)] for p in c["cart"]],
                           "relerr_default": r.get("err_default")})
        else:
            ck.note_case((c["nodes"], c["table"]), True)
            st.count("grid", c["kind"])
            st.count("grid_faces", len(c["table"]))
            check_grid(ck, c, st, default_rule, grid_jobs)
            if c["kind"] == "tiling" and len(ck.cov["samples"]) < 6:
                ck.sample({"kind": "tiling", "name": c.get("name"), "n_face": len(c["table"]), "history": c.get("history")})
    phase["implementation+oracle"] = round(time.time() - t1, 1)
    t1 = time.time()
    n_model = 0
    audit_n = 0
    if ok:
        try:
            n_model, lines = run_models(ck, face_jobs, grid_jobs, st, 22000 if ck.tier == "quick" else 400000, dim3)
            # extraction audit: the same model evaluated by the kernel on a few single-triangle cases
            small = [l for l in lines if l.startswith("(1 4 0 () ") and l.count("(") <= 7][:4]
            if small:
                hdr = "From Verif Require Import Base C05.\nOpen Scope Z_scope."
                exprs = []
                for l in small:
                    v = common.parse_sx(l)
                    nodes = "; ".join("(%d, %d, %d)" % tuple(p) for p in v[4])
                    exprs.append("Eval vm_compute in (c05_fx_face_area 1 4 false [] [%s])." % nodes.replace("-", "-"))
                rc, out = ck.audit_vm(exprs, hdr)
                if rc != 0:
                    ck.proof["errors"].append("in-kernel audit failed: " + out[-800:])
                else:
                    import re
                    got = re.findall(r"Some\s*\(\s*(-?\d+),\s*(-?\d+)\)", out.replace("\n", " "))
                    ext = ck.run_model("c05_area", small)
                    for gk, e in zip(got, ext):
                        if [int(gk[0]), int(gk[1])] != [e[0], e[1]]:
                            ck.proof["errors"].append("extraction audit mismatch: kernel %s vs extracted %s" % (gk, e))
                        audit_n += 1
                    if len(got) != len(small):
                        ck.proof["errors"].append("extraction audit: %d answers for %d cases" % (len(got), len(small)))
        except Exception as ex:
            ck.proof["errors"].append("model run failed: %r" % (ex,))
    phase["model+audit"] = round(time.time() - t1, 1)
    # proof or correspondence broken: search harder for an input on which the property itself fails
    if (ck.proof["errors"] or ck.corr_failures) and not any(v["kind"] == "counterexample" for v in ck.violations):
        extra = 0
        for _ in range(3000 if ck.tier == "quick" else 20000):
            c = gen_face(ck.rng)
            ck.note_case(c["cart"], True)
            check_face(ck, c, st, default_rule, None)
            extra += 1
            if any(v["kind"] == "counterexample" for v in ck.violations):
                break
        ck.extra["deeper_search_cases"] = extra
    ck.extra.update({
        "phase_seconds": phase,
        "distribution": st.hist,
        "worst_relative_error_by_class_and_rule": {k: float("%.3g" % v) for k, v in sorted(st.worst.items())},
        "tight_comparisons_worst_deviation": {k: float("%.3g" % v) for k, v in sorted(st.tight.items())},
        "model_vs_impl_cases": n_model, "extraction_audit_cases": audit_n, "runtime_tables_tied": n_tab,
        "tolerances": {"accuracy(default rule)": {"<=10deg": 1e-6, "<=30deg": 1e-4, "<=65deg": 1e-2},
                       "converge(top order)": {"<=10deg": 1e-10, "<=30deg": 1e-9, "<=65deg": 1e-6},
                       "invariances (spec)": "class tolerance", "invariances (tie to the exact-arithmetic theorems)": TIGHT,
                       "model vs implementation": MODEL_TOL, "table moments (Coq)": 5e-15},
        "clauses_checked_on_impl": ["nonneg", "accuracy_default", "converge", "coords_path", "start_corner",
                                    "rigid_rotation", "additivity", "numbering", "cache", "total_sum", "total_4pi", "raises"],
        "partial": "accuracy classes, convergence, start-corner independence and additivity over non-fan cuts are "
                   "numerical facts validated against the exact spherical excess (not proved); float rounding is bounded "
                   "empirically by the stated tolerances",
    })
    ck.trusted += ["harness/translators/c05_tables.py (fail-closed ast translator of the literal tables and defaults)",
                   "mpmath 50-digit oracle for the spherical excess and for lon/lat -> xyz",
                   "fixed-point (2^-100, floor) instance of the model stands for the real-number instance (rounding not proved); it is compared with the implementation on faces >= 0.01 degrees across only (sub-km faces: exact oracle only)",
                   "numpy/numba float64 arithmetic of the implementation (deviation bounded by the stated tolerances)"]
    ck.assumptions += ["faces are convex with 3..8 corners and edges < 90 degrees (the property's quantifier); non-convex "
                       "faces of generated tilings are only checked for sign, cache and correspondence",
                       "sources that supply their own areas (MPAS areaCell) are C01's business (DESIGN appendix E)",
                       "Cartesian-only sources: faces with a corner within 2e-4 rad of a pole (the snap zone of _xyz_to_lonlat_rad) and "
                       "sub-km faces so close to a pole that arcsin(z) noise reaches a tenth of the class tolerance are not judged in "
                       "the provenance comparison (C04 owns the conversion)"]


def replay(ck, rp):
    c = rp["case"]
    st = Stats()
    ck.note_case("replay")
    ck.note_case(json.dumps(c, sort_keys=True, default=str)[:200])
    if c.get("kind") == "face":
        check_face(ck, c, st, ("triangular", 4), None)
    else:
        check_grid(ck, c, st, ("triangular", 4), None)
