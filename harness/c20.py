"""C20 — grid equality distinguishes any difference in coordinates or connectivity.

Proof: coq/Props/C20_props.v; the decision formula is regenerated from Grid.__eq__/__ne__ by
harness/translators/c20_eq.py on every run (theorem C20_formula re-checked against it).
Tie for the atoms: pairs of real grids differing in exactly one entry / count / format are compared
with `==`, `!=` and the model on the same data.
"""
import json
import math
from fractions import Fraction

import numpy as np

import common
import meshgen
from common import FILL, sx

SPECS = {"User Defined Topology": 1, "UGRID": 2, "MPAS": 3, "Exodus": 4, "Scrip": 5}


def mk_grid(lon, lat, table, spec="User Defined Topology"):
    import uxarray as ux
    import xarray as xr
    ds = xr.Dataset()
    ds["node_lon"] = xr.DataArray(np.array(lon, dtype=float), dims=["n_node"])
    ds["node_lat"] = xr.DataArray(np.array(lat, dtype=float), dims=["n_node"])
    ds["face_node_connectivity"] = xr.DataArray(np.array(table, dtype=np.intp), dims=["n_face", "n_max_face_nodes"])
    return ux.Grid(ds, source_grid_spec=spec)


def grid_data(g):
    lon = [Fraction(float(x)) for x in g.node_lon.values]
    lat = [Fraction(float(x)) for x in g.node_lat.values]
    conn = [[int(x) for x in r] for r in g.face_node_connectivity.values]
    return (SPECS.get(g.source_grid_spec, 99), lon, lat, conn)


def to_sx(d):
    return [d[0], [[f.numerator, f.denominator] for f in d[1]], [[f.numerator, f.denominator] for f in d[2]], d[3]]


def expected(a, b):
    """the property's `iff`, evaluated on the data the two grids report"""
    return a[0] == b[0] and a[1] == b[1] and a[2] == b[2] and a[3] == b[3]


def variants(rng, lon, lat, table):
    """(kind, lon, lat, table, spec) each differing from the base in exactly one thing"""
    n, nf, w = len(lon), len(table), len(table[0])
    out = [("identical", lon, lat, table, None)]
    i = rng.randrange(n)
    for name, delta in (("lon_ulp", None), ("lon_big", 7.25)):
        l2 = list(lon)
        l2[i] = float(np.nextafter(lon[i], 1000.0)) if delta is None else (lon[i] + delta if lon[i] + delta < 180 else lon[i] - delta)
        out.append((name, l2, lat, table, None))
    i = rng.randrange(n)
    for name, delta in (("lat_ulp", None), ("lat_big", 3.5)):
        l2 = list(lat)
        l2[i] = float(np.nextafter(lat[i], 1000.0)) if delta is None else (lat[i] + delta if lat[i] + delta < 90 else lat[i] - delta)
        out.append((name, lon, l2, table, None))
    # one connectivity entry: to another node, to fill, from fill to a node
    f, j = rng.randrange(nf), rng.randrange(w)
    t2 = [list(r) for r in table]
    old = t2[f][j]
    cand = [x for x in range(n) if x != old] + ([FILL] if old != FILL else [])
    t2[f][j] = rng.choice(cand)
    out.append(("conn_entry", lon, lat, t2, None))
    # last entry of last row (boundary of the array)
    t3 = [list(r) for r in table]
    t3[-1][-1] = 0 if t3[-1][-1] != 0 else 1
    out.append(("conn_last_entry", lon, lat, t3, None))
    # first entry
    t4 = [list(r) for r in table]
    t4[0][0] = (t4[0][0] + 1) % n
    out.append(("conn_first_entry", lon, lat, t4, None))
    # counts
    out.append(("extra_node", list(lon) + [12.5], list(lat) + [-33.0], table, None))
    out.append(("extra_face", lon, lat, [list(r) for r in table] + [list(table[0])], None))
    out.append(("extra_column", lon, lat, [list(r) + [FILL] for r in table], None))
    if nf > 1:
        out.append(("swapped_faces", lon, lat, [list(table[1]), list(table[0])] + [list(r) for r in table[2:]], None))
        out.append(("one_face_less", lon, lat, [list(r) for r in table[:-1]], None))
    if n > 1 and (lon[0] != lon[1]):
        l2 = list(lon)
        l2[0], l2[1] = l2[1], l2[0]
        out.append(("swapped_lon_values", l2, lat, table, None))
    out.append(("format", lon, lat, table, "MPAS"))
    # only the last longitude / only the last latitude
    l2 = list(lon); l2[-1] = lon[-1] + 0.001 if lon[-1] < 179 else lon[-1] - 0.001
    out.append(("lon_last", l2, lat, table, None))
    l2 = list(lat); l2[0] = lat[0] + 0.001 if lat[0] < 89 else lat[0] - 0.001
    out.append(("lat_first", lon, l2, table, None))
    return out


def eval_pair(ck, g, h, kind, results, lines):
    a, b = grid_data(g), grid_data(h)
    try:
        eq, ne, eqs = (g == h), (g != h), (h == g)
    except Exception as ex:
        ck.fail("raises", {"kind": kind, "g": to_sx(a), "h": to_sx(b)}, {"kind": kind}, detail=repr(ex))
        return
    exp = expected(a, b)
    case = {"kind": kind, "g": to_sx(a), "h": to_sx(b)}
    if not isinstance(eq, (bool, np.bool_)) or not isinstance(ne, (bool, np.bool_)):
        ck.fail("not_boolean", case, {"kind": kind}, detail=repr((eq, ne)))
        return
    if bool(eq) != exp:
        ck.fail("eq_iff" if exp else "distinguishes_" + kind, case, {"kind": kind}, detail="== returned %r, expected %r" % (eq, exp))
    if bool(ne) != (not bool(eq)):
        ck.fail("ne_negation", case, {"kind": kind}, detail="!= %r, == %r" % (ne, eq))
    if bool(eqs) != bool(eq):
        ck.fail("symmetric", case, {"kind": kind}, detail="g==h %r, h==g %r" % (eq, eqs))
    results.append((kind, bool(eq), bool(ne), bool(eqs), case))
    lines.append(sx([to_sx(a), to_sx(b)]))


def main(ck):
    import uxarray as ux
    ck.check_props()
    ok = ck.build_driver()
    rng = ck.rng
    n_mesh = 25 if ck.tier == "quick" else 300
    results, lines = [], []
    hist = {}
    for mi in range(n_mesh):
        m = meshgen.gen_mesh(rng, max_ops=8)
        lon, lat = m.lonlat()
        table = m.table(m.width() + rng.choice([0, 1]))
        g = mk_grid(lon, lat, table)
        for (kind, lo, la, tb, spec) in variants(rng, lon, lat, table):
            h = mk_grid(lo, la, tb, spec or "User Defined Topology")
            ck.note_case((kind, lo, la, tb, spec))
            hist[kind] = hist.get(kind, 0) + 1
            eval_pair(ck, g, h, kind, results, lines)
        # history: equality must not depend on which derived quantities either operand has materialised
        for hname, hvars in (("n_edge", ["n_edge"]), ("edges+faces", ["face_edge_connectivity", "node_face_connectivity", "face_areas"]),
                            ("centres", ["face_lon", "edge_x", "node_z"])):
            g2 = mk_grid(lon, lat, table)
            h2 = mk_grid(lon, lat, table)
            try:
                for a in hvars:
                    getattr(g2, a)
            except Exception as ex:
                ck.fail("raises", {"kind": "history_" + hname}, {"kind": "history"}, detail=repr(ex))
                continue
            ck.note_case(("history", hname, lon, lat, table))
            hist["history_" + hname] = hist.get("history_" + hname, 0) + 1
            eval_pair(ck, g2, h2, "identical_after_" + hname, results, lines)
            # and a one-entry difference must still be seen after a history
            l3 = list(lon); l3[0] = lon[0] + 0.5 if lon[0] < 179 else lon[0] - 0.5
            h3 = mk_grid(l3, lat, table)
            eval_pair(ck, g2, h3, "lon_after_" + hname, results, lines)
        # sources that hold Cartesian coordinates only: == / != asked BEFORE anything derived lon/lat on either operand
        try:
            import xarray as xr

            def cart(nodes, tb):
                ds = xr.Dataset()
                for k_, nm in enumerate(("node_x", "node_y", "node_z")):
                    ds[nm] = xr.DataArray(np.array([p_[k_] for p_ in nodes], dtype=float), dims=["n_node"])
                ds["face_node_connectivity"] = xr.DataArray(np.array(tb, dtype=np.intp), dims=["n_face", "n_max_face_nodes"])
                return ux.Grid.from_dataset(ds, source_grid_spec="Cartesian Source")
            moved = [tuple(p_) for p_ in m.nodes]
            x0, y0, z0 = moved[0]
            ang = 0.3
            moved[0] = (x0 * math.cos(ang) - y0 * math.sin(ang), x0 * math.sin(ang) + y0 * math.cos(ang), z0)   # one node moved in longitude
            for kind_c, nodes_h, exp_c in (("cartesian_identical_fresh", m.nodes, True), ("cartesian_one_node_moved_fresh", moved, abs(x0) + abs(y0) < 1e-12)):
                gc, hc = cart(m.nodes, table), cart(nodes_h, table)
                ck.note_case((kind_c, table))
                hist[kind_c] = hist.get(kind_c, 0) + 1
                try:
                    eqc, nec, eqs = (gc == hc), (gc != hc), (hc == gc)
                except Exception as ex:
                    ck.fail("raises", {"kind": kind_c, "nodes": [list(p_) for p_ in m.nodes], "table": table}, {"kind": kind_c}, detail=repr(ex))
                    continue
                if not isinstance(eqc, (bool, np.bool_)) or bool(eqc) != exp_c or bool(nec) != (not exp_c) or bool(eqs) != exp_c:
                    ck.fail("eq_iff" if exp_c else "distinguishes_lon_big", {"kind": kind_c, "nodes": [list(p_) for p_ in m.nodes], "table": table},
                            {"kind": kind_c}, detail="== %r, != %r, reversed == %r; expected equal=%r" % (eqc, nec, eqs, exp_c))
        except Exception as ex:
            ck.fail("raises", {"kind": "cartesian_fresh"}, {"kind": "cartesian_fresh"}, detail=repr(ex))
        # reflexive, copy, non-Grid
        ck.note_case(("refl", lon, lat, table))
        eval_pair(ck, g, g, "reflexive", results, lines)
        try:
            c = g.copy()
            eval_pair(ck, g, c, "copy", results, lines)
            if not (g == c):
                ck.fail("copy_equal", {"kind": "copy", "g": to_sx(grid_data(g))}, {"kind": "copy"})
        except Exception as ex:
            ck.fail("raises", {"kind": "copy"}, {"kind": "copy"}, detail=repr(ex))
        # a copy edited in place (one entry) must become unequal, and the original must keep its value
        for what in ("node_lat", "node_lon", "face_node_connectivity"):
            try:
                g5 = mk_grid(lon, lat, table)
                c5 = g5.copy()
                before = grid_data(g5)
                arr5 = getattr(c5, what).values
                if what == "face_node_connectivity":
                    arr5[0, 0] = (arr5[0, 0] + 1) % len(lon)
                elif what == "node_lat":
                    arr5[-1] = arr5[-1] + (0.25 if arr5[-1] < 89 else -0.25)
                else:
                    arr5[0] = arr5[0] + (0.25 if arr5[0] < 179 else -0.25)
                ck.note_case(("copy_edit", what, lon, lat, table))
                hist["copy_edit_" + what] = hist.get("copy_edit_" + what, 0) + 1
                eval_pair(ck, g5, c5, "copy_edited_" + what, results, lines)
                if grid_data(g5) != before:
                    ck.fail("copy_edit_changes_original", {"kind": "copy_edit", "what": what, "g": to_sx(before)}, {"kind": "copy_edit"})
            except Exception as ex:
                ck.fail("raises", {"kind": "copy_edit", "what": what}, {"kind": "copy_edit"}, detail=repr(ex))
        for other in (None, 3, "grid", g._ds, [g], np.zeros(3)):
            try:
                r1 = (g == other)
                r2 = (g != other)
            except Exception as ex:
                ck.fail("nongrid", {"kind": "nongrid", "other": repr(type(other))}, {"kind": "nongrid"}, detail=repr(ex))
                continue
            hist["nongrid"] = hist.get("nongrid", 0) + 1
            ck.cov["evaluations"] += 1
            if r1 is not False or r2 is not True:
                ck.fail("nongrid", {"kind": "nongrid", "other": repr(type(other))}, {"kind": "nongrid"}, detail=repr((r1, r2)))
            if other is None or isinstance(other, (int, str, list)):   # operands whose own == defers to Grid
                try:
                    r3, r4 = (other == g), (other != g)          # reflected operators
                    if r3 is not False or r4 is not True:
                        ck.fail("nongrid", {"kind": "nongrid_reflected", "other": repr(type(other))}, {"kind": "nongrid"}, detail=repr((r3, r4)))
                except Exception as ex:
                    ck.fail("nongrid", {"kind": "nongrid_reflected", "other": repr(type(other))}, {"kind": "nongrid"}, detail=repr(ex))
        if mi < 2:
            ck.sample({"mesh": m.name, "kinds": sorted(hist)[:20], "n_node": len(lon), "n_face": len(table)})
    # correspondence: the model on the same data
    if ok:
        mod = ck.run_model("c20", lines)
        for (kind, eq, ne, eqs, case), mo in zip(results, mod):
            if [eq, ne, eqs] != [bool(mo[0]), bool(mo[1]), bool(mo[2])]:
                ck.corr_failures.append({"kind": kind, "impl": [eq, ne, eqs], "model": mo, "case": case})
        ng = ck.run_model("c20_nongrid", ["0"])
        if ng != [0]:
            ck.corr_failures.append({"kind": "nongrid", "model": ng})
    ck.cov["rule"] = ("pairs (g, h) of real Grid objects built from generated meshes; h differs from g in exactly one longitude "
                      "(1 ulp / large / last), one latitude, one connectivity entry (first/last/random, to node or fill), a count "
                      "(node, face, column), face order, format, or nothing; plus reflexive, copy and non-Grid comparisons; "
                      "distinct = distinct (kind, data); all are non-trivial")
    ck.extra.update({"pair_kinds": hist, "translator": "harness/translators/c20_eq.py (Grid.__eq__, Grid.__ne__ -> Gen/C20_eq.v)"})
    ck.trusted += ["translator c20_eq.py (fail-closed ast walk)", "xarray.DataArray.equals modelled as same shape + same values (atom; exercised every run)"]


def replay(ck, rp):
    case = rp["case"]
    ck.note_case("replay")
    ck.note_case(json.dumps(case, default=str))
    if "g" not in case:
        return

    def back(d):
        lon = [float(Fraction(a, b)) for a, b in d[1]]
        lat = [float(Fraction(a, b)) for a, b in d[2]]
        spec = [k for k, v in SPECS.items() if v == d[0]]
        return mk_grid(lon, lat, d[3], spec[0] if spec else "X")
    g = back(case["g"])
    h = back(case["h"]) if "h" in case else g
    eval_pair(ck, g, h, case.get("kind", "replay"), [], [])
