"""Catalogue of xarray operations for C10 (shared by the route measurement and the harness).

Each entry: name -> (function on a DataArray `a` having a leading dimension "t" (length >= 2, with a
coordinate) and possibly "lev", plus one grid dimension), kind).  All operations act along
non-grid dimensions only.  `needs` lists dims that must be present.
"""
import numpy as np
import xarray as xr


def _other(a):
    return a.isel(t=0)


OPS = {
    # arithmetic
    "add": (lambda a: a + 1.5, ("t",)),
    "radd": (lambda a: 2 + a, ("t",)),
    "mul": (lambda a: a * a, ("t",)),
    "sub_bcast": (lambda a: a - a.isel(t=0), ("t",)),
    "neg": (lambda a: -a, ()),
    "abs": (lambda a: abs(a), ()),
    "pow": (lambda a: a ** 2, ()),
    "cmp": (lambda a: a > 3, ()),
    "round": (lambda a: a.round(1), ()),
    "iadd": (lambda a: a.__iadd__(1), ()),
    # numpy functions
    "np_sin": (lambda a: np.sin(a), ()),
    "np_add": (lambda a: np.add(a, a), ()),
    "np_maximum": (lambda a: np.maximum(a, 2.0), ()),
    "apply_ufunc": (lambda a: xr.apply_ufunc(np.square, a), ()),
    # where / clip / fillna / astype
    "where": (lambda a: a.where(a > 3), ()),
    "where_other": (lambda a: a.where(a > 3, 0.0), ()),
    "xr_where": (lambda a: xr.where(a > 3, a, 0.0), ()),
    "clip": (lambda a: a.clip(2, 5), ()),
    "fillna": (lambda a: a.fillna(0.0), ()),
    "astype": (lambda a: a.astype(np.float32), ()),
    "isnull": (lambda a: a.isnull(), ()),
    # indexing along non-grid dims
    "isel_scalar": (lambda a: a.isel(t=0), ("t",)),
    "isel_list": (lambda a: a.isel(t=[0, 1]), ("t",)),
    "isel_slice": (lambda a: a.isel(t=slice(0, 2)), ("t",)),
    "sel": (lambda a: a.sel(t=a["t"].values[1]), ("t",)),
    "isel_dict": (lambda a: a.isel({"t": 0}), ("t",)),
    "getitem": (lambda a: a[{"t": 1}], ("t",)),
    "getitem_slice": (lambda a: a[{"t": slice(0, 2)}], ("t",)),
    "loc": (lambda a: a.loc[{"t": a["t"].values[0]}], ("t",)),
    "head": (lambda a: a.head(t=2), ("t",)),
    "thin": (lambda a: a.thin(t=2), ("t",)),
    # reductions along non-grid dims
    "mean": (lambda a: a.mean("t"), ("t",)),
    "sum": (lambda a: a.sum("t"), ("t",)),
    "max": (lambda a: a.max(dim="t"), ("t",)),
    "std": (lambda a: a.std("t"), ("t",)),
    "reduce": (lambda a: a.reduce(np.sum, dim="t"), ("t",)),
    "quantile": (lambda a: a.quantile(0.5, dim="t"), ("t",)),
    # cumulative / rolling
    "cumsum": (lambda a: a.cumsum("t"), ("t",)),
    "cumprod": (lambda a: a.cumprod("t"), ("t",)),
    "rolling_mean": (lambda a: a.rolling(t=2).mean(), ("t",)),
    "diff": (lambda a: a.diff("t"), ("t",)),
    "shift": (lambda a: a.shift(t=1), ("t",)),
    # shape / names / coords
    "transpose": (lambda a: a.transpose(), ()),
    "T": (lambda a: a.T, ()),
    "rename": (lambda a: a.rename("renamed"), ()),
    "rename_dim": (lambda a: a.rename({"t": "time"}).rename({"time": "t"}), ("t",)),
    "assign_coords": (lambda a: a.assign_coords(t=np.arange(a.sizes["t"]) + 10), ("t",)),
    "drop_vars": (lambda a: a.drop_vars("t"), ("t",)),
    "expand_dims": (lambda a: a.expand_dims("z"), ()),
    "sortby": (lambda a: a.sortby("t", ascending=False), ("t",)),
    "concat": (lambda a: xr.concat([a, a], dim="t"), ("t",)),
    # copies
    "copy_deep": (lambda a: a.copy(), ()),
    "copy_shallow": (lambda a: a.copy(deep=False), ()),
    "copy_deep_data": (lambda a: a.copy(data=np.asarray(a.values) * 2 + 1), ()),
    "copy_shallow_data": (lambda a: a.copy(deep=False, data=np.asarray(a.values) * 3 - 1), ()),
    "pipe": (lambda a: a.pipe(lambda x: x * 2), ()),
    "compute": (lambda a: a.compute(), ()),
    # rarely used keyword arguments and less common methods (all along non-grid dims)
    "isel_drop": (lambda a: a.isel(t=0, drop=True), ("t",)),
    "sel_drop": (lambda a: a.sel(t=a["t"].values[1], drop=True), ("t",)),
    "squeeze": (lambda a: a.isel(t=[1]).squeeze("t"), ("t",)),
    "squeeze_drop": (lambda a: a.isel(t=[1]).squeeze("t", drop=True), ("t",)),
    "isel_missing_dims": (lambda a: a.isel({"t": 0, "no_such_dim": 0}, missing_dims="ignore"), ("t",)),
    "reset_coords_drop": (lambda a: a.isel(t=0).reset_coords(drop=True), ("t",)),
    "mean_keep_attrs": (lambda a: a.mean("t", keep_attrs=True), ("t",)),
    "sum_skipna": (lambda a: a.sum("t", skipna=False), ("t",)),
    "tail": (lambda a: a.tail(t=2), ("t",)),
    "roll": (lambda a: a.roll(t=1, roll_coords=True), ("t",)),
    "swap_dims": (lambda a: a.assign_coords(s_aux=("t", np.arange(a.sizes["t"]))).swap_dims({"t": "s_aux"}).swap_dims({"s_aux": "t"}), ("t",)),
    "argmax": (lambda a: a.argmax("t"), ("t",)),
    "reindex": (lambda a: a.reindex(t=a["t"].values[::-1]), ("t",)),
    "weighted_mean": (lambda a: a.weighted(xr.DataArray(np.arange(1.0, a.sizes["t"] + 1), dims=["t"])).mean("t"), ("t",)),
    "groupby_mean": (lambda a: a.groupby("t").mean(), ("t",)),
    "drop_isel": (lambda a: a.drop_isel(t=[0]), ("t",)),
    "assign_attrs": (lambda a: a.assign_attrs(units="K"), ()),
    # (grid lost on the installed xarray: known findings)
    "idxmax": (lambda a: a.idxmax("t"), ("t",)),
    "dot": (lambda a: a.dot(xr.DataArray(np.ones(a.sizes["t"]), dims=["t"])), ("t",)),
    "coarsen_mean": (lambda a: a.coarsen(t=a.sizes["t"]).mean(), ("t",)),
    "broadcast_like": (lambda a: a.isel(t=0, drop=True).broadcast_like(a), ("t",)),
}

# what the property names: every op above must yield a UxDataArray on the same grid
# (deep copy: equal but independent grid)
DEEP_COPY = {"copy_deep", "copy_deep_data"}


# generic xarray indexing applied ALONG the grid dimension (gd = name of the grid dimension present):
# public operations that must not leave a grid dimension whose length differs from the attached grid
GRID_DIM_OPS = {
    "getitem_grid_dim": lambda a, gd: a[{gd: slice(0, 2)}],
    "head_grid_dim": lambda a, gd: a.head(**{gd: 2}),
    "isel_dict_grid_dim": lambda a, gd: a.isel({gd: [0, 1]}),
    "isel_grid_dim_and_t": lambda a, gd: a.isel(**{gd: [0, 1], "t": 0}),
}
