"""Structured mesh generators shared by the checks.

A Mesh is (nodes: list of unit 3-vectors, faces: list of node-id lists, counter-clockwise seen
from outside).  Closed sphere tilings are grown from polyhedra by face splits, edge subdivision,
stellation and dualisation; partial grids by deleting faces; then random renumbering, random
starting corner and a random rigid rotation.  Everything is driven by one random.Random.
"""
import math

FILL = -(2 ** 63)


def _norm(v):
    n = math.sqrt(v[0] * v[0] + v[1] * v[1] + v[2] * v[2])
    return (v[0] / n, v[1] / n, v[2] / n)


def _cross(a, b):
    return (a[1] * b[2] - a[2] * b[1], a[2] * b[0] - a[0] * b[2], a[0] * b[1] - a[1] * b[0])


def _dot(a, b):
    return a[0] * b[0] + a[1] * b[1] + a[2] * b[2]


class Mesh:
    def __init__(self, nodes, faces, closed=True, name=""):
        self.nodes = [tuple(map(float, n)) for n in nodes]
        self.faces = [list(f) for f in faces]
        self.closed = closed
        self.name = name

    def copy(self):
        return Mesh(self.nodes, self.faces, self.closed, self.name)

    # -- tables ---------------------------------------------------------------------------
    def width(self):
        return max(len(f) for f in self.faces)

    def table(self, width=None):
        w = width or self.width()
        return [list(f) + [FILL] * (w - len(f)) for f in self.faces]

    def lonlat(self):
        lon, lat = [], []
        for (x, y, z) in self.nodes:
            lon.append(math.degrees(math.atan2(y, x)))
            lat.append(math.degrees(math.asin(max(-1.0, min(1.0, z)))))
        return lon, lat

    def orient(self):
        """make every face counter-clockwise seen from outside"""
        for f in self.faces:
            c = _norm(tuple(sum(self.nodes[i][k] for i in f) for k in range(3)))
            s = 0.0
            for i in range(len(f)):
                a, b = self.nodes[f[i]], self.nodes[f[(i + 1) % len(f)]]
                s += _dot(_cross(a, b), c)
            if s < 0:
                f.reverse()
        return self

    # -- edge map ---------------------------------------------------------------------------
    def edge_faces(self):
        ef = {}
        for fi, f in enumerate(self.faces):
            for i in range(len(f)):
                a, b = f[i], f[(i + 1) % len(f)]
                ef.setdefault((min(a, b), max(a, b)), []).append(fi)
        return ef

    def is_manifold(self):
        return all(len(v) <= 2 for v in self.edge_faces().values())


def _poly(name):
    if name == "tetra":
        n = [(1, 1, 1), (1, -1, -1), (-1, 1, -1), (-1, -1, 1)]
        f = [(0, 1, 2), (0, 3, 1), (0, 2, 3), (1, 3, 2)]
    elif name == "cube":
        n = [(-1, -1, -1), (1, -1, -1), (1, 1, -1), (-1, 1, -1), (-1, -1, 1), (1, -1, 1), (1, 1, 1), (-1, 1, 1)]
        f = [(0, 3, 2, 1), (4, 5, 6, 7), (0, 1, 5, 4), (1, 2, 6, 5), (2, 3, 7, 6), (3, 0, 4, 7)]
    elif name == "octa":
        n = [(1, 0, 0), (-1, 0, 0), (0, 1, 0), (0, -1, 0), (0, 0, 1), (0, 0, -1)]
        f = [(0, 2, 4), (2, 1, 4), (1, 3, 4), (3, 0, 4), (2, 0, 5), (1, 2, 5), (3, 1, 5), (0, 3, 5)]
    elif name == "icosa":
        p = (1 + 5 ** 0.5) / 2
        n = [(-1, p, 0), (1, p, 0), (-1, -p, 0), (1, -p, 0), (0, -1, p), (0, 1, p), (0, -1, -p), (0, 1, -p),
             (p, 0, -1), (p, 0, 1), (-p, 0, -1), (-p, 0, 1)]
        f = [(0, 11, 5), (0, 5, 1), (0, 1, 7), (0, 7, 10), (0, 10, 11), (1, 5, 9), (5, 11, 4), (11, 10, 2),
             (10, 7, 6), (7, 1, 8), (3, 9, 4), (3, 4, 2), (3, 2, 6), (3, 6, 8), (3, 8, 9), (4, 9, 5),
             (2, 4, 11), (6, 2, 10), (8, 6, 7), (9, 8, 1)]
    elif name.startswith("prism"):
        k = int(name[5:])
        n = [(math.cos(2 * math.pi * i / k), math.sin(2 * math.pi * i / k), 0.6) for i in range(k)] + \
            [(math.cos(2 * math.pi * i / k), math.sin(2 * math.pi * i / k), -0.6) for i in range(k)]
        f = [tuple(range(k)), tuple(reversed(range(k, 2 * k)))]
        for i in range(k):
            j = (i + 1) % k
            f.append((i, k + i, k + j, j))
    else:
        raise ValueError(name)
    m = Mesh([_norm(x) for x in n], f, True, name)
    return m.orient()


SEEDS = ["tetra", "cube", "octa", "icosa", "prism3", "prism5", "prism6", "prism7", "prism8"]


def split_face(m, rng):
    """cut one face with >=4 corners along a diagonal"""
    cands = [i for i, f in enumerate(m.faces) if len(f) >= 4]
    if not cands:
        return False
    fi = rng.choice(cands)
    f = m.faces[fi]
    k = len(f)
    i = rng.randrange(k)
    j = (i + rng.randrange(2, k - 1)) % k
    i, j = min(i, j), max(i, j)
    a = f[i:j + 1]
    b = f[j:] + f[:i + 1]
    if len(a) < 3 or len(b) < 3:
        return False
    key = (min(f[i], f[j]), max(f[i], f[j]))
    if key in m.edge_faces():
        return False                      # diagonal already an edge elsewhere: would not be a tiling
    for piece in (a, b):                   # no zero-area piece (all corners on one great circle)
        n = _cross(m.nodes[f[i]], m.nodes[f[j]])
        if all(abs(_dot(n, m.nodes[x])) < 1e-9 for x in piece):
            return False
    m.faces[fi] = a
    m.faces.append(b)
    return True


def subdivide_edge(m, rng, maxsize=8):
    """insert a node at the midpoint of an edge (both incident faces gain a corner)"""
    ef = m.edge_faces()
    cands = [e for e, fs in ef.items() if all(len(m.faces[x]) < maxsize for x in fs)]
    if not cands:
        return False
    (a, b) = rng.choice(sorted(cands))
    t = 0.35 + 0.3 * rng.random()
    pa, pb = m.nodes[a], m.nodes[b]
    new = _norm(tuple(pa[k] * (1 - t) + pb[k] * t for k in range(3)))
    nid = len(m.nodes)
    m.nodes.append(new)
    for fi in ef[(a, b)]:
        f = m.faces[fi]
        for i in range(len(f)):
            x, y = f[i], f[(i + 1) % len(f)]
            if {x, y} == {a, b}:
                f.insert(i + 1, nid)
                break
    return True


def stellate(m, rng):
    fi = rng.randrange(len(m.faces))
    f = m.faces[fi]
    c = _norm(tuple(sum(m.nodes[i][k] for i in f) for k in range(3)))
    nid = len(m.nodes)
    m.nodes.append(c)
    tris = [[f[i], f[(i + 1) % len(f)], nid] for i in range(len(f))]
    m.faces[fi] = tris[0]
    m.faces.extend(tris[1:])
    return True


def dual(m):
    """dual of a closed manifold mesh (faces <-> nodes), rings ordered counter-clockwise"""
    cent = [_norm(tuple(sum(m.nodes[i][k] for i in f) for k in range(3))) for f in m.faces]
    nf = {}
    for fi, f in enumerate(m.faces):
        for i in range(len(f)):
            # directed edge (f[i] -> f[i+1]) belongs to face fi
            nf[(f[i], f[(i + 1) % len(f)])] = fi
    faces = []
    for v in range(len(m.nodes)):
        # walk around v: faces containing v; from face with edge (v->w) go to the face with edge (u->v)...
        start = None
        for (a, b), fi in nf.items():
            if a == v:
                start = (a, b)
                break
        if start is None:
            continue
        ring = []
        cur = start
        while True:
            fi = nf[cur]
            ring.append(fi)
            f = m.faces[fi]
            i = f.index(v)
            u = f[(i - 1) % len(f)]          # edge (u -> v) in this face; neighbour has (v -> u)
            cur = (v, u)
            if cur == start or cur not in nf or len(ring) > 64:
                break
        faces.append(ring)
    d = Mesh(cent, [f for f in faces if len(f) >= 3], True, m.name + "*")
    return d.orient()


def delete_faces(m, rng, frac=None):
    k = len(m.faces)
    if k <= 1:
        return
    n_del = rng.randrange(1, max(2, int(k * (frac or rng.choice([0.1, 0.3, 0.6]))) + 1))
    n_del = min(n_del, k - 1)
    dele = set(rng.sample(range(k), n_del))
    m.faces = [f for i, f in enumerate(m.faces) if i not in dele]
    m.closed = False
    compact(m)


def compact(m):
    used = sorted({i for f in m.faces for i in f})
    mp = {o: n for n, o in enumerate(used)}
    m.nodes = [m.nodes[o] for o in used]
    m.faces = [[mp[i] for i in f] for f in m.faces]


def renumber(m, rng):
    n = len(m.nodes)
    perm = list(range(n))
    rng.shuffle(perm)                  # old -> new
    nodes = [None] * n
    for o, nw in enumerate(perm):
        nodes[nw] = m.nodes[o]
    m.nodes = nodes
    m.faces = [[perm[i] for i in f] for f in m.faces]
    rng.shuffle(m.faces)


def rotate_starts(m, rng):
    for f in m.faces:
        k = rng.randrange(len(f))
        f[:] = f[k:] + f[:k]


def rotation_matrix(rng, kind=None):
    kind = kind or rng.choice(["random", "random", "z", "identity", "pole"])
    if kind == "identity":
        return [[1, 0, 0], [0, 1, 0], [0, 0, 1]]
    if kind == "z":
        a = rng.uniform(0, 2 * math.pi)
        return [[math.cos(a), -math.sin(a), 0], [math.sin(a), math.cos(a), 0], [0, 0, 1]]
    # random orthonormal frame
    while True:
        u = (rng.gauss(0, 1), rng.gauss(0, 1), rng.gauss(0, 1))
        v = (rng.gauss(0, 1), rng.gauss(0, 1), rng.gauss(0, 1))
        if _dot(u, u) > 1e-3 and _dot(_cross(u, v), _cross(u, v)) > 1e-3:
            break
    u = _norm(u)
    w = _norm(_cross(u, v))
    v = _cross(w, u)
    return [list(u), list(v), list(w)]


def rotate(m, R):
    m.nodes = [_norm(tuple(sum(R[r][k] * p[k] for k in range(3)) for r in range(3))) for p in m.nodes]


def node_to_pole(m, rng):
    """rotate so that some node sits exactly on the north or south pole"""
    p = m.nodes[rng.randrange(len(m.nodes))]
    s = rng.choice([1.0, -1.0])
    w = (p[0] * s, p[1] * s, p[2] * s)
    a = (1.0, 0.0, 0.0) if abs(w[0]) < 0.9 else (0.0, 1.0, 0.0)
    u = _norm(_cross(a, w))
    v = _cross(w, u)
    R = [list(u), list(v), list(w)]
    rotate(m, R)
    # snap exact pole
    m.nodes = [(0.0, 0.0, 1.0) if abs(q[2] - 1) < 1e-14 else ((0.0, 0.0, -1.0) if abs(q[2] + 1) < 1e-14 else q)
               for q in m.nodes]


def gen_mesh(rng, max_ops=10, partial=None, allow_dual=True, seeds=None, rot=True):
    m = _poly(rng.choice(seeds or SEEDS))
    n_ops = rng.randrange(0, max_ops + 1)
    ops = []
    for _ in range(n_ops):
        op = rng.choice(["split", "subdiv", "subdiv", "stellate", "dual"])
        if op == "split":
            ok = split_face(m, rng)
        elif op == "subdiv":
            ok = subdivide_edge(m, rng)
        elif op == "stellate":
            ok = stellate(m, rng)
        else:
            ok = False
            if allow_dual and all(len(f) <= 8 for f in m.faces):
                d = dual(m)
                if len(d.faces) == len(m.nodes) and all(3 <= len(f) <= 8 for f in d.faces) and d.is_manifold():
                    m = d
                    ok = True
        if ok:
            ops.append(op)
    if partial is None:
        partial = rng.random() < 0.4
    if partial:
        delete_faces(m, rng)
        ops.append("delete")
    if rot:
        if rng.random() < 0.2:
            node_to_pole(m, rng)
            ops.append("pole")
        else:
            rotate(m, rotation_matrix(rng))
    renumber(m, rng)
    rotate_starts(m, rng)
    m.name = m.name + ":" + ",".join(ops)
    return m


def gen_table(rng, max_nodes=12, max_faces=8, min_size=3, max_size=8):
    """purely combinatorial random table (faces may share any number of edges; not necessarily
    manifold) in standard form"""
    n = rng.randrange(min_size, max_nodes + 1)
    k = rng.randrange(1, max_faces + 1)
    faces = []
    for _ in range(k):
        s = rng.randrange(min_size, min(max_size, n) + 1)
        faces.append(rng.sample(range(n), s))
    w = max(len(f) for f in faces) + rng.choice([0, 0, 1])
    return n, [f + [FILL] * (w - len(f)) for f in faces]
