"""Fail-closed translator: which variant of the seven C04 code sites (the node-longitude site has two
alternative repairs, hence eight flags) the current source contains
-> coq/Gen/C04_variant.v (Definition c04_repo_fixes : c04_fixes).

    python c04_variant.py <repo> <coq/Gen dir>

Recognised shapes (anything else aborts with exit status 1, "tie broken"):

 uxarray/grid/coordinates.py
  _populate_node_latlon:      `lon = np.rad2deg(lon_rad)`                          -> fx_node_wrap = false
                              `lon = (np.rad2deg(lon_rad) + 180) % 360 - 180`      -> true
  _populate_face_centroids /  exactly one call `_lonlat_rad_to_xyz(centroid_lon, centroid_lat)`   -> fx_*_deg = false
  _populate_edge_centroids:   `_lonlat_rad_to_xyz(np.deg2rad(centroid_lon), np.deg2rad(centroid_lat))` -> true
                              exactly one call `_xyz_to_lonlat_deg(centroid_x, centroid_y, centroid_z,
                              normalize=False)` -> fx_*_norm = false ; normalize=True or no keyword -> true
  _populate_face_centerpoints: exactly one call `_lonlat_rad_to_xyz(centerpoint_lon, centerpoint_lat)` -> fx_welzl_deg = false
                              `_lonlat_rad_to_xyz(np.deg2rad(centerpoint_lon), np.deg2rad(centerpoint_lat))`  -> true
 uxarray/grid/grid.py
  Grid.node_lon and Grid.node_lat (both must agree): the body of `if "node_lon"/"node_lat" not in self._ds:` is
                              `_set_desired_longitude_range(self._ds); _populate_node_latlon(self)` -> fx_node_after = false
                              `_populate_node_latlon(self); _set_desired_longitude_range(self._ds)` -> true
 uxarray/grid/validation.py
  _check_normalization:       `if "edge_x" in grid._ds:` testing grid.node_x/y/z  -> fx_edge_check = false,
                              testing grid.edge_x/y/z -> true; likewise "face_x"; the "node_x" branch must test
                              grid.node_x/y/z.

The remaining code of these functions and of the getters is tied by the correspondence check.
"""
import ast
import os
import sys

sys.path.insert(0, os.path.dirname(os.path.dirname(os.path.abspath(__file__))))
from common import write_if_changed  # noqa: E402


class Unknown(Exception):
    pass


def func(tree, name):
    fs = [n for n in tree.body if isinstance(n, ast.FunctionDef) and n.name == name]
    if len(fs) != 1:
        raise Unknown("expected exactly one def %s, found %d" % (name, len(fs)))
    return fs[0]


def calls(fn, name):
    out = []
    for n in ast.walk(fn):
        if isinstance(n, ast.Call) and isinstance(n.func, ast.Name) and n.func.id == name:
            out.append(n)
    return out


def is_name(n, s):
    return isinstance(n, ast.Name) and n.id == s


def is_np_call(n, fn, arg):
    return (isinstance(n, ast.Call) and isinstance(n.func, ast.Attribute) and n.func.attr == fn
            and is_name(n.func.value, "np") and len(n.args) == 1 and not n.keywords and is_name(n.args[0], arg))


def node_wrap(fn):
    asg = [n for n in ast.walk(fn) if isinstance(n, ast.Assign) and len(n.targets) == 1 and is_name(n.targets[0], "lon")]
    if len(asg) != 1:
        raise Unknown("_populate_node_latlon: expected one assignment to lon")
    v = asg[0].value
    if is_np_call(v, "rad2deg", "lon_rad"):
        return False
    # (np.rad2deg(lon_rad) + 180) % 360 - 180
    try:
        ok = (isinstance(v, ast.BinOp) and isinstance(v.op, ast.Sub) and v.right.value == 180
              and isinstance(v.left, ast.BinOp) and isinstance(v.left.op, ast.Mod) and v.left.right.value == 360
              and isinstance(v.left.left, ast.BinOp) and isinstance(v.left.left.op, ast.Add)
              and v.left.left.right.value == 180 and is_np_call(v.left.left.left, "rad2deg", "lon_rad"))
    except AttributeError:
        ok = False
    if ok:
        return True
    raise Unknown("_populate_node_latlon: unrecognised lon expression: " + ast.dump(v)[:200])


def node_after(gsrc):
    tree = ast.parse(gsrc)
    cls = [n for n in tree.body if isinstance(n, ast.ClassDef) and n.name == "Grid"]
    if len(cls) != 1:
        raise Unknown("grid.py: expected one class Grid")
    res = []
    for nm in ("node_lon", "node_lat"):
        getters = [n for n in cls[0].body if isinstance(n, ast.FunctionDef) and n.name == nm
                   and any(isinstance(d, ast.Name) and d.id == "property" for d in n.decorator_list)]
        if len(getters) != 1:
            raise Unknown("grid.py: expected one property getter " + nm)
        ifs = [n for n in getters[0].body if isinstance(n, ast.If)]
        if len(ifs) != 1 or ifs[0].orelse:
            raise Unknown("grid.py: %s: expected one if" % nm)
        t = ifs[0].test
        if not (isinstance(t, ast.Compare) and len(t.ops) == 1 and isinstance(t.ops[0], ast.NotIn)
                and isinstance(t.left, ast.Constant) and t.left.value == nm):
            raise Unknown("grid.py: %s: unrecognised test" % nm)
        seq = []
        for st in ifs[0].body:
            if not (isinstance(st, ast.Expr) and isinstance(st.value, ast.Call) and isinstance(st.value.func, ast.Name)):
                raise Unknown("grid.py: %s: unrecognised statement" % nm)
            seq.append(st.value.func.id)
        if seq == ["_set_desired_longitude_range", "_populate_node_latlon"]:
            res.append(False)
        elif seq == ["_populate_node_latlon", "_set_desired_longitude_range"]:
            res.append(True)
        else:
            raise Unknown("grid.py: %s: unrecognised call sequence %s" % (nm, seq))
    if res[0] != res[1]:
        raise Unknown("grid.py: node_lon and node_lat getters differ")
    return res[0]


def centroid_flags(fn):
    cs = calls(fn, "_lonlat_rad_to_xyz")
    if len(cs) != 1 or len(cs[0].args) != 2 or cs[0].keywords:
        raise Unknown(fn.name + ": expected one call _lonlat_rad_to_xyz(a, b)")
    a, b = cs[0].args
    if is_name(a, "centroid_lon") and is_name(b, "centroid_lat"):
        deg = False
    elif is_np_call(a, "deg2rad", "centroid_lon") and is_np_call(b, "deg2rad", "centroid_lat"):
        deg = True
    else:
        raise Unknown(fn.name + ": unrecognised arguments of _lonlat_rad_to_xyz")
    cs = calls(fn, "_xyz_to_lonlat_deg")
    if len(cs) != 1 or len(cs[0].args) != 3:
        raise Unknown(fn.name + ": expected one call _xyz_to_lonlat_deg(x, y, z, ...)")
    if [getattr(x, "id", None) for x in cs[0].args] != ["centroid_x", "centroid_y", "centroid_z"]:
        raise Unknown(fn.name + ": unrecognised arguments of _xyz_to_lonlat_deg")
    kws = cs[0].keywords
    if not kws:
        norm = True
    elif len(kws) == 1 and kws[0].arg == "normalize" and isinstance(kws[0].value, ast.Constant) \
            and kws[0].value.value in (True, False):
        norm = bool(kws[0].value.value)
    else:
        raise Unknown(fn.name + ": unrecognised keywords of _xyz_to_lonlat_deg")
    return deg, norm


def check_flags(fn):
    res = {}
    for n in fn.body:
        if not isinstance(n, ast.If):
            continue
        t = n.test
        if isinstance(t, ast.Compare) and len(t.ops) == 1 and isinstance(t.ops[0], ast.In) \
                and isinstance(t.left, ast.Constant) and t.left.value in ("node_x", "edge_x", "face_x"):
            kind = t.left.value.split("_")[0]
            names = sorted({a.attr for a in ast.walk(n) if isinstance(a, ast.Attribute) and is_name(a.value, "grid")
                            and a.attr[-2:] in ("_x", "_y", "_z")})
            own = sorted(kind + s for s in ("_x", "_y", "_z"))
            node = ["node_x", "node_y", "node_z"]
            if names == own:
                res[kind] = True
            elif names == node:
                res[kind] = False
            else:
                raise Unknown("_check_normalization: branch %s tests %s" % (kind, names))
    if sorted(res) != ["edge", "face", "node"] or res["node"] is not True:
        raise Unknown("_check_normalization: expected node_x / edge_x / face_x branches")
    return res["edge"], res["face"]


def welzl_flag(fn):
    cs = calls(fn, "_lonlat_rad_to_xyz")
    if len(cs) != 1 or len(cs[0].args) != 2 or cs[0].keywords:
        raise Unknown(fn.name + ": expected one call _lonlat_rad_to_xyz(a, b)")
    a, b = cs[0].args
    if is_name(a, "centerpoint_lon") and is_name(b, "centerpoint_lat"):
        return False
    if is_np_call(a, "deg2rad", "centerpoint_lon") and is_np_call(b, "deg2rad", "centerpoint_lat"):
        return True
    raise Unknown(fn.name + ": unrecognised arguments of _lonlat_rad_to_xyz")


def main():
    repo, gen = sys.argv[1], sys.argv[2]
    try:
        src = open(os.path.join(repo, "uxarray", "grid", "coordinates.py")).read()
        tree = ast.parse(src)
        # _xyz_to_lonlat_rad is defined twice in the file; the dataflow model does not depend on which
        fx_node = node_wrap(func(tree, "_populate_node_latlon"))
        fdeg, fnorm = centroid_flags(func(tree, "_populate_face_centroids"))
        edeg, enorm = centroid_flags(func(tree, "_populate_edge_centroids"))
        wdeg = welzl_flag(func(tree, "_populate_face_centerpoints"))
        fx_after = node_after(open(os.path.join(repo, "uxarray", "grid", "grid.py")).read())
        vsrc = open(os.path.join(repo, "uxarray", "grid", "validation.py")).read()
        echeck, fcheck = check_flags(func(ast.parse(vsrc), "_check_normalization"))
    except (Unknown, OSError, SyntaxError) as ex:
        sys.stderr.write("c04_variant: tie broken: %s\n" % ex)
        return 1
    b = {True: "true", False: "false"}
    flags = [fx_node, fx_after, fdeg, edeg, fnorm, enorm, echeck, fcheck, wdeg]
    txt = ("(* generated by harness/translators/c04_variant.py from uxarray/grid/coordinates.py,\n"
           "   uxarray/grid/grid.py and uxarray/grid/validation.py — do not edit *)\n"
           "From Verif Require Import Base C04.\n"
           "Definition c04_repo_fixes : c04_fixes :=\n"
           "  {| fx_node_wrap := %s; fx_node_after := %s; fx_face_deg := %s; fx_edge_deg := %s;\n"
           "     fx_face_norm := %s; fx_edge_norm := %s; fx_edge_check := %s; fx_face_check := %s;\n"
           "     fx_welzl_deg := %s |}.\n"
           % tuple(b[x] for x in flags))
    write_if_changed(os.path.join(gen, "C04_variant.v"), txt)
    print(" ".join("1" if x else "0" for x in flags))
    return 0


if __name__ == "__main__":
    sys.exit(main())
