"""Fail-closed translator: which request parameters Grid.get_ball_tree / Grid.get_kd_tree
(uxarray/grid/grid.py) compare with the cached tree object -> coq/Gen/C11_keys.v.

Recognised shape of both methods (after the docstring):

    if self._T is None or reconstruct [or <param> != self._T.<attr>]... :
        self._T = Cls(self, coordinates=coordinates, distance_metric=distance_metric,
                      coordinate_system=coordinate_system, reconstruct=reconstruct)
    [else:
        if coordinates != self._T._coordinates:
            self._T.coordinates = coordinates]
    return self._T

with _T/Cls = _ball_tree/BallTree resp. _kd_tree/KDTree, and (<param>, <attr>) one of
(coordinates, _coordinates|coordinates), (coordinate_system, coordinate_system),
(distance_metric, distance_metric).  The constructor must receive every request parameter under
its own keyword (or positionally in the class's order).  The output is the record of compared
keys used by the cache state machine of coq/Model/C11.v.  Anything else aborts with exit status 1.
"""
import ast
import os
import sys

sys.path.insert(0, os.path.dirname(os.path.dirname(os.path.abspath(__file__))))
from common import write_if_changed  # noqa: E402


class Unknown(Exception):
    pass


PARAMS = ("coordinates", "coordinate_system", "distance_metric", "reconstruct")
ATTRS = {"coordinates": ("_coordinates", "coordinates"), "coordinate_system": ("coordinate_system",),
         "distance_metric": ("distance_metric",)}


def is_name(n, s):
    return isinstance(n, ast.Name) and n.id == s


def is_self_attr(n, a):
    return isinstance(n, ast.Attribute) and n.attr == a and is_name(n.value, "self")


def body_stmts(fn):
    b = fn.body
    if b and isinstance(b[0], ast.Expr) and isinstance(b[0].value, ast.Constant) and isinstance(b[0].value.value, str):
        b = b[1:]
    return b


def cmp_key(n, slot):
    """<param> != self.<slot>.<attr>  (either side)  -> param name"""
    if not (isinstance(n, ast.Compare) and len(n.ops) == 1 and isinstance(n.ops[0], ast.NotEq)):
        raise Unknown(ast.dump(n))
    for a, b in ((n.left, n.comparators[0]), (n.comparators[0], n.left)):
        if isinstance(a, ast.Name) and a.id in ATTRS and isinstance(b, ast.Attribute) \
                and is_self_attr(b.value, slot) and b.attr in ATTRS[a.id]:
            return a.id
    raise Unknown(ast.dump(n))


def ctor_positional(repo, cls):
    src = open(os.path.join(repo, "uxarray", "grid", "neighbors.py")).read()
    for n in ast.parse(src).body:
        if isinstance(n, ast.ClassDef) and n.name == cls:
            for f in n.body:
                if isinstance(f, ast.FunctionDef) and f.name == "__init__":
                    return [a.arg for a in f.args.args][1:]
    raise Unknown("class %s.__init__" % cls)


def trans(fn, slot, cls, repo):
    # the method's own parameters must be the four request parameters
    args = [a.arg for a in fn.args.args]
    if args[0] != "self" or sorted(args[1:]) != sorted(PARAMS) or fn.args.vararg or fn.args.kwarg or fn.args.kwonlyargs:
        raise Unknown("signature of %s: %s" % (fn.name, args))
    st = body_stmts(fn)
    if len(st) != 2 or not isinstance(st[0], ast.If) or not isinstance(st[1], ast.Return) \
            or not is_self_attr(st[1].value, slot):
        raise Unknown("body of %s" % fn.name)
    top = st[0]
    t = top.test
    if not (isinstance(t, ast.BoolOp) and isinstance(t.op, ast.Or) and len(t.values) >= 2):
        raise Unknown(ast.dump(t))
    v0, v1 = t.values[0], t.values[1]
    if not (isinstance(v0, ast.Compare) and is_self_attr(v0.left, slot) and len(v0.ops) == 1
            and isinstance(v0.ops[0], ast.Is) and isinstance(v0.comparators[0], ast.Constant)
            and v0.comparators[0].value is None):
        raise Unknown(ast.dump(v0))
    if not is_name(v1, "reconstruct"):
        raise Unknown(ast.dump(v1))
    rebuild = set(cmp_key(v, slot) for v in t.values[2:])
    # rebuild branch: self._T = Cls(self, <every parameter passed as itself>)
    if len(top.body) != 1 or not isinstance(top.body[0], ast.Assign):
        raise Unknown("rebuild branch of %s" % fn.name)
    a = top.body[0]
    if len(a.targets) != 1 or not is_self_attr(a.targets[0], slot):
        raise Unknown(ast.dump(a))
    c = a.value
    if not (isinstance(c, ast.Call) and is_name(c.func, cls) and c.args and is_name(c.args[0], "self")):
        raise Unknown(ast.dump(c))
    passed = {}
    pos = ctor_positional(repo, cls)
    if pos[0] != "grid":
        raise Unknown("%s.__init__ parameters %s" % (cls, pos))
    for i, x in enumerate(c.args[1:], start=1):
        if i >= len(pos):
            raise Unknown("too many positional arguments")
        passed[pos[i]] = x
    for kw in c.keywords:
        if kw.arg is None or kw.arg in passed:
            raise Unknown("constructor keywords")
        passed[kw.arg] = kw.value
    if sorted(passed) != sorted(PARAMS):
        raise Unknown("constructor receives %s" % sorted(passed))
    for k, x in passed.items():
        if not is_name(x, k):
            raise Unknown("constructor parameter %s is not passed as itself" % k)
    # else branch
    switch = False
    if top.orelse:
        if len(top.orelse) != 1 or not isinstance(top.orelse[0], ast.If):
            raise Unknown("else branch of %s" % fn.name)
        e = top.orelse[0]
        if e.orelse or cmp_key(e.test, slot) != "coordinates":
            raise Unknown(ast.dump(e.test))
        if len(e.body) != 1 or not isinstance(e.body[0], ast.Assign):
            raise Unknown("else body")
        s = e.body[0]
        tg = s.targets[0]
        if not (len(s.targets) == 1 and isinstance(tg, ast.Attribute) and tg.attr == "coordinates"
                and is_self_attr(tg.value, slot) and is_name(s.value, "coordinates")):
            raise Unknown(ast.dump(s))
        switch = True
    return {"kind": "coordinates" in rebuild, "sys": "coordinate_system" in rebuild,
            "metric": "distance_metric" in rebuild, "switch": switch}


def coqb(b):
    return "true" if b else "false"


def main():
    repo, gen = sys.argv[1], sys.argv[2]
    src = open(os.path.join(repo, "uxarray", "grid", "grid.py")).read()
    tree = ast.parse(src)
    grid = [n for n in tree.body if isinstance(n, ast.ClassDef) and n.name == "Grid"]
    if len(grid) != 1:
        raise Unknown("class Grid")
    fns = {n.name: n for n in grid[0].body if isinstance(n, ast.FunctionDef)}
    ball = trans(fns["get_ball_tree"], "_ball_tree", "BallTree", repo)
    kd = trans(fns["get_kd_tree"], "_kd_tree", "KDTree", repo)
    text = ("(* GENERATED by harness/translators/c11_keys.py from uxarray/grid/grid.py\n"
            "   (Grid.get_ball_tree, Grid.get_kd_tree): the request parameters compared with the cached tree.\n"
            "   Do not edit: regenerated on every run. *)\n"
            "From Verif Require Import C11.\n")
    for name, d in (("ball", ball), ("kd", kd)):
        text += ("Definition c11_%s_cfg : c11_cfg :=\n  {| cf_rb_kind := %s; cf_rb_sys := %s; cf_rb_metric := %s; cf_switch := %s |}.\n"
                 % (name, coqb(d["kind"]), coqb(d["sys"]), coqb(d["metric"]), coqb(d["switch"])))
    write_if_changed(os.path.join(gen, "C11_keys.v"), text)


if __name__ == "__main__":
    try:
        main()
    except Unknown as e:
        sys.stderr.write("c11_keys translator: unrecognised source shape (tie broken): %s\n" % e)
        sys.exit(1)
    except Exception as e:  # fail closed
        sys.stderr.write("c11_keys translator failed: %r\n" % (e,))
        sys.exit(1)
