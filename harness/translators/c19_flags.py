"""C19 translator (fail-closed): regenerates coq/Gen/C19_flags.v — the copy points the heap model
coq/Model/C19.v relies on, read off the current source:

  c19_f_pc_copies      io/_topology.py  _process_connectivity starts with  conn = np.array(conn, copy=True)
  c19_f_std_copies     io/_ugrid.py     _standardize_connectivity reads    conn = ds[conn_name].values.copy()
  c19_f_init_copies    grid/grid.py     Grid.__init__ stores               self._ds = grid_ds.copy()
  c19_f_copy_deep      grid/grid.py     Grid.copy passes                   self._ds.copy(deep=True)
  c19_f_export_deep    grid/grid.py     to_xarray('ugrid') encodes         self._ds.copy(deep=True)
  c19_f_scrip_copies   io/_scrip.py     grid_area is built from            np.array(face_areas)
  c19_f_scrip_area_copies  io/_scrip.py  reader: face_areas is built from   in_ds["grid_area"].values.copy()
  c19_f_esmf_area_copies   io/_esmf.py   reader: face_areas is built from   in_ds["elementArea"].values.copy()
  c19_f_gdf_returns_copy / c19_f_poly_returns_copy / c19_f_line_returns_copy
                       grid/grid.py     every `return` of Grid.to_* hands out copy.deepcopy(...) (true) or the
                                        object itself (false)

  c19_f_poly_indices_hit_copy / c19_f_poly_indices_final_copy
                       grid/grid.py     to_polycollection(return_indices=True): the index table is handed out as
                                        copy.copy(...) on the cache-hit branch / on the final return

usage: c19_flags.py <repo> <coq/Gen dir>.  Any source shape that is not recognised aborts (exit 2).
"""
import ast
import os
import sys
import warnings

warnings.simplefilter("ignore")
sys.path.insert(0, os.path.dirname(os.path.dirname(os.path.abspath(__file__))))
import common  # noqa: E402


class Broken(Exception):
    pass


def find_func(tree, name, cls=None):
    for n in ast.walk(tree):
        if cls and isinstance(n, ast.ClassDef) and n.name == cls:
            for m in n.body:
                if isinstance(m, ast.FunctionDef) and m.name == name:
                    return m
        if not cls and isinstance(n, ast.FunctionDef) and n.name == name:
            return n
    raise Broken("function %s not found" % name)


def is_self_ds(node):
    return isinstance(node, ast.Attribute) and node.attr == "_ds" and isinstance(node.value, ast.Name) and node.value.id == "self"


def is_copy_call(node, deep_required):
    """<expr>.copy(...) ; with deep_required the keyword deep=True must be present"""
    if not (isinstance(node, ast.Call) and isinstance(node.func, ast.Attribute) and node.func.attr == "copy"):
        return None
    deep = any(k.arg == "deep" and isinstance(k.value, ast.Constant) and k.value.value is True for k in node.keywords)
    if deep_required and not deep:
        return None
    return node.func.value


def flag_pc(tree):
    fn = find_func(tree, "_process_connectivity")
    body = [s for s in fn.body if not (isinstance(s, ast.Expr) and isinstance(s.value, ast.Constant))]
    first = body[0]
    if isinstance(first, ast.Assign) and isinstance(first.targets[0], ast.Name) and first.targets[0].id == "conn":
        v = first.value
        if isinstance(v, ast.Call) and isinstance(v.func, ast.Attribute) and v.func.attr == "array" and v.args \
                and isinstance(v.args[0], ast.Name) and v.args[0].id == "conn" \
                and any(k.arg == "copy" and isinstance(k.value, ast.Constant) and k.value.value is True for k in v.keywords):
            return True
        raise Broken("_process_connectivity: conn rebound to %s" % ast.dump(v)[:80])
    # no rebinding at the top: the function works on the caller's array
    for s in ast.walk(fn):
        if isinstance(s, ast.AugAssign) or (isinstance(s, ast.Assign) and isinstance(s.targets[0], ast.Subscript)):
            return False
    raise Broken("_process_connectivity: shape not recognised")


def flag_std(tree):
    fn = find_func(tree, "_standardize_connectivity")
    for s in fn.body:
        if isinstance(s, ast.Assign) and isinstance(s.targets[0], ast.Name) and s.targets[0].id == "conn":
            v = s.value
            inner = is_copy_call(v, False)
            if inner is not None and isinstance(inner, ast.Attribute) and inner.attr == "values":
                return True
            if isinstance(v, ast.Attribute) and v.attr == "values":
                return False
            raise Broken("_standardize_connectivity: conn = %s" % ast.dump(v)[:80])
    raise Broken("_standardize_connectivity: assignment of conn not found")


def flag_init(tree):
    fn = find_func(tree, "__init__", cls="Grid")
    for s in ast.walk(fn):
        if isinstance(s, ast.Assign) and len(s.targets) == 1 and is_self_ds(s.targets[0]):
            v = s.value
            if isinstance(v, ast.Name) and v.id == "grid_ds":
                return False
            inner = is_copy_call(v, False)
            if inner is not None and isinstance(inner, ast.Name) and inner.id == "grid_ds":
                return True
            raise Broken("Grid.__init__: self._ds = %s" % ast.dump(v)[:80])
    raise Broken("Grid.__init__: self._ds assignment not found")


def flag_copy(tree):
    fn = find_func(tree, "copy", cls="Grid")
    rets = [s for s in ast.walk(fn) if isinstance(s, ast.Return)]
    if len(rets) != 1:
        raise Broken("Grid.copy: %d return statements" % len(rets))
    v = rets[0].value
    if not (isinstance(v, ast.Call) and isinstance(v.func, ast.Name) and v.func.id == "Grid" and v.args):
        raise Broken("Grid.copy: does not return Grid(...): %s" % ast.dump(v)[:80])
    a = v.args[0]
    if is_self_ds(a):
        return False
    inner = is_copy_call(a, True)
    if inner is not None and is_self_ds(inner):
        return True
    raise Broken("Grid.copy: first argument %s" % ast.dump(a)[:80])


def flag_export(tree):
    out = []
    for name in ("to_xarray", "encode_as"):
        fn = find_func(tree, name, cls="Grid")
        for s in ast.walk(fn):
            if isinstance(s, ast.Call) and isinstance(s.func, ast.Name) and s.func.id == "_encode_ugrid":
                a = s.args[0]
                if is_self_ds(a):
                    out.append(False)
                else:
                    inner = is_copy_call(a, True)
                    if inner is not None and is_self_ds(inner):
                        out.append(True)
                    else:
                        raise Broken("Grid.%s: _encode_ugrid(%s)" % (name, ast.dump(a)[:80]))
    if not out:
        raise Broken("_encode_ugrid call not found")
    return all(out)


def flag_scrip(tree):
    fn = find_func(tree, "_encode_scrip")
    for s in ast.walk(fn):
        if isinstance(s, ast.Assign) and isinstance(s.targets[0], ast.Subscript) and isinstance(s.targets[0].slice, ast.Constant) \
                and s.targets[0].slice.value == "grid_area":
            v = s.value
            if not (isinstance(v, ast.Call) and v.keywords):
                raise Broken("_encode_scrip: grid_area = %s" % ast.dump(v)[:80])
            data = [k.value for k in v.keywords if k.arg == "data"]
            if not data:
                raise Broken("_encode_scrip: no data= keyword")
            d = data[0]
            if isinstance(d, ast.Name) and d.id == "face_areas":
                return False
            if isinstance(d, ast.Call) and isinstance(d.func, ast.Attribute) and d.func.attr in ("array", "copy"):
                return True
            raise Broken("_encode_scrip: data=%s" % ast.dump(d)[:80])
    raise Broken("_encode_scrip: grid_area assignment not found")


def flag_area(tree, func, src):
    """out_ds["face_areas"] = xr.DataArray(<in_ds[src].values.copy()>, ...) in reader `func`"""
    fn = find_func(tree, func)
    for s in ast.walk(fn):
        if isinstance(s, ast.Assign) and isinstance(s.targets[0], ast.Subscript) and isinstance(s.targets[0].slice, ast.Constant) \
                and s.targets[0].slice.value == "face_areas":
            v = s.value
            if not (isinstance(v, ast.Call) and (v.args or v.keywords)):
                raise Broken("%s: face_areas = %s" % (func, ast.dump(v)[:80]))
            d = v.args[0] if v.args else [k.value for k in v.keywords if k.arg == "data"][0]
            txt = ast.dump(d)
            if src not in txt:
                raise Broken("%s: face_areas not built from %s" % (func, src))
            inner = is_copy_call(d, False)
            if inner is not None and isinstance(inner, ast.Attribute) and inner.attr in ("values", "data"):
                return True
            if isinstance(d, ast.Call) and isinstance(d.func, ast.Attribute) and d.func.attr == "array":
                return True
            if isinstance(d, ast.Attribute) and d.attr in ("values", "data"):
                return False
            if isinstance(d, ast.Subscript):
                return False
            raise Broken("%s: face_areas data %s" % (func, txt[:80]))
    raise Broken("%s: face_areas assignment not found" % func)


def flag_returns(tree, meth):
    fn = find_func(tree, meth, cls="Grid")
    kinds = set()
    for s in ast.walk(fn):
        if isinstance(s, ast.Return) and s.value is not None:
            first = s.value.elts[0] if isinstance(s.value, ast.Tuple) else s.value
            if isinstance(first, ast.Call) and isinstance(first.func, ast.Attribute) and first.func.attr == "deepcopy":
                kinds.add(True)
            elif isinstance(first, (ast.Name, ast.Subscript)):
                kinds.add(False)
            else:
                raise Broken("Grid.%s: return %s" % (meth, ast.dump(first)[:80]))
    if len(kinds) != 1:
        raise Broken("Grid.%s: mixed return styles" % meth)
    return kinds.pop()


def flag_indices(tree):
    """Grid.to_polycollection: the index table returned next to the collection — on the cache-hit branch
    (taken from the cache dict) and on the final return (the freshly built one): copied (True) or the object
    itself (False)"""
    fn = find_func(tree, "to_polycollection", cls="Grid")
    out = {}
    for s in ast.walk(fn):
        if isinstance(s, ast.Return) and isinstance(s.value, ast.Tuple) and len(s.value.elts) == 2:
            e = s.value.elts[1]
            copied = isinstance(e, ast.Call) and isinstance(e.func, ast.Attribute) and e.func.attr in ("copy", "deepcopy")
            inner = e.args[0] if copied and e.args else e
            if isinstance(inner, ast.Subscript) and "_poly_collection_cached_parameters" in ast.dump(inner):
                site = "hit"
            elif isinstance(inner, ast.Name) and inner.id == "corrected_to_original_faces":
                site = "final"
            else:
                raise Broken("Grid.to_polycollection: returned index table %s" % ast.dump(e)[:80])
            if site in out:
                raise Broken("Grid.to_polycollection: two %s returns of the index table" % site)
            out[site] = copied
    if set(out) != {"hit", "final"}:
        raise Broken("Grid.to_polycollection: index-table returns found: %s" % sorted(out))
    return out


def main():
    repo, gen = sys.argv[1], sys.argv[2]

    def parse(rel):
        return ast.parse(open(os.path.join(repo, rel)).read())
    try:
        grid = parse("uxarray/grid/grid.py")
        flags = [("c19_f_pc_copies", flag_pc(parse("uxarray/io/_topology.py"))),
                 ("c19_f_std_copies", flag_std(parse("uxarray/io/_ugrid.py"))),
                 ("c19_f_init_copies", flag_init(grid)),
                 ("c19_f_copy_deep", flag_copy(grid)),
                 ("c19_f_export_deep", flag_export(grid)),
                 ("c19_f_scrip_copies", flag_scrip(parse("uxarray/io/_scrip.py"))),
                 ("c19_f_scrip_area_copies", flag_area(parse("uxarray/io/_scrip.py"), "_to_ugrid", "grid_area")),
                 ("c19_f_esmf_area_copies", flag_area(parse("uxarray/io/_esmf.py"), "_read_esmf", "elementArea")),
                 ("c19_f_gdf_returns_copy", flag_returns(grid, "to_geodataframe")),
                 ("c19_f_poly_returns_copy", flag_returns(grid, "to_polycollection")),
                 ("c19_f_line_returns_copy", flag_returns(grid, "to_linecollection")),
                 ("c19_f_poly_indices_hit_copy", flag_indices(grid)["hit"]),
                 ("c19_f_poly_indices_final_copy", flag_indices(grid)["final"])]
    except (Broken, SyntaxError, OSError, IndexError) as ex:
        sys.stderr.write("tie broken: %s\n" % ex)
        return 2
    lines = ["(* GENERATED by harness/translators/c19_flags.py from uxarray/io/_topology.py, io/_ugrid.py, io/_scrip.py,",
             "   grid/grid.py: the copy points the heap model relies on *)", "From Verif Require Import Base.", ""]
    for n, v in flags:
        lines.append("Definition %s : bool := %s." % (n, "true" if v else "false"))
    lines.append("")
    common.write_if_changed(os.path.join(gen, "C19_flags.v"), "\n".join(lines))
    return 0


if __name__ == "__main__":
    sys.exit(main())
