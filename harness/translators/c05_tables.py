"""Fail-closed translator: the literal quadrature tables of uxarray/grid/area.py -> coq/Gen/C05_tables.v.

    python c05_tables.py <repo> <coq/Gen dir>

Recognised shape (anything else aborts with exit status 1, "tie broken"):

  get_gauss_quadratureDG(nCount):  [docstring]
      if nCount == 1: dG = np.array([[lit, ...]]); dW = np.array([lit, ...])
      elif nCount == 2: ...            (exactly the counts 1..10, no else branch)
      dXi0 = 0.0 ; dXi1 = 1.0
      for i in range(nCount):
          dG[0][i] = dXi0 + 0.5 * (dXi1 - dXi0) * (dG[0][i] + 1.0)
          dW[i] = 0.5 * (dXi1 - dXi0) * dW[i]
      return dG, dW
  get_tri_quadratureDG(nOrder):    [docstring]
      if nOrder == 12: dG = np.array([[l, l, l], ...]); dW = np.array([l, ...])
      elif ...                         (exactly the orders 1, 4, 8, 10, 12, no else branch)
      return dG, dW
  Grid.compute_face_areas(self, quadrature_rule=<str>, order=<int>, latlon=<bool>)  (defaults) and its single
      `dim = ...` statement: `dim = 2` (z dropped on the Cartesian path) or `dim = 2 if latlon else 3` /
      `dim = 3 if not latlon else 2` (z kept on the Cartesian path)

Every numeric literal is read from its SOURCE TEXT into an exact decimal (never through a float)
and emitted as an integer numerator over a common power-of-ten denominator (the smallest one between
10^15 and 10^24 that represents all literals exactly; it is written into the generated file).  A literal that is not a
plain (optionally signed) decimal number, or that needs more than 24 decimals, aborts.
"""
import ast
import os
import sys
from decimal import Decimal
from fractions import Fraction

sys.path.insert(0, os.path.dirname(os.path.dirname(os.path.abspath(__file__))))
from common import write_if_changed  # noqa: E402

DEN = 10 ** 24
GAUSS_COUNTS = list(range(1, 11))
TRI_ORDERS = [1, 4, 8, 10, 12]


class Unknown(Exception):
    pass


def lit(src, n):
    """exact value of a numeric literal node (optionally signed), from its source text"""
    sign = 1
    while isinstance(n, ast.UnaryOp) and isinstance(n.op, (ast.UAdd, ast.USub)):
        if isinstance(n.op, ast.USub):
            sign = -sign
        n = n.operand
    if not (isinstance(n, ast.Constant) and type(n.value) in (int, float)):
        raise Unknown("not a numeric literal: " + ast.dump(n))
    txt = ast.get_source_segment(src, n)
    if txt is None:
        raise Unknown("no source text for literal")
    t = txt.replace("_", "")
    if not t or any(c not in "0123456789." for c in t) or t.count(".") > 1:
        raise Unknown("literal is not a plain decimal: %r" % txt)
    v = Fraction(Decimal(t)) * sign
    num = v * DEN
    if num.denominator != 1:
        raise Unknown("literal %r needs more than 24 decimals" % txt)
    if abs(Fraction(n.value) - abs(v)) > Fraction(1, 10 ** 15):      # float nearest to the text
        raise Unknown("literal text and value disagree: %r" % txt)
    return int(num)


def np_array_arg(n):
    if not (isinstance(n, ast.Call) and isinstance(n.func, ast.Attribute) and n.func.attr == "array"
            and isinstance(n.func.value, ast.Name) and n.func.value.id == "np"
            and len(n.args) == 1 and not n.keywords):
        raise Unknown("expected np.array(<literal list>): " + ast.dump(n)[:200])
    return n.args[0]


def list_of(n):
    if not isinstance(n, ast.List):
        raise Unknown("expected a list literal: " + ast.dump(n)[:200])
    return n.elts


def assign_to(st, name):
    if not (isinstance(st, ast.Assign) and len(st.targets) == 1 and isinstance(st.targets[0], ast.Name)
            and st.targets[0].id == name):
        raise Unknown("expected `%s = ...`: %s" % (name, ast.dump(st)[:200]))
    return st.value


def body_of(fn):
    b = fn.body
    if b and isinstance(b[0], ast.Expr) and isinstance(b[0].value, ast.Constant) and isinstance(b[0].value.value, str):
        b = b[1:]
    return b


def if_chain(st, arg):
    """[(int constant, body)] of an if/elif chain on `arg == const` without else"""
    out = []
    while True:
        if not isinstance(st, ast.If):
            raise Unknown("expected if/elif chain")
        t = st.test
        if not (isinstance(t, ast.Compare) and len(t.ops) == 1 and isinstance(t.ops[0], ast.Eq)
                and isinstance(t.left, ast.Name) and t.left.id == arg
                and isinstance(t.comparators[0], ast.Constant) and type(t.comparators[0].value) is int):
            raise Unknown("unrecognised test: " + ast.dump(t))
        out.append((t.comparators[0].value, st.body))
        if not st.orelse:
            return out
        if len(st.orelse) == 1 and isinstance(st.orelse[0], ast.If):
            st = st.orelse[0]
        else:
            raise Unknown("else branch present in the table chain")


def same(st, text):
    want = ast.dump(ast.parse(text).body[0])
    if ast.dump(st) != want:
        raise Unknown("statement differs from %r: %s" % (text, ast.unparse(st)))


def trans_gauss(src, fn):
    if [a.arg for a in fn.args.args] != ["nCount"]:
        raise Unknown("get_gauss_quadratureDG signature")
    b = body_of(fn)
    if len(b) != 5:
        raise Unknown("get_gauss_quadratureDG: expected chain, dXi0, dXi1, for, return (%d statements)" % len(b))
    rules = {}
    for cnt, body in if_chain(b[0], "nCount"):
        if len(body) != 2:
            raise Unknown("gauss %d: expected dG and dW assignments only" % cnt)
        g = list_of(np_array_arg(assign_to(body[0], "dG")))
        if len(g) != 1:
            raise Unknown("gauss %d: dG must be a 1 x n nested list" % cnt)
        gv = [lit(src, e) for e in list_of(g[0])]
        wv = [lit(src, e) for e in list_of(np_array_arg(assign_to(body[1], "dW")))]
        if len(gv) != cnt or len(wv) != cnt:
            raise Unknown("gauss %d: %d points, %d weights" % (cnt, len(gv), len(wv)))
        if cnt in rules:
            raise Unknown("gauss %d twice" % cnt)
        rules[cnt] = (gv, wv)
    if sorted(rules) != GAUSS_COUNTS:
        raise Unknown("gauss counts %s, expected 1..10" % sorted(rules))
    same(b[1], "dXi0 = 0.0")
    same(b[2], "dXi1 = 1.0")
    same(b[3], "for i in range(nCount):\n    dG[0][i] = dXi0 + 0.5 * (dXi1 - dXi0) * (dG[0][i] + 1.0)\n"
               "    dW[i] = 0.5 * (dXi1 - dXi0) * dW[i]")
    same(b[4], "return dG, dW")
    return rules


def trans_tri(src, fn):
    if [a.arg for a in fn.args.args] != ["nOrder"]:
        raise Unknown("get_tri_quadratureDG signature")
    b = body_of(fn)
    if len(b) != 2:
        raise Unknown("get_tri_quadratureDG: expected chain, return")
    rules = {}
    for order, body in if_chain(b[0], "nOrder"):
        if len(body) != 2:
            raise Unknown("tri %d: expected dG and dW assignments only" % order)
        pts = []
        for r in list_of(np_array_arg(assign_to(body[0], "dG"))):
            e = list_of(r)
            if len(e) != 3:
                raise Unknown("tri %d: point with %d coordinates" % (order, len(e)))
            pts.append(tuple(lit(src, x) for x in e))
        wv = [lit(src, e) for e in list_of(np_array_arg(assign_to(body[1], "dW")))]
        if len(pts) != len(wv) or not pts:
            raise Unknown("tri %d: %d points, %d weights" % (order, len(pts), len(wv)))
        if order in rules:
            raise Unknown("tri %d twice" % order)
        rules[order] = (pts, wv)
    if sorted(rules) != TRI_ORDERS:
        raise Unknown("tri orders %s, expected %s" % (sorted(rules), TRI_ORDERS))
    same(b[1], "return dG, dW")
    return rules


def trans_defaults(tree):
    """defaults of Grid.compute_face_areas(self, quadrature_rule, order, latlon)"""
    for cls in tree.body:
        if isinstance(cls, ast.ClassDef) and cls.name == "Grid":
            for fn in cls.body:
                if isinstance(fn, ast.FunctionDef) and fn.name == "compute_face_areas":
                    names = [a.arg for a in fn.args.args]
                    if names != ["self", "quadrature_rule", "order", "latlon"] or len(fn.args.defaults) != 3:
                        raise Unknown("compute_face_areas signature: %s" % names)
                    d = fn.args.defaults
                    if not all(isinstance(x, ast.Constant) for x in d):
                        raise Unknown("compute_face_areas defaults are not literals")
                    rule, order, latlon = d[0].value, d[1].value, d[2].value
                    if rule not in ("triangular", "gaussian") or type(order) is not int or type(latlon) is not bool:
                        raise Unknown("compute_face_areas defaults: %r %r %r" % (rule, order, latlon))
                    return rule, order, latlon, trans_dim(fn)
    raise Unknown("Grid.compute_face_areas not found")


def trans_dim(fn):
    """True iff the Cartesian path (latlon False) passes dim = 3 to get_all_face_area_from_coords"""
    assigns = [st for st in ast.walk(fn) if isinstance(st, ast.Assign) and len(st.targets) == 1
               and isinstance(st.targets[0], ast.Name) and st.targets[0].id == "dim"]
    if len(assigns) != 1:
        raise Unknown("compute_face_areas: expected exactly one `dim = ...` statement, found %d" % len(assigns))
    v = assigns[0].value

    def const(n, k):
        return isinstance(n, ast.Constant) and type(n.value) is int and n.value == k
    if const(v, 2):
        return False
    if isinstance(v, ast.IfExp):
        t = v.test
        if isinstance(t, ast.Name) and t.id == "latlon" and const(v.body, 2) and const(v.orelse, 3):
            return True
        if isinstance(t, ast.UnaryOp) and isinstance(t.op, ast.Not) and isinstance(t.operand, ast.Name) \
                and t.operand.id == "latlon" and const(v.body, 3) and const(v.orelse, 2):
            return True
    raise Unknown("compute_face_areas: unrecognised `dim` expression: " + ast.unparse(v))


def zl(xs):
    return "[" + "; ".join("%d" % x if x >= 0 else "(%d)" % x for x in xs) + "]"


def shrink(gauss, tri):
    """the smallest power-of-ten denominator (at least 10^15) that represents every literal exactly:
    keeps the integers of the certificate computation as small as the source digits allow"""
    allv = [x for g, w in gauss.values() for x in g + w] + \
           [x for p, w in tri.values() for x in [c for r in p for c in r] + w]
    k = 0
    while k < 9 and all(x % (10 ** (k + 1)) == 0 for x in allv):
        k += 1
    f = 10 ** k
    g2 = {n: ([x // f for x in g], [x // f for x in w]) for n, (g, w) in gauss.items()}
    t2 = {n: ([tuple(c // f for c in r) for r in p], [x // f for x in w]) for n, (p, w) in tri.items()}
    return g2, t2, DEN // f


def emit(gauss, tri, defaults, den):
    o = []
    o.append("(* GENERATED by harness/translators/c05_tables.py from uxarray/grid/area.py and uxarray/grid/grid.py.")
    o.append("   Do not edit: regenerated (and the dependent theorems re-checked) whenever the source changes.")
    o.append("   Every entry is the integer numerator of the source literal over the denominator c05_den below. *)")
    o.append("From Coq Require Import ZArith List.")
    o.append("Import ListNotations.")
    o.append("Open Scope Z_scope.")
    o.append("")
    o.append("Definition c05_den : Z := %d." % den)
    o.append("")
    o.append("(* get_gauss_quadratureDG: count -> (dG[0] before scaling, dW before scaling) *)")
    for c in GAUSS_COUNTS:
        g, w = gauss[c]
        o.append("Definition c05_gauss_raw_%d : list Z * list Z :=\n  (%s,\n   %s)." % (c, zl(g), zl(w)))
    o.append("Definition c05_gauss_raw_tables : list (Z * (list Z * list Z)) :=\n  [" +
             "; ".join("(%d, c05_gauss_raw_%d)" % (c, c) for c in GAUSS_COUNTS) + "].")
    o.append("")
    o.append("(* get_tri_quadratureDG: order -> (rows of dG, dW) *)")
    for k in TRI_ORDERS:
        p, w = tri[k]
        rows = ";\n    ".join("(%d, %d, %d)" % r for r in p)
        o.append("Definition c05_tri_raw_%d : list (Z * Z * Z) * list Z :=\n  ([%s],\n   %s)." % (k, rows, zl(w)))
    o.append("Definition c05_tri_raw_tables : list (Z * (list (Z * Z * Z) * list Z)) :=\n  [" +
             "; ".join("(%d, c05_tri_raw_%d)" % (k, k) for k in TRI_ORDERS) + "].")
    o.append("")
    o.append("(* defaults of Grid.compute_face_areas(quadrature_rule, order, latlon) *)")
    o.append("Definition c05_default_is_triangular : bool := %s." % ("true" if defaults[0] == "triangular" else "false"))
    o.append("Definition c05_default_order : Z := %d." % defaults[1])
    o.append("Definition c05_default_latlon : bool := %s." % ("true" if defaults[2] else "false"))
    o.append("(* `dim` passed by compute_face_areas when latlon is False: true = 3 (node_z used), false = 2 (node_z dropped) *)")
    o.append("Definition c05_dim_cartesian3 : bool := %s." % ("true" if defaults[3] else "false"))
    return "\n".join(o) + "\n"


def main():
    repo, gen = sys.argv[1], sys.argv[2]
    try:
        path = os.path.join(repo, "uxarray", "grid", "area.py")
        src = open(path).read()
        tree = ast.parse(src)
        fns = {f.name: f for f in tree.body if isinstance(f, ast.FunctionDef)}
        for need in ("get_gauss_quadratureDG", "get_tri_quadratureDG"):
            if need not in fns:
                raise Unknown("function %s not found in area.py" % need)
        gauss = trans_gauss(src, fns["get_gauss_quadratureDG"])
        tri = trans_tri(src, fns["get_tri_quadratureDG"])
        gsrc = open(os.path.join(repo, "uxarray", "grid", "grid.py")).read()
        defaults = trans_defaults(ast.parse(gsrc))
        gauss, tri, den = shrink(gauss, tri)
        text = emit(gauss, tri, defaults, den)
    except (Unknown, OSError, SyntaxError) as e:
        sys.stderr.write("c05_tables: tie broken: %s\n" % e)
        print("c05_tables: tie broken: %s" % e)
        return 1
    write_if_changed(os.path.join(gen, "C05_tables.v"), text)
    return 0


if __name__ == "__main__":
    sys.exit(main())
