"""C13's model imports the C14 model, which needs coq/Gen/C14_consts.v: regenerate it with the C14 translator
(same fail-closed behaviour) whenever the C13 check runs."""
import os
import runpy
import sys

if __name__ == "__main__":
    here = os.path.dirname(os.path.abspath(__file__))
    sys.argv = [os.path.join(here, "c14_consts.py")] + sys.argv[1:]
    runpy.run_path(os.path.join(here, "c14_consts.py"), run_name="__main__")
