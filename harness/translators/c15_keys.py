"""C15 translator (fail-closed): regenerates coq/Gen/C15_keys.v from the source of
Grid.to_geodataframe / to_polycollection / to_linecollection (uxarray/grid/grid.py), of the
geometry builders (uxarray/grid/geometry.py) and of UxDataArray.to_geodataframe/to_polycollection
(uxarray/core/dataarray.py):

  *_compared   keys of the cache dict compared with the call's arguments to force `override`
  *_stored     keys written under `if cache:` together with the argument they are written from
  *_stored_uncond  argument keys written at the top level of the method, whatever the cache flag
  *_uncond     side-table keys written by the builder regardless of the cache flag
  *_read       side-table keys UxDataArray.* reads back from the grid's cache dict
  *_returns    how the cached / fresh object is handed out: 0 = the object itself, 1 = copy.deepcopy

usage: c15_keys.py <repo> <coq/Gen dir>.  Any source shape that is not recognised aborts (exit 2).
"""
import ast
import warnings
warnings.simplefilter("ignore")
import os
import sys

sys.path.insert(0, os.path.dirname(os.path.dirname(os.path.abspath(__file__))))
import common  # noqa: E402

TOK = {"periodic_elements": 1, "projection": 2, "engine": 3,
       "non_nan_polygon_indices": 11, "corrected_to_original_faces": 12, "antimeridian_face_indices": 13}
METHODS = {"to_geodataframe": ("_gdf_cached_parameters", "gdf", "gdf"),
           "to_polycollection": ("_poly_collection_cached_parameters", "poly_collection", "poly"),
           "to_linecollection": ("_line_collection_cached_parameters", "line_collection", "line")}
BUILDERS = {"_grid_to_polygon_geodataframe": "gdf", "_grid_to_matplotlib_polycollection": "poly",
            "_grid_to_matplotlib_linecollection": "line", "_get_polygons": "line"}
DA_METHODS = {"to_geodataframe": ("_gdf_cached_parameters", "gdf"), "to_polycollection": ("_poly_collection_cached_parameters", "poly")}


class Broken(Exception):
    pass


def is_self_cache(node, cache, owner="self"):
    """node is <owner>.<cache>[<const>] -> the constant, else None"""
    if isinstance(node, ast.Subscript) and isinstance(node.value, ast.Attribute) and node.value.attr == cache:
        v = node.value.value
        ok = (isinstance(v, ast.Name) and v.id == owner) or \
             (owner == "self.uxgrid" and isinstance(v, ast.Attribute) and v.attr == "uxgrid"
              and isinstance(v.value, ast.Name) and v.value.id == "self")
        if ok and isinstance(node.slice, ast.Constant) and isinstance(node.slice.value, str):
            return node.slice.value
    return None


def find_func(tree, name, cls=None):
    for n in ast.walk(tree):
        if cls and isinstance(n, ast.ClassDef) and n.name == cls:
            for m in n.body:
                if isinstance(m, ast.FunctionDef) and m.name == name:
                    return m
        if not cls and isinstance(n, ast.FunctionDef) and n.name == name:
            return n
    raise Broken("function %s not found" % name)


def params_of(fn):
    return [a.arg for a in fn.args.args + fn.args.kwonlyargs]


def analyse_method(fn, cache, objkey):
    params = params_of(fn)
    compared, stored, stored_tables = None, None, None
    returns = set()
    for node in ast.walk(fn):
        # ---- the comparison block:  if <cache>[obj] is not None: if (A != a or ...): override = True
        if isinstance(node, ast.If) and isinstance(node.test, ast.BoolOp) and isinstance(node.test.op, ast.Or):
            body_ok = len(node.body) == 1 and isinstance(node.body[0], ast.Assign) and \
                isinstance(node.body[0].targets[0], ast.Name) and node.body[0].targets[0].id == "override" and \
                isinstance(node.body[0].value, ast.Constant) and node.body[0].value.value is True
            if not body_ok:
                continue
            keys = []
            for cmp_ in node.test.values:
                if not (isinstance(cmp_, ast.Compare) and len(cmp_.ops) == 1 and isinstance(cmp_.ops[0], ast.NotEq)):
                    raise Broken("%s: comparison shape" % fn.name)
                k = is_self_cache(cmp_.left, cache)
                r = cmp_.comparators[0]
                if k is None or not isinstance(r, ast.Name) or r.id not in params or r.id != k:
                    raise Broken("%s: compared key %r against %s" % (fn.name, k, ast.dump(r)))
                keys.append(k)
            if compared is not None:
                raise Broken("%s: two comparison blocks" % fn.name)
            compared = keys
        # ---- single comparison (no `or`) is not expected
        if isinstance(node, ast.If) and isinstance(node.test, ast.Name) and node.test.id == "cache":
            st, tb = [], []
            for s in node.body:
                if not (isinstance(s, ast.Assign) and len(s.targets) == 1):
                    raise Broken("%s: statement under `if cache`" % fn.name)
                k = is_self_cache(s.targets[0], cache)
                if k is None or not isinstance(s.value, ast.Name):
                    raise Broken("%s: store shape under `if cache`" % fn.name)
                if k == objkey:
                    continue
                if k in ("periodic_elements", "projection", "engine"):
                    if s.value.id != k:
                        raise Broken("%s: key %s stored from %s" % (fn.name, k, s.value.id))
                    st.append(k)
                else:
                    tb.append(k)
            if stored is not None:
                raise Broken("%s: two `if cache` blocks" % fn.name)
            stored, stored_tables = st, tb
        if isinstance(node, ast.Return) and node.value is not None:
            for sub in ast.walk(node.value):
                if isinstance(sub, ast.Call) and isinstance(sub.func, ast.Attribute) and sub.func.attr == "deepcopy":
                    returns.add(1)
            vals = node.value.elts if isinstance(node.value, ast.Tuple) else [node.value]
            first = vals[0]
            if isinstance(first, ast.Name) or is_self_cache(first, cache) == objkey:
                returns.add(0)
            elif isinstance(first, ast.Call) and isinstance(first.func, ast.Attribute) and first.func.attr == "deepcopy":
                returns.add(1)
            else:
                raise Broken("%s: return shape %s" % (fn.name, ast.dump(first)[:80]))
    if compared is None or stored is None:
        raise Broken("%s: comparison or store block not found" % fn.name)
    # writes of argument keys at the top level of the method body (regardless of the cache flag)
    uncond = []
    for node in fn.body:
        if isinstance(node, ast.Assign):
            for t in node.targets:
                k = is_self_cache(t, cache)
                if k is None:
                    continue
                if k in ("periodic_elements", "projection", "engine") and isinstance(node.value, ast.Name) and node.value.id == k:
                    uncond.append(k)
                else:
                    raise Broken("%s: unconditional cache write %s" % (fn.name, k))
    # any other write into the cache dict inside the method must be one of the recognised ones
    for node in ast.walk(fn):
        if isinstance(node, ast.Assign):
            for t in node.targets:
                k = is_self_cache(t, cache)
                if k is not None and k != objkey and k not in stored and k not in stored_tables and k not in uncond:
                    raise Broken("%s: unexpected cache write %s" % (fn.name, k))
    if len(returns) != 1:
        raise Broken("%s: mixed return styles %s" % (fn.name, returns))
    return compared, stored, stored_tables, returns.pop(), uncond


def builder_writes(tree):
    out = {"gdf": [], "poly": [], "line": []}
    caches = {v[0]: v[2] for v in METHODS.values()}
    for name, which in BUILDERS.items():
        fn = find_func(tree, name)
        for node in ast.walk(fn):
            if isinstance(node, ast.Assign):
                for t in node.targets:
                    for cache, w in caches.items():
                        k = is_self_cache(t, cache, owner="grid")
                        if k is not None:
                            if w != which:
                                raise Broken("%s writes into the %s cache" % (name, w))
                            # must be unconditional: direct child of the function body
                            if node not in fn.body:
                                raise Broken("%s: conditional side-table write %s" % (name, k))
                            if k not in TOK:
                                raise Broken("%s: unknown side table %s" % (name, k))
                            out[which].append(k)
    return out


def da_reads(tree):
    out = {"gdf": [], "poly": []}
    for name, (cache, which) in DA_METHODS.items():
        fn = find_func(tree, name, cls="UxDataArray")
        for node in ast.walk(fn):
            k = is_self_cache(node, cache, owner="self.uxgrid") if isinstance(node, ast.Subscript) else None
            if k is not None:
                if k not in TOK:
                    raise Broken("UxDataArray.%s reads unknown key %s" % (name, k))
                if k not in out[which]:
                    out[which].append(k)
        # writes into the object returned by the grid (the data column)
    return out


def da_writes_column(tree):
    """(does UxDataArray.to_geodataframe assign a column into a frame named gdf,
        is that frame a copy of the one received from the grid)"""
    fn = find_func(tree, "to_geodataframe", cls="UxDataArray")
    writes, copies = 0, 0
    for node in ast.walk(fn):
        if isinstance(node, ast.Assign):
            for t in node.targets:
                if isinstance(t, ast.Subscript) and isinstance(t.value, ast.Name) and t.value.id == "gdf":
                    writes = 1
                if isinstance(t, ast.Name) and t.id == "gdf":
                    v = node.value
                    is_copy = isinstance(v, ast.Call) and isinstance(v.func, ast.Attribute) and v.func.attr in ("copy", "deepcopy") \
                        and (any(isinstance(a, ast.Name) and a.id == "gdf" for a in v.args)
                             or (isinstance(v.func.value, ast.Name) and v.func.value.id == "gdf"))
                    if not is_copy:
                        raise Broken("UxDataArray.to_geodataframe: gdf rebound to %s" % ast.dump(v)[:80])
                    copies = 1
    return writes, copies


def split_site(tree):
    """_build_corrected_polygon_shells: is antimeridian.fix_polygon applied to every polygon (0) or only under
    a per-polygon crossing test (1)"""
    fn = find_func(tree, "_build_corrected_polygon_shells")
    for node in ast.walk(fn):
        if isinstance(node, ast.Assign) and isinstance(node.targets[0], ast.Name) and node.targets[0].id == "corrected_polygons":
            v = node.value
            if not isinstance(v, ast.ListComp):
                raise Broken("_build_corrected_polygon_shells: corrected_polygons is no list comprehension")
            e = v.elt

            def is_fix(x):
                return isinstance(x, ast.Call) and isinstance(x.func, ast.Attribute) and x.func.attr == "fix_polygon"
            if is_fix(e):
                return 0
            if isinstance(e, ast.IfExp) and is_fix(e.body) and isinstance(e.orelse, ast.Name) and ">=" in ast.unparse(e.test) \
                    and "180" in ast.unparse(e.test):
                return 1
            raise Broken("_build_corrected_polygon_shells: element %s" % ast.unparse(e)[:80])
    raise Broken("_build_corrected_polygon_shells: corrected_polygons not found")


def zl(keys):
    return "[" + "; ".join(str(TOK[k]) for k in keys) + "]"


def main():
    repo, gen = sys.argv[1], sys.argv[2]
    try:
        gtree = ast.parse(open(os.path.join(repo, "uxarray/grid/grid.py")).read())
        geo = ast.parse(open(os.path.join(repo, "uxarray/grid/geometry.py")).read())
        da = ast.parse(open(os.path.join(repo, "uxarray/core/dataarray.py")).read())
        lines = ["(* GENERATED by harness/translators/c15_keys.py from uxarray/grid/grid.py, geometry.py, core/dataarray.py.",
                 "   key tokens: periodic_elements 1, projection 2, engine 3; side tables: non_nan_polygon_indices 11,",
                 "   corrected_to_original_faces 12, antimeridian_face_indices 13 *)",
                 "From Verif Require Import Base.", ""]
        bw = builder_writes(geo)
        rd = da_reads(da)
        for meth, (cache, objkey, short) in METHODS.items():
            fn = find_func(gtree, meth, cls="Grid")
            compared, stored, tables, ret, uncond = analyse_method(fn, cache, objkey)
            lines.append("Definition c15_%s_compared : list Z := %s." % (short, zl(compared)))
            lines.append("Definition c15_%s_stored : list Z := %s." % (short, zl(stored)))
            lines.append("Definition c15_%s_stored_uncond : list Z := %s." % (short, zl(uncond)))
            lines.append("Definition c15_%s_stored_tables : list Z := %s." % (short, zl(tables)))
            lines.append("Definition c15_%s_uncond_tables : list Z := %s." % (short, zl(bw[short])))
            lines.append("Definition c15_%s_read_tables : list Z := %s." % (short, zl(rd.get(short, []))))
            lines.append("Definition c15_%s_returns_copy : bool := %s." % (short, "true" if ret == 1 else "false"))
            lines.append("")
        w, cp = da_writes_column(da)
        lines.append("Definition c15_da_gdf_writes_column : bool := %s." % ("true" if w else "false"))
        lines.append("Definition c15_da_gdf_copies : bool := %s." % ("true" if cp else "false"))
        lines.append("(* PolyCollection 'split': antimeridian.fix_polygon only for polygons with an edge spanning >= 180 *)")
        lines.append("Definition c15_poly_split_only_crossing : bool := %s." % ("true" if split_site(geo) else "false"))
        lines.append("")
    except (Broken, SyntaxError, OSError) as ex:
        sys.stderr.write("tie broken: %s\n" % ex)
        return 2
    common.write_if_changed(os.path.join(gen, "C15_keys.v"), "\n".join(lines))
    return 0


if __name__ == "__main__":
    sys.exit(main())
