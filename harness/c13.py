"""C13 — face latitude/longitude bounds enclose the face and are tight.

Proof: coq/Props/C13_props.v about coq/Model/C13.v (periodic longitude box logic, normal / pole branches of
_populate_face_latlon_bound), parametrised by per-edge extreme latitudes that are tied to the C14 model
(c14_extreme_spec) on every case.
Tie: faces are strictly convex polygons given by integer direction vectors (reusing the C14 exact geometry);
the implementation gets lon/lat in degrees through Grid.from_topology and is observed at Grid.bounds.  The
property clauses are evaluated on the reported box against an independent exact oracle (extreme latitude per edge,
pole containment by exact triple-product signs, unwrapped longitude chain).  The extracted model is run with the
outcomes of the float primitives the real code calls (_pole_point_inside_polygon, point_within_gca), so a
change of the box / branch logic shows as a divergence.
"""
import json
import math
import os
import warnings
from fractions import Fraction

import numpy as np

import common
from common import sx
import c14
from c14 import dot, cross, neg, nsq, reduce, lattice, matvec, frot, on_arc, lat_of, _angle, extreme_oracle

TOL = 1.0e-9             # rad, DESIGN appendix B
MARGIN = 1.0e-6          # rad
SNAP = c14.SNAP
UNIT = 10 ** 15          # model unit: 1e-15 degree
P_UNITS = 360 * UNIT
H_UNITS = 90 * UNIT
FILL = common.FILL
TWO_PI = 2 * math.pi

# ---------------------------------------------------------------------------------------------
# exact / high-precision geometry of a face


def lon_of(v):
    """longitude in [0, 2pi) of a direction (not a pole)"""
    h = c14.norm_frac((v[0], v[1], 0))
    return math.atan2(float(Fraction(v[1]) / h), float(Fraction(v[0]) / h)) % TWO_PI


def is_pole_vec(v):
    return v[0] == 0 and v[1] == 0


def convex_ccw(vs):
    n = len(vs)
    for i in range(n):
        a, b = vs[i], vs[(i + 1) % n]
        nrm = cross(a, b)
        for j in range(n):
            if j != i and j != (i + 1) % n and dot(nrm, vs[j]) <= 0:
                return False
    return True


def dist_point_arc(p, a, b):
    """angular distance from the direction p to the minor arc a..b"""
    n = cross(a, b)
    # foot of the perpendicular: p - (p.n/|n|^2) n  ~  |n|^2 p - (p.n) n
    t = dot(n, p)
    foot = tuple(nsq(n) * p[i] - t * n[i] for i in range(3))
    if any(foot) and on_arc(a, b, foot):
        return c14.plane_dist(a, b, p)
    return min(_angle(p, a), _angle(p, b))


def pole_status(vs, pole):
    """'corner', 'edge', 'inside', 'outside' and the distance of the pole from the boundary"""
    n = len(vs)
    if any(v == pole for v in vs):
        return "corner", 0.0
    d = min(dist_point_arc(pole, vs[i], vs[(i + 1) % n]) for i in range(n))
    for i in range(n):
        if on_arc(vs[i], vs[(i + 1) % n], pole):
            return "edge", 0.0
    inside = all(dot(cross(vs[i], vs[(i + 1) % n]), pole) > 0 for i in range(n))
    return ("inside" if inside else "outside"), d


def oracle_bounds(vs):
    """exact bounds of the face: dict with lat_min, lat_max, lon_lo, lon_width (radians) and scope information"""
    n = len(vs)
    north, dn = pole_status(vs, (0, 0, 1))
    south, ds = pole_status(vs, (0, 0, -1))
    edges = [(vs[i], vs[(i + 1) % n]) for i in range(n)]
    lat_max = max(extreme_oracle(a, b, True) for a, b in edges)
    lat_min = min(extreme_oracle(a, b, False) for a, b in edges)
    if north in ("inside", "corner", "edge"):
        lat_max = math.pi / 2
    if south in ("inside", "corner", "edge"):
        lat_min = -math.pi / 2
    full = north == "inside" or south == "inside"
    # unwrapped longitude chain over the non-pole corners (longitude is monotone along a minor arc)
    pts = [v for v in vs if not is_pole_vec(v)]
    lons = [lon_of(v) for v in pts]
    chain = [lons[0]]
    for k in range(1, len(lons)):
        d = (lons[k] - lons[k - 1] + math.pi) % TWO_PI - math.pi
        chain.append(chain[-1] + d)
    lo, hi = min(chain), max(chain)
    # is REFERENCE_POINT_EQUATOR = (1,0,0), the far end of the reference arcs of _pole_point_inside_polygon, inside the face?
    ref_in = all(dot(cross(vs[i], vs[(i + 1) % n]), (1, 0, 0)) >= 0 for i in range(n))
    zs = [v[2] for v in vs]
    location = "North" if all(z > 0 for z in zs) else ("South" if all(z < 0 for z in zs) else "Equator")
    # ... or exactly in the interior of an edge?
    ref_on_edge = (1, 0, 0) not in vs and any(on_arc(vs[i], vs[(i + 1) % n], (1, 0, 0)) for i in range(n))
    res = {"north": north, "south": south, "ref_point_inside": ref_in, "location": location, "ref_point_on_edge": ref_on_edge, "pole_dist": min(dn if north != "corner" else 9.0, ds if south != "corner" else 9.0),
           "lat_min": lat_min, "lat_max": lat_max, "full": full,
           "lon_lo": 0.0 if full else lo % TWO_PI, "lon_width": TWO_PI if full else hi - lo,
           "max_edge": max(_angle(a, b) for a, b in edges)}
    return res


# ---------------------------------------------------------------------------------------------
# implementation side

_impl = {}


def impl():
    if not _impl:
        warnings.filterwarnings("ignore")
        import uxarray as ux
        from uxarray.grid import geometry as geo
        from uxarray.grid.arcs import extreme_gca_latitude, point_within_gca
        from uxarray.utils.computing import isclose, allclose
        from uxarray.constants import ERROR_TOLERANCE
        _impl.update(ux=ux, geo=geo, ext=extreme_gca_latitude, pwg=point_within_gca, isclose=isclose, allclose=allclose,
                     tol=float(ERROR_TOLERANCE))
    return _impl


def face_lonlat_deg(face):
    """float degrees given to the implementation (pole corners carry the nominal longitude of the case)"""
    lon, lat = [], []
    for k, v in enumerate(face["corners"]):
        if is_pole_vec(v):
            lat.append(90.0 if v[2] > 0 else -90.0)
            lon.append(float(face.get("pole_lon", 0.0)))
        else:
            la = math.degrees(lat_of(v))
            lo = math.degrees(lon_of(v))
            if lo > 180.0:
                lo -= 360.0
            lon.append(lo)
            lat.append(la)
    return lon, lat


def build_grid(faces):
    I = impl()
    lon, lat, conn = [], [], []
    w = max(len(f["corners"]) for f in faces)
    for f in faces:
        flon, flat = face_lonlat_deg(f)
        row = list(range(len(lon), len(lon) + len(flon)))
        lon += flon
        lat += flat
        conn.append(row + [FILL] * (w - len(row)))
    return I["ux"].Grid.from_topology(np.array(lon, dtype=float), np.array(lat, dtype=float),
                                      np.array(conn, dtype=np.intp), fill_value=FILL)


SOURCES = ("topology", "xyz_bounds_first", "xyz_lonlat_first", "xyz_isel", "vertices_lonlat")


def build_grid_vertices(faces, source):
    """Grid.from_face_vertices for faces of ONE size: Cartesian-only (latlon=False) or lon/lat vertices"""
    I = impl()
    if source == "vertices_lonlat":
        arr = np.array([[list(p) for p in zip(*face_lonlat_deg(f))] for f in faces], dtype=float)
        return I["ux"].Grid.from_face_vertices(arr, latlon=True)
    arr = np.array([[c14.unitf(v) for v in f["corners"]] for f in faces], dtype=float)
    return I["ux"].Grid.from_face_vertices(arr, latlon=False)


def bounds_of(faces, source):
    """Grid.bounds (radians) of the faces for one source / provenance class and order of first access"""
    if source == "topology":
        return build_grid(faces).bounds.values
    g = build_grid_vertices(faces, source)
    if source == "xyz_lonlat_first":
        _ = g.node_lon.values, g.node_lat.values
        return g.bounds.values
    if source == "xyz_isel":
        # a subset of a FRESH Cartesian-only grid (nothing derived yet), all faces in reverse order
        idx = list(range(len(faces)))[::-1]
        b = g.isel(n_face=idx).bounds.values
        out = np.empty_like(b)
        for k, i in enumerate(idx):
            out[i] = b[k]
        return out
    return g.bounds.values          # xyz_bounds_first / vertices_lonlat: bounds is the first thing read


def impl_bounds(faces, source="topology"):
    """list of 2x2 lists (radians) or ('EXC', repr) per face; batches first, single faces when a batch raises.
    from_face_vertices needs faces of one size: other sources than "topology" are batched by corner count"""
    if source != "topology" and len({len(f["corners"]) for f in faces}) > 1:
        out = [None] * len(faces)
        for n in sorted({len(f["corners"]) for f in faces}):
            idx = [i for i, f in enumerate(faces) if len(f["corners"]) == n]
            for i, b in zip(idx, impl_bounds([faces[i] for i in idx], source)):
                out[i] = b
        return out
    try:
        b = bounds_of(faces, source)
        return [b[i].tolist() for i in range(len(faces))]
    except Exception as e:
        if len(faces) == 1:
            return [("EXC", repr(e))]
    out = []
    for f in faces:
        out += impl_bounds([f], source)
    return out


def impl_primitives(face):
    """outcomes of the float primitives _populate_face_latlon_bound calls for this face, obtained by calling the real
    functions on the real float arrays (they are checked on their own by C14)"""
    I = impl()
    # the same float coordinates as the evaluated variant sees (lon/lat degrees vs unit Cartesian vectors differ in the last
    # bit, which decides zero-margin situations such as the reference point lying exactly on an edge)
    src = face.get("source", "topology")
    g = build_grid([face]) if src == "topology" else build_grid_vertices([face], src)
    from uxarray.grid.utils import _get_cartesian_face_edge_nodes, _get_lonlat_rad_face_edge_nodes
    fe_cart = _get_cartesian_face_edge_nodes(g.face_node_connectivity.values, g.n_face, g.n_max_face_edges,
                                             g.node_x.values, g.node_y.values, g.node_z.values)[0]
    fe_ll = _get_lonlat_rad_face_edge_nodes(g.face_node_connectivity.values, g.n_face, g.n_max_face_edges,
                                            g.node_lon.values, g.node_lat.values)[0]
    geo = I["geo"]
    try:
        hn = bool(geo._pole_point_inside_polygon("North", fe_cart))
        hs = bool(geo._pole_point_inside_polygon("South", fe_cart))
    except Exception as e:
        return {"error": repr(e)}
    pole_pt = np.array([0.0, 0.0, 1.0]) if hn else np.array([0.0, 0.0, -1.0])
    edges = []
    for i in range(fe_cart.shape[0]):
        n1, n2 = fe_cart[i]
        (lon1, lat1), (lon2, lat2) = fe_ll[i]
        emax, emin = float(I["ext"](np.array([n1, n2]), "max")), float(I["ext"](np.array([n1, n2]), "min"))
        here = False
        if hn or hs:
            try:
                here = bool(I["allclose"](n1, pole_pt, atol=I["tol"])) or bool(I["pwg"](pole_pt, np.array([n1, n2]), is_directed=False))
            except Exception:
                here = False
        edges.append({"lat1": float(lat1), "lon1": float(lon1), "lat2": float(lat2), "emax": emax, "emin": emin,
                      "here": here})
    return {"has_north": hn, "has_south": hs, "edges": edges}


# ---------------------------------------------------------------------------------------------
# model side: integer units of 1e-15 degree


def rad_to_units(x):
    return int(round(Fraction(x) * 180 * UNIT / Fraction(math.pi)))


def lat_cmp(u, v):
    """exact sign of lat(u) - lat(v) for integer directions"""
    a, b = Fraction(u[2]), Fraction(v[2])
    if (a > 0) != (b > 0) or a == 0 or b == 0:
        sa = (a > 0) - (a < 0)
        sb = (b > 0) - (b < 0)
        if sa != sb:
            return (sa > sb) - (sa < sb)
    l, r = a * a * nsq(v), b * b * nsq(u)
    if a >= 0:
        return (l > r) - (l < r)
    return (l < r) - (l > r)


def extreme_attained(a, b, is_max):
    """where the extreme latitude of the arc is attained: 'a', 'b', 'both' or 'apex' (exact)"""
    n = cross(a, b)
    top = c14.apex(n) if is_max else neg(c14.apex(n))
    if any(top) and on_arc(a, b, top) and any(cross(top, a)) and any(cross(top, b)):
        return "apex"
    c = lat_cmp(a, b)
    if c == 0:
        return "both"
    if (c > 0) == is_max:
        return "a"
    return "b"


def units_to_rad(u):
    return float(Fraction(u, UNIT)) * math.pi / 180.0


def model_case(face, prim, oracle_poles=None):
    """S-expression for the extracted model.  Latitudes/longitudes of the nodes are the float values the
    implementation works with; the extremes are the exact ones (C14 oracle).  With oracle_poles the pole containment
    and the pole-on-edge flags are the exact ones instead of the implementation's."""
    vs = face["corners"]
    n = len(vs)
    es = []
    for i, pe in enumerate(prim["edges"]):
        a, b = vs[i], vs[(i + 1) % n]
        lat1, lat2 = rad_to_units(pe["lat1"]), rad_to_units(pe["lat2"])
        lon1 = rad_to_units(pe["lon1"])
        wmax, wmin = extreme_attained(a, b, True), extreme_attained(a, b, False)
        emax = max(rad_to_units(extreme_oracle(a, b, True)), lat1 + 1, lat2 + 1) if wmax == "apex" else max(lat1, lat2)
        emin = min(rad_to_units(extreme_oracle(a, b, False)), lat1 - 1, lat2 - 1) if wmin == "apex" else min(lat1, lat2)
        here = pe["here"]
        if oracle_poles is not None:
            pole = (0, 0, 1) if oracle_poles[0] else (0, 0, -1)
            here = (a == pole) or on_arc(a, b, pole)
        es.append([lat1, lon1, lat2, emax, emin, 1 if here else 0])
    hn, hs = (prim["has_north"], prim["has_south"]) if oracle_poles is None else oracle_poles
    return sx([P_UNITS, H_UNITS, 1 if hn else 0, 1 if hs else 0, es])


def box_to_rad(box):
    """model box (units; lon_hi may be P for the full circle) -> [[lat_lo, lat_hi], [lon_lo, lon_hi]] in radians"""
    return [[units_to_rad(box[0]), units_to_rad(box[1])], [units_to_rad(box[2]), units_to_rad(box[3])]]


# ---------------------------------------------------------------------------------------------
# clauses


def lon_width(lo, hi):
    if lo <= hi:
        return hi - lo
    return TWO_PI - lo + hi


def check_box(box, orc):
    """property clauses on a reported box; returns list of (clause, amount)"""
    out = []
    (la0, la1), (lo, hi) = box
    if not all(math.isfinite(x) for x in (la0, la1, lo, hi)) or abs(la0) > 2 or abs(la1) > 2:
        return [("not_a_box", 0.0)]
    if la0 > orc["lat_min"] + TOL:
        out.append(("lat_enclose", la0 - orc["lat_min"]))
    if la1 < orc["lat_max"] - TOL:
        out.append(("lat_enclose", orc["lat_max"] - la1))
    if la0 < orc["lat_min"] - TOL:
        out.append(("lat_tight", orc["lat_min"] - la0))
    if la1 > orc["lat_max"] + TOL:
        out.append(("lat_tight", la1 - orc["lat_max"]))
    W = lon_width(lo, hi)
    if orc["full"]:
        if not (abs(lo) <= TOL and abs(hi - TWO_PI) <= TOL):
            out.append(("lon_enclose", TWO_PI - W))
    else:
        off = (orc["lon_lo"] - lo) % TWO_PI
        if off > TWO_PI - TOL:
            off -= TWO_PI
        if off < -TOL or off + orc["lon_width"] > W + TOL:
            out.append(("lon_enclose", max(-off, off + orc["lon_width"] - W)))
        if W > orc["lon_width"] + TOL:
            out.append(("lon_tight", W - orc["lon_width"]))
    return out


def boxes_close(b1, b2, tol=TOL):
    (a0, a1), (l0, h0) = b1
    (c0, c1), (l1, h1) = b2
    def lon_close(x, y):
        d = abs(x - y) % TWO_PI
        return min(d, TWO_PI - d) <= tol
    full1 = abs(l0) <= tol and abs(h0 - TWO_PI) <= tol
    full2 = abs(l1) <= tol and abs(h1 - TWO_PI) <= tol
    if full1 != full2:
        return False
    return abs(a0 - c0) <= tol and abs(a1 - c1) <= tol and (full1 or (lon_close(l0, l1) and lon_close(h0, h1)))


# ---------------------------------------------------------------------------------------------
# generators


def circle_polygon(rng, centre_frame, rho, n, irregular=True):
    """float corners on (about) a small circle of angular radius rho around the frame's z axis, counter-clockwise seen
    from outside; centre_frame = (e1, e2, c) right handed"""
    e1, e2, c = centre_frame
    while True:
        th = sorted(rng.uniform(0, TWO_PI) for _ in range(n))
        gaps = [(th[(i + 1) % n] - th[i]) % TWO_PI for i in range(n)]
        if min(gaps) > 0.25 and max(gaps) < math.pi - 0.2:
            break
    pts = []
    for t in th:
        r = rho * (rng.uniform(0.85, 1.0) if irregular else 1.0)
        pts.append(tuple(math.cos(r) * c[i] + math.sin(r) * (math.cos(t) * e1[i] + math.sin(t) * e2[i]) for i in range(3)))
    return pts


def frame_at(lon, lat, spin):
    """right-handed frame (e1, e2, c) with c at (lon, lat)"""
    c = (math.cos(lat) * math.cos(lon), math.cos(lat) * math.sin(lon), math.sin(lat))
    east = (-math.sin(lon), math.cos(lon), 0.0)
    north = (-math.sin(lat) * math.cos(lon), -math.sin(lat) * math.sin(lon), math.cos(lat))
    e1 = tuple(math.cos(spin) * east[i] + math.sin(spin) * north[i] for i in range(3))
    e2 = tuple(-math.sin(spin) * east[i] + math.cos(spin) * north[i] for i in range(3))
    return e1, e2, c


def gen_face(rng, fam):
    if fam == "long_equator_edge":
        return gen_long_equator_edge(rng)
    if fam == "pole_inside_near_corner":
        return gen_pole_inside_near_corner(rng)
    if fam == "small_cap_near_edge":
        return gen_small_cap_near_edge(rng)
    if fam == "edge_through_ref":
        return gen_edge_through_ref(rng)
    if fam == "ref_point_at_vertex":
        return gen_edge_through_ref(rng, at_vertex=True)
    n = rng.choice([3, 3, 4, 4, 4, 5, 6, 7, 8])
    spin = rng.uniform(0, TWO_PI)
    f = {"family": fam}
    if fam == "latlon_quad":
        lon0 = rng.choice([rng.uniform(-180, 180), rng.uniform(-3, 3), 180 - rng.uniform(-3, 3)])
        dlon = rng.choice([rng.uniform(0.05, 5), rng.uniform(5, 60)])
        lat0 = rng.uniform(-85, 80)
        dlat = rng.uniform(0.05, min(30, 88 - lat0))
        def pt(lo, la):
            lo, la = math.radians(lo), math.radians(la)
            u = (int(round(1024 * 1024 * math.cos(lo))), int(round(1024 * 1024 * math.sin(lo))))
            return c14.merid_pt(u, la)
        # the two meridian edges are exactly in meridian planes: same integer direction u for both corners
        lo0, lo1 = math.radians(lon0), math.radians(lon0 + dlon)
        u0 = (int(round(1048576 * math.cos(lo0))), int(round(1048576 * math.sin(lo0))))
        u1 = (int(round(1048576 * math.cos(lo1))), int(round(1048576 * math.sin(lo1))))
        la0, la1 = math.radians(lat0), math.radians(lat0 + dlat)
        f["corners"] = [c14.merid_pt(u0, la0), c14.merid_pt(u1, la0), c14.merid_pt(u1, la1), c14.merid_pt(u0, la1)]
        return f
    if fam == "small":
        rho = 10 ** rng.uniform(-3, -2)
    elif fam == "big":
        rho = rng.uniform(0.6, 1.2)
    else:
        rho = 10 ** rng.uniform(-2, -0.3)
    lon = rng.uniform(-math.pi, math.pi)
    lat = math.asin(rng.uniform(-1, 1))
    if fam == "seam":
        lon = rng.choice([0.0, math.pi]) + rng.uniform(-0.5, 0.5) * rho
    elif fam == "equator":
        lat = rng.uniform(-0.5, 0.5) * rho
    elif fam == "pole_inside":
        s = rng.choice([1, -1])
        rho = max(rho, 5e-3)
        lat = s * (math.pi / 2 - rng.uniform(0.0, 0.55) * rho)
    elif fam == "pole_near":
        s = rng.choice([1, -1])
        lat = s * (math.pi / 2 - rng.uniform(1.2, 2.5) * rho)
        if abs(lat) > math.pi / 2 - rho - 3 * SNAP:
            lat = s * (math.pi / 2 - rho - 4 * SNAP - rng.uniform(0, rho))
    pts = circle_polygon(rng, frame_at(lon, lat, spin), rho, n, irregular=fam != "pole_inside" or rng.random() < 0.5)
    if fam == "pole_corner":
        # rotate the whole face so that corner k lands on a pole; that corner becomes exactly (0,0,+-1)
        k = rng.randrange(n)
        s = rng.choice([1, -1])
        p = pts[k]
        # rotation taking p to (0,0,s): about the axis p x z
        target = (0.0, 0.0, float(s))
        ax = (p[1] * target[2] - p[2] * target[1], p[2] * target[0] - p[0] * target[2], p[0] * target[1] - p[1] * target[0])
        na = math.sqrt(sum(t * t for t in ax))
        if na < 1e-12:
            rot = lambda v: v
        else:
            ax = tuple(t / na for t in ax)
            ang = math.atan2(na, sum(p[i] * target[i] for i in range(3)))
            def rot(v, ax=ax, ang=ang):
                cr = (ax[1] * v[2] - ax[2] * v[1], ax[2] * v[0] - ax[0] * v[2], ax[0] * v[1] - ax[1] * v[0])
                d = sum(ax[i] * v[i] for i in range(3))
                return tuple(v[i] * math.cos(ang) + cr[i] * math.sin(ang) + ax[i] * d * (1 - math.cos(ang)) for i in range(3))
        pts = [rot(v) for v in pts]
        corners = [reduce(lattice(v)) for v in pts]
        corners[k] = (0, 0, s)
        f["corners"] = corners
        f["pole_lon"] = rng.choice([0.0, round(math.degrees(lon_of(corners[(k + 1) % n])), 3), rng.choice([-120.0, 45.0, 170.0])])
        return f
    f["corners"] = [reduce(lattice(v)) for v in pts]
    if fam == "pole_inside" and rng.random() < 0.2:
        # one corner exactly on the meridian lon 0 (the reference arcs pole -> (1,0,0) of _pole_point_inside_polygon pass
        # through it): keep its latitude, put it into the plane y = 0 with x > 0
        k = rng.randrange(n)
        cs = list(f["corners"])
        cs[k] = c14.merid_pt((1, 0), lat_of(cs[k]))
        f["corners"] = cs
    return f


def gen_long_equator_edge(rng, _depth=0):
    """a face with an edge 95..175 degrees long that crosses the equator and bulges poleward beyond both of its end
    points on the far side (the apex of its great circle lies inside the edge)"""
    inc = rng.uniform(0.3, 1.25)                   # inclination of the edge's great circle = latitude of its apex
    eps_, dlt = rng.uniform(0.03, 0.5), rng.uniform(0.1, 1.0)
    node = rng.uniform(-math.pi, math.pi)          # longitude of the ascending node
    sgn = rng.choice([1, -1])                      # bulge on the northern / southern hemisphere

    def on_circle(theta, i):
        x, y, z = math.cos(theta), math.sin(theta) * math.cos(i), math.sin(theta) * math.sin(i)
        return (x * math.cos(node) - y * math.sin(node), x * math.sin(node) + y * math.cos(node), sgn * z)
    tA, tB = -eps_, math.pi / 2 + dlt
    pts = [on_circle(tA, inc), on_circle(tB, inc)]
    inner = inc - rng.uniform(0.08, 0.25)          # further corners on a flatter circle through the same nodes
    k = rng.choice([1, 1, 2, 3])
    ts = sorted((rng.uniform(tA + 0.1, tB - 0.1) for _ in range(k)), reverse=True)
    pts += [on_circle(t, inner) for t in ts]
    cs = [reduce(lattice(p)) for p in pts]
    if not convex_ccw(cs):
        cs = cs[::-1]
    if not convex_ccw(cs) and _depth < 50:
        return gen_long_equator_edge(rng, _depth + 1)
    return {"family": "long_equator_edge", "corners": cs}


def gen_edge_through_ref(rng, at_vertex=False):
    """a face one of whose edges passes exactly through REFERENCE_POINT_EQUATOR = (1,0,0), the common far end of the two
    reference arcs of _pole_point_inside_polygon (untilted = along the equator, or tilted; face on either side); with
    at_vertex the reference point is a corner instead"""
    for _ in range(200):
        tilt = 0.0 if rng.random() < 0.4 else rng.uniform(-1.2, 1.2)
        dy, dz = int(round(1000 * math.cos(tilt))), int(round(1000 * math.sin(tilt)))
        K = 1000 * rng.randint(3, 30)
        a, b = rng.randint(1, 9), rng.randint(1, 9)
        A, Bv = reduce((K, -a * dy, -a * dz)), reduce((K, b * dy, b * dz))
        side = rng.choice([1, -1])
        sv = (0.0, -side * math.sin(tilt), side * math.cos(tilt))          # unit normal of the edge's plane
        dv = (0.0, math.cos(tilt), math.sin(tilt))
        k = rng.choice([1, 1, 2])
        taus = sorted((rng.uniform(-0.25, 0.25) for _ in range(k)), reverse=True)
        alpha = rng.uniform(0.05, 0.6)
        extra = []
        for t in taus:
            al = alpha * rng.uniform(0.8, 1.0)
            extra.append(reduce(lattice((math.cos(al), math.sin(al) * sv[1] + t * dv[1], math.sin(al) * sv[2] + t * dv[2]))))
        cs = ([(1, 0, 0), Bv] + extra) if at_vertex else ([A, Bv] + extra)
        if not convex_ccw(cs):
            cs = cs[::-1]
        if convex_ccw(cs):
            return {"family": "ref_point_at_vertex" if at_vertex else "edge_through_ref", "corners": cs}
    return gen_face(rng, "equator")


def gen_small_cap_near_edge(rng):
    """a small polar cap (edges 1e-4 .. 1e-2 rad, corners outside the pole snap zone) with the pole strictly inside,
    1.2e-6 .. 1e-4 rad from one of its edges (far outside the 1e-8 window of the pole-on-edge test)"""
    s = rng.choice([1, -1])
    for _ in range(300):
        n = rng.choice([3, 4, 4, 5, 6, 8])
        rho = 10 ** rng.uniform(math.log10(4e-4), -2)
        th = sorted(rng.uniform(0, TWO_PI) for _ in range(n))
        gaps = [(th[(i + 1) % n] - th[i]) % TWO_PI for i in range(n)]
        if min(gaps) < 0.3 or max(gaps) > math.pi - 0.3:
            continue
        pts = [(rho * math.cos(t), rho * math.sin(t)) for t in th]
        k = rng.randrange(n)
        (x0, y0), (x1, y1) = pts[k], pts[(k + 1) % n]
        ex, ey = x1 - x0, y1 - y0
        el = math.hypot(ex, ey)
        nx, ny = ey / el, -ex / el                      # outward normal of a counter-clockwise polygon
        h = x0 * nx + y0 * ny                           # distance of the origin from the edge (> 0)
        dist = 10 ** rng.uniform(math.log10(1.2e-6), -4)
        if dist >= h:
            continue
        sh = h - dist                                   # move the polygon inwards along the normal: the origin ends up dist from the edge
        pts = [(x - sh * nx, y - sh * ny) for x, y in pts]
        if min(math.hypot(x, y) for x, y in pts) < 2.2 * SNAP:
            continue
        cs = [reduce(lattice((x, y * s, s * math.sqrt(1 - x * x - y * y)), 1 << 46)) for x, y in pts]
        if convex_ccw(cs) and pole_status(cs, (0, 0, s))[0] == "inside":
            return {"family": "small_cap_near_edge", "corners": cs}
    return gen_pole_inside_near_corner(rng)


def gen_pole_inside_near_corner(rng):
    """a pole-enclosing face with one corner 2e-4 .. 4.4e-3 rad (0.011 .. 0.25 degrees) from the pole"""
    s = rng.choice([1, -1])
    for _ in range(200):
        n = rng.choice([3, 3, 4, 5, 6, 8])
        lons = sorted(rng.uniform(0, TWO_PI) for _ in range(n))
        cols = [10 ** rng.uniform(-1.7, -0.3) for _ in range(n)]
        k = rng.randrange(n)
        cols[k] = 10 ** rng.uniform(math.log10(2e-4), math.log10(4.4e-3))
        pts = [(math.sin(c) * math.cos(l), math.sin(c) * math.sin(l) * s, s * math.cos(c)) for c, l in zip(cols, lons)]
        cs = [reduce(lattice(p, 1 << 40)) for p in pts]
        if convex_ccw(cs) and pole_status(cs, (0, 0, s))[0] == "inside" and pole_status(cs, (0, 0, s))[1] > 2 * MARGIN:
            return {"family": "pole_inside_near_corner", "corners": cs}
    return gen_face(rng, "pole_inside")


FAMS = ["generic", "generic", "small", "small", "seam", "equator", "pole_inside", "pole_near", "pole_corner", "latlon_quad", "big",
        "long_equator_edge", "pole_inside_near_corner", "edge_through_ref", "small_cap_near_edge"]


def classify(face):
    """oracle + scope of one face"""
    vs = face["corners"][::-1] if face.get("reversed") else face["corners"]
    ok = 3 <= len(vs) <= 8 and len(set(vs)) == len(vs) and convex_ccw(vs)
    if not ok:
        face["in_scope"] = False
        face["why"] = "not strictly convex"
        return face
    orc = oracle_bounds(vs)
    face["oracle"] = orc
    why = None
    if orc["max_edge"] >= math.pi - 1e-3:
        why = "edge too long"
    elif any(c14.in_snap_zone(v) for v in vs):
        why = "corner in the pole snap zone"
    elif "edge" in (orc["north"], orc["south"]):
        why = "pole on an edge"
    elif orc["north"] == "inside" and orc["south"] == "inside":
        why = "both poles"
    elif orc["pole_dist"] < MARGIN:
        why = "pole within the margin of the boundary"
    elif not orc["full"] and orc["lon_width"] >= math.pi - 1e-6:
        why = "longitude extent >= 180 without an enclosed pole"
    face["in_scope"] = why is None
    face["why"] = why
    return face


def variants(rng, face, k=2):
    """the face with other traversal starts, with the opposite traversal direction, and from other source classes"""
    n = len(face["corners"])
    everything = face["family"] in ("long_equator_edge", "design_witness")
    out = [face]
    starts = list(range(1, n)) if everything else rng.sample(range(1, n), min(k, n - 1))
    for s in starts:
        g = dict(face)
        g["corners"] = face["corners"][s:] + face["corners"][:s]
        g["start"] = s
        out.append(g)
    base = list(out)
    for g0 in (base if everything else base[:1]):
        if everything or rng.random() < 0.5:
            g = dict(g0)
            g["corners"] = g0["corners"][::-1]
            g["reversed"] = True
            out.append(g)
    # source / provenance class x order of first access (one extra per face, all of them over a run)
    src = SOURCES[1 + rng.randrange(len(SOURCES) - 1)]
    g = dict(face)
    g["source"] = src
    if "pole_lon" in g and src.startswith("xyz"):
        g["pole_lon"] = 0.0          # a Cartesian-only source has no nominal pole longitude: the library derives 0
    out.append(g)
    return out


# ---------------------------------------------------------------------------------------------


def vstr(v):
    return [str(t) for t in v]


def case_json(face):
    out = {k: v for k, v in face.items() if k not in ("corners", "oracle") and not k.startswith("_")}
    out["corners"] = [vstr(v) for v in face["corners"]]
    if "oracle" in face:
        out["oracle"] = face["oracle"]
    lon, lat = face_lonlat_deg(face)
    out["lonlat_deg"] = [[lo, la] for lo, la in zip(lon, lat)]
    return out


def case_from_json(c):
    f = {k: v for k, v in c.items() if k not in ("corners", "oracle", "lonlat_deg", "in_scope", "why")}
    f["corners"] = [tuple(int(t) for t in v) for v in c["corners"]]
    return f


class Stats:
    def __init__(self):
        self.n = {}

    def add(self, *key):
        k = "/".join(str(x) for x in key if x not in (None, ""))
        self.n[k] = self.n.get(k, 0) + 1


def judge(ck, face, box, st):
    """clauses on one face + attribution + correspondence"""
    orc = face["oracle"]
    jc = case_json(face)
    fam = face["family"]
    if isinstance(box, tuple):
        bad = [("raises", 0.0)]
    else:
        bad = check_box(box, orc)
    prim = face.get("_prim")
    mfaith, mtruth = face.get("_mfaith"), face.get("_mtruth")
    branch = "pole" if (prim and "error" not in prim and (prim["has_north"] or prim["has_south"])) else "normal"
    agrees = None
    if mfaith is not None and not isinstance(box, tuple):
        agrees = boxes_close(box, mfaith)
    for clause, amount in bad:
        info = {"family": fam, "branch": branch, "pole": orc["north"] if orc["north"] != "outside" else orc["south"],
                "ref_point_inside": orc["ref_point_inside"], "location": orc["location"],
                "vertex_on_ref_meridian": any(v[1] == 0 and v[0] > 0 for v in face["corners"]),
                "source": face.get("source", "topology"), "reversed": bool(face.get("reversed")),
                "ref_point_on_edge": orc["ref_point_on_edge"],
                "enclosed_pole": "north" if orc["north"] == "inside" else ("south" if orc["south"] == "inside" else "none")}
        if clause == "raises":
            info["exception"] = box[1].split("(")[0]
        if agrees is not None:
            info["faithful_model"] = "agrees" if agrees else "differs"
            if agrees:
                # which ingredient explains it: the box/branch logic itself (the model fed with the exact
                # pole status already shows the clause), or an outcome of a float primitive
                tb = check_box(mtruth, orc) if mtruth is not None else []
                if any(c == clause for c, _ in tb):
                    info["cause"] = "box_logic"
                else:
                    pole_wrong = (prim["has_north"], prim["has_south"]) != (orc["north"] in ("inside", "corner"), orc["south"] in ("inside", "corner"))
                    info["cause"] = "pole_detection" if pole_wrong else "pole_on_edge_flag"
        if prim is not None and "error" in prim:
            info["cause"] = "pole_detection_raises"
        if (agrees is False and orc["ref_point_on_edge"] and not orc["full"] and not isinstance(box, tuple)
                and abs(box[1][0]) <= TOL and abs(box[1][1] - TWO_PI) <= TOL
                and (abs(box[0][1] - math.pi / 2) <= TOL or abs(box[0][0] + math.pi / 2) <= TOL)):
            # the reference point lies exactly on an edge: whether the two reference arcs "hit" it is decided by the last bit
            # of the node coordinates, which depends on how the grid was built (array length of the vectorised cos/sin), so the
            # single-face replication of the pole test can differ from the evaluated grid.  The reported box itself shows which
            # branch ran: a pole box on a face without a pole = the pole containment test fired
            info["branch"], info["cause"], info["faithful_model"] = "pole", "pole_detection", "replication_differs_in_last_bit"
        info["size"] = "big" if amount > 1e-4 else ("small" if amount > 2e-8 else "tiny")
        ck.fail(clause, jc, info, detail="box=%r oracle=%r amount=%.3e model=%r" % (box, {k: orc[k] for k in ("lat_min", "lat_max", "lon_lo", "lon_width", "north", "south")}, amount, mfaith))
        st.add("fail", clause, info.get("branch"), info.get("cause", "unattributed"), info["size"])
    mp = face.get("_mpoles")
    if mp is not None and prim is not None and "error" not in prim:
        general = (not orc["ref_point_on_edge"] and "corner" not in (orc["north"], orc["south"])
                   and not any(v[1] == 0 and v[0] >= 0 for v in face["corners"]))
        same = (mp[0] != "E" and mp[1] != "E" and bool(mp[0]) == prim["has_north"] and bool(mp[1]) == prim["has_south"])
        st.add("pole_flags_model_vs_impl", "general_position" if general else "special_position", "same" if same else "DIFFERENT")
        if general and not same:
            ck.corr_failures.append({"case": jc, "what": "pole flags: model of _pole_point_inside_polygon vs implementation",
                                     "model": mp[:2], "impl": [prim["has_north"], prim["has_south"]]})
        if not face.get("reversed") and (bool(mp[2]), bool(mp[3])) != (orc["north"] == "inside", orc["south"] == "inside"):
            ck.corr_failures.append({"case": jc, "what": "Coq c13_pole_in_face differs from the Python oracle", "model": mp[2:]})
    if agrees is not None:
        st.add("corr_compared")
        if False:
            pass
        elif not agrees and orc["ref_point_on_edge"]:
            st.add("corr_not_comparable_ref_point_on_edge")      # zero-margin for the float pole test, see above
        elif not agrees and not bad:
            ck.corr_failures.append({"case": jc, "impl": box, "model": mfaith})
        elif not agrees and bad:
            st.add("corr_differs_on_failing_case")
    return bad


def evaluate_one(ck, f, st, model_ok):
    box = impl_bounds([f], f.get("source", "topology"))[0]
    if model_ok:
        prim = impl_primitives(f)
        f["_prim"] = prim
        if "error" not in prim:
            orc = f["oracle"]
            oracle_poles = (orc["north"] in ("inside", "corner"), orc["south"] in ("inside", "corner"))
            res = ck.run_model("bounds", [model_case(f, prim), model_case(f, prim, oracle_poles=oracle_poles)])
            f["_mfaith"], f["_mtruth"] = box_to_rad(res[0]), box_to_rad(res[1])
    judge(ck, f, box, st)


def gen_cases(ck):
    rng = ck.rng
    n = 390 if ck.tier == "quick" else 13000
    faces = []
    cdir = os.path.join(common.VERIF, "corpus", "C13")
    if os.path.isdir(cdir):
        for fn in sorted(os.listdir(cdir)):
            faces.append(case_from_json(json.load(open(os.path.join(cdir, fn)))))
    # the face of DESIGN section 8 (lowest corner starts a poleward-bulging edge)
    def ll(lo, la):
        lo, la = math.radians(lo), math.radians(la)
        return reduce(lattice((math.cos(la) * math.cos(lo), math.cos(la) * math.sin(lo), math.sin(la))))
    faces.append({"family": "design_witness", "corners": [ll(0, 40), ll(60, 40.5), ll(60, 60), ll(0, 60)]})
    faces.append({"family": "design_witness", "corners": [ll(0, -40), ll(0, -60), ll(60, -60), ll(60, -40.5)]})
    for i in range(6):          # directed: present at every seed (all starts, both traversal directions)
        faces.append(gen_long_equator_edge(rng))
    for i in range(6):          # directed: small polar caps with the pole close to an edge
        faces.append(gen_small_cap_near_edge(rng))
    for i in range(8):          # directed: the equator reference point in the interior of an edge / at a vertex
        faces.append(gen_edge_through_ref(rng, at_vertex=(i >= 6)))
    for i in range(n):
        faces.append(gen_face(rng, FAMS[i % len(FAMS)]))
    return faces


def evaluate(ck, faces, st, model_ok):
    rng = ck.rng
    todo = []
    for f in faces:
        classify(f)
        if not f["in_scope"]:
            ck.note_case(tuple(f["corners"]), False)
            st.add("out_of_scope", f["family"], f["why"])
            continue
        for v in variants(rng, f):
            v["oracle"] = f["oracle"]
            v["in_scope"] = True
            todo.append(v)
    B = 60
    boxes = [None] * len(todo)
    for src in SOURCES:
        idx = [i for i, f in enumerate(todo) if f.get("source", "topology") == src]
        for j in range(0, len(idx), B):
            part = idx[j:j + B]
            for i, b in zip(part, impl_bounds([todo[i] for i in part], src)):
                boxes[i] = b
    if model_ok:
        lines, owners = [], []
        for f in todo:
            prim = impl_primitives(f)
            f["_prim"] = prim
            if "error" in prim:
                continue
            orc = f["oracle"]
            oracle_poles = (orc["north"] in ("inside", "corner"), orc["south"] in ("inside", "corner"))
            lines += [model_case(f, prim), model_case(f, prim, oracle_poles=oracle_poles)]
            owners.append(f)
        # pole flags of the model of _pole_point_inside_polygon (on the integer corners) for a share of the faces
        pf = [f for f in owners if f.get("source", "topology") == "topology" and "start" not in f]
        cap = 100 if ck.tier == "quick" else 700          # the exact-integer model needs ~0.5 s per face
        if len(pf) > cap:
            directed = [f for f in pf if f["family"] in ("edge_through_ref", "ref_point_at_vertex", "pole_inside_near_corner")][:cap // 5]
            rest = [f for f in pf if f not in directed]
            step = max(1, len(rest) // (cap - len(directed)))
            pf = directed + rest[::step][:cap - len(directed)]
        pres = ck.run_model("poles", [sx([list(v) for v in f["corners"]]) for f in pf]) if pf else []
        for f, r in zip(pf, pres):
            f["_mpoles"] = r
        res = ck.run_model("bounds", lines) if lines else []
        for k, f in enumerate(owners):
            f["_mfaith"] = box_to_rad(res[2 * k])
            f["_mtruth"] = box_to_rad(res[2 * k + 1])
    for f, box in zip(todo, boxes):
        ck.note_case((tuple(f["corners"]), f.get("pole_lon")), True)
        orc = f["oracle"]
        st.add("face", f["family"], "pole=" + (orc["north"] if orc["north"] != "outside" else orc["south"]))
        st.add("source", f.get("source", "topology"), "reversed" if f.get("reversed") else "ccw")
        st.add("corners", len(f["corners"]))
        bad = judge(ck, f, box, st)
        if not bad:
            st.add("ok", f["family"])
    return todo


def tie_extremes(ck, faces, st):
    """the per-edge extreme latitudes the model is parametrised by satisfy the C14 specification: compare the Python
    oracle with the extracted c14_extreme_spec on the edges of a sample of faces"""
    sample = [f for f in faces if f.get("in_scope")][:150]
    lines = []
    for f in sample:
        vs = f["corners"]
        lines.append(sx([[list(vs[i]), list(vs[(i + 1) % len(vs)])] for i in range(len(vs))]))
    res = ck.run_model("ext", lines)
    nedge = 0
    for f, r in zip(sample, res):
        vs = f["corners"]
        for i, (mx, mn) in enumerate(r):
            a, b = vs[i], vs[(i + 1) % len(vs)]
            for lat_m, want in ((c14.lat_to_float(tuple(mx)), extreme_oracle(a, b, True)), (c14.lat_to_float(tuple(mn)), extreme_oracle(a, b, False))):
                nedge += 1
                if abs(lat_m - want) > 1e-12:
                    ck.corr_failures.append({"what": "per-edge extreme differs from c14_extreme_spec", "edge": [vstr(a), vstr(b)],
                                             "model": lat_m, "oracle": want})
    return nedge


def audit(ck, faces):
    """extraction audit: model evaluated in the kernel on a sample, compared with the extracted OCaml"""
    import re
    sample = [f for f in faces if f.get("in_scope")][:12]
    lines, cases = [], []
    for f in sample:
        prim = impl_primitives(f)
        if "error" in prim:
            continue
        mc = common.parse_sx(model_case(f, prim))
        es = "[" + "; ".join(
            "{| c13_lat1 := %d; c13_lon1 := %d; c13_lat2 := %d; c13_emax := %d; c13_emin := %d; c13_pole_here := %s |}"
            % tuple(e[:5] + [("true" if e[5] else "false")]) for e in mc[4]) + "]"
        lines.append("Eval vm_compute in (c13_face_bounds %d %d %s %s %s)." % (
            mc[0], mc[1], "true" if mc[2] else "false", "true" if mc[3] else "false", es))
        cases.append(model_case(f, prim))
    rc, out = ck.audit_vm(lines, "From Verif Require Import Base C13.\nOpen Scope Z_scope.")
    if rc != 0:
        ck.proof["errors"].append("in-kernel audit failed: " + out[-800:])
        return 0
    blocks = re.split(r"(?m)^\s*= ", out)[1:]
    res = ck.run_model("bounds", cases)
    for blk, mo in zip(blocks, res):
        nums = re.findall(r"-?\d+", blk.split("\n     :")[0].replace("c13_", ""))
        flat = [str(x) for x in mo]
        if nums != flat:
            ck.proof["errors"].append("extraction audit mismatch: kernel %s vs extracted %s" % (nums, flat))
    if len(blocks) != len(cases):
        ck.proof["errors"].append("extraction audit: %d answers for %d cases" % (len(blocks), len(cases)))
    return len(cases)


def main(ck):
    ck.check_props()
    ok = ck.build_driver()
    impl()
    faces = gen_cases(ck)
    ck.cov["rule"] = (
        "corpus + the DESIGN witness face + generated strictly convex 3..8-gons (integer direction vectors on a 2^-24 lattice; "
        "corners on / near a small circle of radius 1e-3 .. 1.2 rad around a random centre): families generic, small mesh cells, "
        "across lon 0 / lon 180, across the equator, pole strictly inside, pole just outside, a corner exactly at a pole (with "
        "several nominal longitudes), lat-lon aligned quads with exact meridian edges, big faces; every face also with two other "
        "traversal starts.  The implementation receives lon/lat in degrees via Grid.from_topology and is read at Grid.bounds. "
        "non-trivial = inside the quantifier (strictly convex, edges < 180 deg, longitude extent < 180 deg unless a pole is "
        "enclosed, pole >= 1e-6 rad from the boundary or exactly a corner, no corner in the pole snap zone); distinct = distinct "
        "corner list")
    st = Stats()
    todo = evaluate(ck, faces, st, ok)
    nedge = tie_extremes(ck, faces, st) if ok else 0
    audit_n = audit(ck, faces) if ok else 0
    for f in todo:
        if len(ck.cov["samples"]) < 4 and f["family"] not in [s.get("family") for s in ck.cov["samples"]]:
            ck.sample(case_json(f))
    ck.extra.update({
        "case_distribution": dict(sorted(st.n.items())),
        "extraction_audit_cases": audit_n,
        "edges_tied_to_c14_extreme_spec": nedge,
        "tolerances": {"bounds vs oracle (rad)": TOL, "pole margin (rad)": MARGIN, "model unit (degree)": 1e-15},
        "clauses_checked_on_impl": ["lat_enclose", "lat_tight", "lon_enclose", "lon_tight", "raises", "not_a_box"],
        "partial": "minimality of the longitude interval and monotonicity of longitude along a minor arc are checked by the "
                   "oracle (unwrapped longitude chain), not proved; float rounding is covered by the tolerance 1e-9 rad; the model "
                   "is parametrised by the outcomes of the float primitives (pole containment, point on edge) which are "
                   "obtained from the real functions on every case",
    })
    ck.trusted += ["C14 exact geometry (harness/c14.py oracle; coq c14_extreme_spec) for per-edge extreme latitudes",
                   "float primitives called by _populate_face_latlon_bound (their outcomes parametrise the model)"]
    ck.assumptions += ["faces are strictly convex with 3..8 corners, counter-clockwise, edges < 180 degrees",
                       "all edges are great-circle arcs (is_latlonface=False, the default of Grid.bounds)"]


def replay(ck, rp):
    f = case_from_json(rp["case"])
    ck.note_case(repr(f))
    ck.note_case("replay")
    ok = ck.build_driver()
    impl()
    st = Stats()
    classify(f)
    if not f.get("in_scope"):
        return
    f["oracle"] = f["oracle"]
    evaluate_one(ck, f, st, ok)
