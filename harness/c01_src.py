"""C01 — source builders: turn an abstract mesh (faces over node ids + node positions) into a source
in one of the supported formats and one dialect of that format, together with the *expectation*
(what the source describes, decoded independently here: per face the corner positions in order,
plus every explicitly supplied table/centre/area) and the integer image of the source that the
Coq model reads.

Everything random comes from the `rng` passed in (ck.rng).  Nothing here imports uxarray.
"""
import json
import math
import os

import numpy as np
import xarray as xr

import meshgen

FILL = -(2 ** 63)
NAN = "NAN"          # marker for a NaN entry in integer images


# ---------------------------------------------------------------------------------------------
# abstract mesh as the sources describe it

class AMesh:
    """faces: list of lists of node ids (0-based); lon/lat in degrees (lon in [-180,180]);
    xyz unit vectors; everything a source may supply explicitly is derived on demand."""

    def __init__(self, faces, lon, lat, xyz=None, name="", closed=False):
        self.faces = [list(f) for f in faces]
        self.lon = [float(v) for v in lon]
        self.lat = [float(v) for v in lat]
        if xyz is None:
            xyz = [lonlat_to_xyz(a, b) for a, b in zip(self.lon, self.lat)]
        self.xyz = [tuple(map(float, p)) for p in xyz]
        self.name = name
        self.closed = closed
        self._edges = None

    @property
    def n_node(self):
        return len(self.lon)

    @property
    def n_face(self):
        return len(self.faces)

    def width(self):
        return max(len(f) for f in self.faces)

    def uniform(self):
        return len({len(f) for f in self.faces}) == 1

    def to_json(self):
        return {"faces": self.faces, "lon": self.lon, "lat": self.lat, "xyz": [list(p) for p in self.xyz],
                "name": self.name, "closed": self.closed}

    @staticmethod
    def from_json(d):
        return AMesh(d["faces"], d["lon"], d["lat"], d.get("xyz"), d.get("name", ""), d.get("closed", False))

    # -- derived incidence (what a source may supply explicitly) ---------------------------
    def edges(self):
        """list of (a,b) node pairs in first-seen order + per-face edge ids + edge->faces"""
        if self._edges is None:
            idx = {}
            el = []
            fe = []
            ef = []
            for fi, f in enumerate(self.faces):
                row = []
                for j in range(len(f)):
                    a, b = f[j], f[(j + 1) % len(f)]
                    k = (min(a, b), max(a, b))
                    if k not in idx:
                        idx[k] = len(el)
                        el.append((a, b))
                        ef.append([])
                    row.append(idx[k])
                    if fi not in ef[idx[k]]:
                        ef[idx[k]].append(fi)
                fe.append(row)
            self._edges = (el, fe, ef)
        return self._edges

    def node_faces(self):
        nf = [[] for _ in range(self.n_node)]
        for fi, f in enumerate(self.faces):
            for v in f:
                if fi not in nf[v]:
                    nf[v].append(fi)
        return nf

    def face_faces(self):
        el, fe, ef = self.edges()
        out = []
        for fi, row in enumerate(fe):
            r = []
            for e in row:
                o = [x for x in ef[e] if x != fi]
                r.append(o[0] if o else None)      # None = no neighbour across that edge
            out.append(r)
        return out

    def centre(self, ids):
        s = [sum(self.xyz[i][k] for i in ids) for k in range(3)]
        n = math.sqrt(sum(c * c for c in s))
        if n < 1e-9:                       # antipodal corners: any point will do as a supplied centre
            s, n = list(self.xyz[ids[0]]), 1.0
        return xyz_to_lonlat(s[0] / n, s[1] / n, s[2] / n)

    def face_centres(self):
        return [self.centre(f) for f in self.faces]

    def edge_centres(self):
        return [self.centre(e) for e in self.edges()[0]]

    def manifold(self):
        return all(len(x) <= 2 for x in self.edges()[2])


def lonlat_to_xyz(lon, lat):
    a, b = math.radians(lon), math.radians(lat)
    return (math.cos(b) * math.cos(a), math.cos(b) * math.sin(a), math.sin(b))


def xyz_to_lonlat(x, y, z):
    n = math.sqrt(x * x + y * y + z * z)
    x, y, z = x / n, y / n, z / n
    if abs(z) >= 1.0:
        return (0.0, math.copysign(90.0, z))
    # atan2 form: well conditioned next to the poles (asin is not)
    return (math.degrees(math.atan2(y, x)), math.degrees(math.atan2(z, math.hypot(x, y))))


def gen_amesh(rng, max_ops=8, tri_only=False, closed_only=False, partial=None):
    """abstract mesh from the shared sphere-tiling generator; poles/antimeridian hit on purpose"""
    if tri_only:
        m = meshgen.gen_mesh(rng, max_ops=max_ops, partial=False, allow_dual=False,
                             seeds=["tetra", "octa", "icosa"])
        # triangulate everything by stellating non-triangles
        for fi in range(len(m.faces)):
            if len(m.faces[fi]) > 3:
                f = m.faces[fi]
                c = meshgen._norm(tuple(sum(m.nodes[i][k] for i in f) for k in range(3)))
                nid = len(m.nodes)
                m.nodes.append(c)
                tris = [[f[i], f[(i + 1) % len(f)], nid] for i in range(len(f))]
                m.faces[fi] = tris[0]
                m.faces.extend(tris[1:])
        if not closed_only and (partial if partial is not None else rng.random() < 0.4):
            meshgen.delete_faces(m, rng)
    else:
        m = meshgen.gen_mesh(rng, max_ops=max_ops, partial=(False if closed_only else partial))
    # keep nodes out of the pole snap zone of _xyz_to_lonlat_rad (|z| > 1-1e-8) unless exactly polar
    nodes = []
    for (x, y, z) in m.nodes:
        if abs(z) > 1 - 1e-6 and abs(z) != 1.0:
            z = math.copysign(1.0, z)
            x = y = 0.0
        nodes.append((x, y, z))
    lon, lat = [], []
    for (x, y, z) in nodes:
        a, b = xyz_to_lonlat(x, y, z)
        lon.append(a)
        lat.append(b)
    am = AMesh(m.faces, lon, lat, nodes, m.name, m.closed)
    r = rng.random()
    if r < 0.15:
        # one node exactly on the antimeridian (lon-lat sources only use lon/lat; xyz recomputed)
        i = rng.randrange(am.n_node)
        new = rng.choice([180.0, -180.0])
        # never onto another node: corners of one face stay pairwise distinct positions
        if abs(am.lat[i]) < 89 and all(abs(am.lat[j] - am.lat[i]) > 1e-6 or abs(abs(am.lon[j]) - 180.0) > 1e-6
                                       for j in range(am.n_node) if j != i):
            am.lon[i] = new
            am.xyz[i] = lonlat_to_xyz(am.lon[i], am.lat[i])
            am.name += ",am180"
    elif r < 0.25:
        i = rng.randrange(am.n_node)
        if abs(am.lat[i]) < 89 and all(abs(am.lat[j] - am.lat[i]) > 1e-6 or abs(am.lon[j]) > 1e-6
                                       for j in range(am.n_node) if j != i):
            am.lon[i] = 0.0
            am.xyz[i] = lonlat_to_xyz(0.0, am.lat[i])
            am.name += ",lon0"
    return am


def polar_mesh(rng, colat=None, south=None, k=None, centre=None):
    """corners NEAR a pole (0.02 .. 1 degree away: outside the library's documented snap zone |z| > 1 - 1e-8,
    about 8e-3 degrees), optionally one corner exactly AT the pole: a fan of triangles around the pole, or the
    polar ring as one k-gon, plus one more ring of quads further out"""
    colat = rng.choice([0.02, 0.05, 0.1, 0.25, 0.5, 1.0]) * rng.uniform(1.0, 1.3) if colat is None else colat
    south = rng.random() < 0.5 if south is None else south
    k = rng.randrange(3, 9) if k is None else k
    centre = rng.random() < 0.5 if centre is None else centre
    sg = -1.0 if south else 1.0
    lon0 = rng.uniform(-180.0, 180.0)
    lons = [((lon0 + 360.0 * i / k + 180.0) % 360.0) - 180.0 for i in range(k)]
    if south:
        lons = lons[::-1]
    lon, lat, faces = [], [], []
    ring1 = list(range(k))
    lon += lons
    lat += [sg * (90.0 - colat)] * k
    ring2 = list(range(k, 2 * k))
    lon += lons
    lat += [sg * (90.0 - colat - rng.uniform(0.5, 3.0))] * k
    if centre:
        c = 2 * k
        lon.append(0.0)
        lat.append(sg * 90.0)
        faces += [[c, ring1[i], ring1[(i + 1) % k]] for i in range(k)]
    else:
        faces.append(list(ring1))
    faces += [[ring1[i], ring2[i], ring2[(i + 1) % k], ring1[(i + 1) % k]] for i in range(k)]
    return AMesh(faces, lon, lat, name="polar%s%d@%.3f%s" % ("S" if south else "N", k, colat, "+c" if centre else ""))


def regional(am, lon0, lat0, dlon, dlat):
    """the same topology squeezed into a lon/lat box (so that projected CRSs such as a UTM zone apply)"""
    return AMesh(am.faces, [lon0 + (v / 180.0) * dlon for v in am.lon], [lat0 + (v / 90.0) * dlat for v in am.lat],
                 name=am.name + ",regional", closed=False)


def add_orphan0(am):
    """the same mesh with one extra node, referenced by no face, at index 0 (regional extracts keep such nodes)"""
    lon, lat = 12.5, -7.25
    return AMesh([[v + 1 for v in f] for f in am.faces], [lon] + am.lon, [lat] + am.lat,
                 [lonlat_to_xyz(lon, lat)] + am.xyz, am.name + ",orphan0", am.closed)


def tiny_meshes():
    """hand-made small scope: single faces of every size, two faces sharing an edge, mixed sizes,
    a tetrahedron (n_node == n_face), rows needing 0, 1 and many padding cells"""
    out = []
    ring = lambda k, lat0=10.0, lon0=20.0, r=8.0: (
        [lon0 + r * math.cos(2 * math.pi * i / k) for i in range(k)],
        [lat0 + r * math.sin(2 * math.pi * i / k) for i in range(k)])
    for k in range(3, 9):
        lon, lat = ring(k)
        out.append(AMesh([list(range(k))], lon, lat, name="single%d" % k))
    # two faces sharing an edge: quad + triangle
    out.append(AMesh([[0, 1, 2, 3], [1, 4, 2]], [0, 10, 10, 0, 20], [0, 0, 10, 10, 5], name="quad+tri"))
    out.append(AMesh([[1, 4, 2], [0, 1, 2, 3]], [0, 10, 10, 0, 20], [0, 0, 10, 10, 5], name="tri+quad"))
    # triangle + octagon (many padding cells), antimeridian crossing
    lon, lat = ring(8, lat0=-30.0, lon0=178.0, r=6.0)
    lon = [((v + 180) % 360) - 180 for v in lon]
    out.append(AMesh([[0, 1, 2, 3, 4, 5, 6, 7], [8, 1, 0]], lon + [175.0], lat + [-20.0], name="octa+tri@am"))
    # polar cap: triangle fan around the north pole
    out.append(AMesh([[0, 1, 2], [0, 2, 3], [0, 3, 4], [0, 4, 1]], [0.0, 0.0, 90.0, 180.0, -90.0],
                     [90.0, 80.0, 80.0, 80.0, 80.0], name="polar-fan"))
    # tetrahedron: n_node == n_face == 4
    m = meshgen._poly("tetra")
    lon, lat = m.lonlat()
    out.append(AMesh(m.faces, lon, lat, m.nodes, "tetra", True))
    m = meshgen._poly("cube")
    lon, lat = m.lonlat()
    out.append(AMesh(m.faces, lon, lat, m.nodes, "cube", True))
    return out


# ---------------------------------------------------------------------------------------------
# helpers

def lon_conv(lons, conv):
    """source longitudes in the convention `conv` ('180': [-180,180], '360': [0,360))"""
    if conv == "180":
        return [float(v) for v in lons]
    out = []
    for v in lons:
        w = v % 360.0
        out.append(float(w))
    return out


def rnd_name(rng, base):
    return base + rng.choice(["", "_a", "X", "2", "_mesh"]) + str(rng.randrange(100))


def pad_rows(rows, width, fill):
    return [list(r) + [fill] * (width - len(r)) for r in rows]


DT = {"int32": np.int32, "int64": np.int64, "uint32": np.uint32, "float64": np.float64, "float32": np.float32,
      "int16": np.int16}


def enc_conn(rows, width, start, fill, dtype):
    """2-D connectivity array: rows of 0-based ids (None = missing element) -> base `start`, padded by
    `fill` ('nan' -> NaN, float storage)"""
    fv = np.nan if fill == "nan" else fill
    t = [[(fv if x is None else x + start) for x in r] + [fv] * (width - len(r)) for r in rows]
    return np.array(t, dtype=DT[dtype])


def img(arr):
    """integer image of a connectivity array for the model: ints, NaN -> 'NAN' token"""
    out = []
    for r in np.asarray(arr).tolist():
        out.append([NAN if (isinstance(x, float) and math.isnan(x)) else int(x) for x in r])
    return out


def shuffle_vars(ds, rng, extra=True):
    """the same dataset with its variables inserted in another order (connectN keep their relative order:
    that order is the Exodus file order of the element blocks) and an unrelated extra variable"""
    names = list(ds.variables)
    keep = [n for n in names if n.startswith("connect")]
    perm = list(names)
    rng.shuffle(perm)
    it = iter(keep)
    perm = [next(it) if n.startswith("connect") else n for n in perm]
    out = xr.Dataset(attrs=dict(ds.attrs))
    if extra and rng.random() < 0.5:
        out["verif_extra"] = xr.DataArray(np.arange(3.0), dims=["verif_dim"], attrs={"long_name": "unrelated"})
    for n in perm:
        out[n] = ds[n]
    if extra and "verif_extra" not in out:
        out["verif_extra"] = xr.DataArray(np.arange(3.0), dims=["verif_dim"], attrs={"long_name": "unrelated"})
    return out


class Expect:
    """what the source describes"""

    def __init__(self, am, faces=None, pos=None):
        self.face_pos = []                 # per face: list of (lon, lat) in source order
        faces = am.faces if faces is None else faces
        for f in faces:
            self.face_pos.append([(am.lon[i], am.lat[i]) if pos is None else pos[i] for i in f])
        self.face_ids = [list(f) for f in faces] if pos is None or len(pos) >= 0 else None   # node ids as the source lists them
        self.aux = {}                      # name -> expectation (see c01.spec_check)
        self.n_node = None                 # expected n_node when the format fixes it


# ---------------------------------------------------------------------------------------------
# UGRID

UGRID_FILLS = ["std", -1, 999999, -999, "nan", "nan_attr", "none", 0]


def ugrid_dialect(rng, am, force=None):
    d = {}
    d["start"] = rng.choice([0, 1, None])
    fills = list(UGRID_FILLS)
    if not am.uniform():
        fills.remove("none")
    d["fill"] = rng.choice(fills)
    if d["fill"] == 0 and d["start"] != 1:
        d["fill"] = -1                                  # 0 is a valid index unless indices start at 1
    if d["fill"] == "std":
        d["dtype"] = "int64"
    elif d["fill"] in ("nan", "nan_attr"):
        d["dtype"] = rng.choice(["float64", "float64", "float32"])
    elif d["fill"] == "none":
        d["dtype"] = rng.choice(["int32", "int64", "uint32", "float64"])
    elif d["fill"] == 999999:
        d["dtype"] = rng.choice(["int32", "int64", "uint32", "float64"])
    else:
        d["dtype"] = rng.choice(["int32", "int64", "float64", "int16"])
    d["extra_w"] = 0 if d["fill"] == "none" else rng.choice([0, 0, 1, 2])
    d["lon"] = rng.choice(["180", "360"])
    d["names"] = rng.random() < 0.7
    d["role_only"] = rng.random() < 0.3                 # aux connectivity found by cf_role only
    d["aux"] = sorted(rng.sample(["edge_node", "face_edge", "edge_face", "node_face", "face_face", "face_coords",
                                  "edge_coords"], rng.choice([0, 0, 1, 2, 4, 7])))
    d["dims_attr"] = rng.random() < 0.5
    if force:
        d.update(force)
    if "edge_node" not in d["aux"]:       # tables that refer to edges need the edges to be defined
        d["aux"] = [k for k in d["aux"] if k not in ("face_edge", "edge_face", "edge_coords")]
    return d


def build_ugrid(am, d, rng):
    nm = (lambda b: rnd_name(rng, b)) if d["names"] else (lambda b: b)
    v_top, v_lon, v_lat, v_fn = nm("Mesh2"), nm("Mesh2_node_x"), nm("Mesh2_node_y"), nm("Mesh2_face_nodes")
    d_node, d_face, d_max, d_edge = nm("nMesh2_node"), nm("nMesh2_face"), nm("nMaxMesh2_face_nodes"), nm("nMesh2_edge")
    if not d["names"]:
        v_top, v_lon, v_lat, v_fn = "grid_topology", "node_lon", "node_lat", "face_node_connectivity"
        d_node, d_face, d_max, d_edge = "n_node", "n_face", "n_max_face_nodes", "n_edge"
    start = d["start"] if d["start"] is not None else 0
    fillv = {"std": FILL, "nan": "nan", "nan_attr": "nan", "none": 0}.get(d["fill"], d["fill"])
    w = am.width() + d["extra_w"]

    def attrs(role):
        a = {"cf_role": role}
        if d["start"] is not None:
            a["start_index"] = np.int32(d["start"]) if d["dtype"] != "int64" else d["start"]
        if d["fill"] == "nan_attr":
            a["_FillValue"] = np.nan
        elif d["fill"] not in ("nan", "none"):
            a["_FillValue"] = DT[d["dtype"]](fillv) if d["dtype"] != "int64" else int(fillv)
        return a

    ds = xr.Dataset()
    top = {"cf_role": "mesh_topology", "topology_dimension": 2, "node_coordinates": v_lon + " " + v_lat,
           "face_node_connectivity": v_fn}
    if d["dims_attr"]:
        top["face_dimension"] = d_face
        top["node_dimension"] = d_node
        if any(k in d["aux"] for k in ("edge_node", "edge_face", "edge_coords")):
            top["edge_dimension"] = d_edge
    lon = lon_conv(am.lon, d["lon"])
    ds[v_lon] = xr.DataArray(np.array(lon), dims=[d_node], attrs={"standard_name": "longitude", "units": "degrees_east"})
    ds[v_lat] = xr.DataArray(np.array(am.lat), dims=[d_node], attrs={"standard_name": "latitude", "units": "degrees_north"})
    fn = enc_conn(am.faces, w, start, fillv, d["dtype"])
    ds[v_fn] = xr.DataArray(fn, dims=[d_face, d_max], attrs=attrs("face_node_connectivity"))
    ex = Expect(am, pos=list(zip(lon, am.lat)))
    ex.n_node = am.n_node
    image = {"fn": img(fn), "aux": {}}
    el, fe, ef = am.edges()
    aux_tables = {
        "edge_node": ("edge_node_connectivity", [list(e) for e in el], 2, [d_edge, nm("Two")]),
        "face_edge": ("face_edge_connectivity", fe, w, [d_face, d_max]),
        "edge_face": ("edge_face_connectivity", ef, 2, [d_edge, nm("Two")]),
        "node_face": ("node_face_connectivity", am.node_faces(), max(len(x) for x in am.node_faces()), [d_node, nm("nMaxNodeFaces")]),
        "face_face": ("face_face_connectivity", am.face_faces(), w, [d_face, d_max]),
    }
    for k in d["aux"]:
        if k in aux_tables:
            role, rows, ww, dims = aux_tables[k]
            if d["fill"] == "none" and any(len(r) != ww or None in r for r in rows):
                continue
            if d["dtype"] == "int16" and False:
                continue
            arr = enc_conn(rows, ww, start, fillv, d["dtype"])
            vn = nm("Mesh2_" + k)
            a = attrs(role)
            ds[vn] = xr.DataArray(arr, dims=dims, attrs=a)
            if not d["role_only"]:
                top[role] = vn
            image["aux"][k] = img(arr)
            ex.aux[k] = rows
        elif k == "face_coords":
            fc = am.face_centres()
            flon = lon_conv([c[0] for c in fc], d["lon"])
            vx, vy = nm("Mesh2_face_x"), nm("Mesh2_face_y")
            ds[vx] = xr.DataArray(np.array(flon), dims=[d_face])
            ds[vy] = xr.DataArray(np.array([c[1] for c in fc]), dims=[d_face])
            top["face_coordinates"] = vx + " " + vy
            ex.aux["face_coords"] = list(zip(flon, [c[1] for c in fc]))
        elif k == "edge_coords":
            ec = am.edge_centres()
            elon = lon_conv([c[0] for c in ec], d["lon"])
            vx, vy = nm("Mesh2_edge_x"), nm("Mesh2_edge_y")
            ds[vx] = xr.DataArray(np.array(elon), dims=[d_edge])
            ds[vy] = xr.DataArray(np.array([c[1] for c in ec]), dims=[d_edge])
            top["edge_coordinates"] = vx + " " + vy
            ex.aux["edge_coords"] = list(zip(elon, [c[1] for c in ec]))
    if "edge_coords" in ex.aux and "edge_node" not in ex.aux:
        # edge coordinates without an edge table have no defined meaning for the derived edges
        del ex.aux["edge_coords"]
    ds[v_top] = xr.DataArray(np.int32(0), attrs=top)
    return ds, ex, image


# ---------------------------------------------------------------------------------------------
# explicit topology (Grid.from_topology / ux.open_grid(dict))

def topo_dialect(rng, am, force=None):
    d = {"start": rng.choice([0, 0, 1])}
    fills = ["std", -1, 999999, "nan", 0]
    if am.uniform():
        fills += ["none", "none"]
    d["fill"] = rng.choice(fills)
    if d["fill"] == 0 and d["start"] != 1:
        d["fill"] = -1
    if d["fill"] == "std":
        d["dtype"] = "int64"
    elif d["fill"] == "nan":
        d["dtype"] = "float64"
    else:
        d["dtype"] = rng.choice(["int32", "int64", "float64"] if d["fill"] != "none" else ["int32", "int64"])
    d["extra_w"] = 0 if d["fill"] == "none" else rng.choice([0, 0, 1])
    d["lon"] = rng.choice(["180", "360"])
    d["aux"] = sorted(rng.sample(["edge_node", "face_edge", "edge_face", "node_face", "face_face", "face_coords"],
                                 rng.choice([0, 0, 1, 3, 6])))
    d["entry"] = rng.choice(["from_topology", "open_grid_dict"])
    if force:
        d.update(force)
    if "edge_node" not in d["aux"]:
        d["aux"] = [k for k in d["aux"] if k not in ("face_edge", "edge_face")]
    return d


def build_topo(am, d, rng):
    start = d["start"]
    fillv = {"std": FILL, "nan": "nan", "none": 0}.get(d["fill"], d["fill"])
    w = am.width() + d["extra_w"]
    lon = lon_conv(am.lon, d["lon"])
    fn = enc_conn(am.faces, w, start, fillv, d["dtype"])
    kw = {"node_lon": np.array(lon), "node_lat": np.array(am.lat), "face_node_connectivity": fn,
          "fill_value": (None if d["fill"] == "none" else (np.nan if fillv == "nan" else fillv)), "start_index": start}
    ex = Expect(am, pos=list(zip(lon, am.lat)))
    ex.n_node = am.n_node
    image = {"fn": img(fn), "aux": {}}
    el, fe, ef = am.edges()
    nfs = am.node_faces()
    aux_tables = {"edge_node": ("edge_node_connectivity", [list(e) for e in el], 2),
                  "face_edge": ("face_edge_connectivity", fe, w),
                  "edge_face": ("edge_face_connectivity", ef, 2),
                  "node_face": ("node_face_connectivity", nfs, max(len(x) for x in nfs)),
                  "face_face": ("face_face_connectivity", am.face_faces(), w)}
    for k in d["aux"]:
        if k in aux_tables:
            name, rows, ww = aux_tables[k]
            if d["fill"] == "none" and any(len(r) != ww or None in r for r in rows):
                continue
            arr = enc_conn(rows, ww, start, fillv, d["dtype"])
            kw[name] = arr
            image["aux"][k] = img(arr)
            ex.aux[k] = rows
        elif k == "face_coords":
            fc = am.face_centres()
            flon = lon_conv([c[0] for c in fc], d["lon"])
            kw["face_lon"] = np.array(flon)
            kw["face_lat"] = np.array([c[1] for c in fc])
            ex.aux["face_coords"] = list(zip(flon, [c[1] for c in fc]))
    return kw, ex, image


# ---------------------------------------------------------------------------------------------
# MPAS (primal and dual)

def mpas_dialect(rng, am, force=None):
    d = {"dual": rng.random() < 0.35 and am.closed and am.manifold(),
         "pad": rng.choice(["zeros", "repeat_last", "junk"]),
         "dtype": rng.choice(["int32", "int64", "int64", "float64"]),
         "lon": rng.choice(["360", "360", "180"]),
         "extra_w": rng.choice([0, 0, 1, 2]),
         "xyz": rng.random() < 0.5,
         "opt": rng.random() < 0.7}
    if force:
        d.update(force)
    return d


def ring_faces_of_node(am):
    """faces around each node in ring order (closed manifold meshes); falls back to listing order"""
    nf = {}
    for fi, f in enumerate(am.faces):
        for i in range(len(f)):
            nf[(f[i], f[(i + 1) % len(f)])] = fi
    out = []
    for v in range(am.n_node):
        start = None
        for (a, b) in nf:
            if a == v:
                start = (a, b)
                break
        if start is None:
            out.append([])
            continue
        ring, cur = [], start
        while True:
            fi = nf[cur]
            ring.append(fi)
            f = am.faces[fi]
            u = f[(f.index(v) - 1) % len(f)]
            cur = (v, u)
            if cur == start or cur not in nf or len(ring) > 64:
                break
        out.append(ring)
    return out


def build_mpas(am, d, rng):
    dt = DT[d["dtype"]]
    nC, nV = am.n_face, am.n_node
    maxE = am.width() + d["extra_w"]
    el, fe, ef = am.edges()
    nE = len(el)

    def padded(rows, width):
        out = []
        for r in rows:
            rr = [(0 if x is None else x + 1) for x in r]
            k = width - len(rr)
            if d["pad"] == "zeros":
                rr += [0] * k
            elif d["pad"] == "repeat_last":
                rr += [rr[-1]] * k
            else:
                rr += [rng.randrange(1, max(2, min(nV, nC, nE))) for _ in range(k)]
            out.append(rr)
        return np.array(out, dtype=dt)

    if d["dual"]:
        cov = ring_faces_of_node(am)
    else:
        cov = am.node_faces()
    vdeg = max(len(x) for x in cov)
    # cellsOnVertex: boundary vertices have fewer cells -> zeros (MPAS convention), at the end here
    cOnV = np.array([[x + 1 for x in r] + [0] * (vdeg - len(r)) for r in cov], dtype=dt)
    ds = xr.Dataset()
    ds["nEdgesOnCell"] = xr.DataArray(np.array([len(f) for f in am.faces], dtype=dt), dims=["nCells"])
    vOnC = padded(am.faces, maxE)
    ds["verticesOnCell"] = xr.DataArray(vOnC, dims=["nCells", "maxEdges"])
    ds["cellsOnVertex"] = xr.DataArray(cOnV, dims=["nVertices", "vertexDegree"])
    to_rad = lambda l: np.deg2rad(np.array(l, dtype=float))
    vlon = lon_conv(am.lon, d["lon"])
    fc = am.face_centres()
    clon = lon_conv([c[0] for c in fc], d["lon"])
    clat = [c[1] for c in fc]
    ds["lonVertex"] = xr.DataArray(to_rad(vlon), dims=["nVertices"])
    ds["latVertex"] = xr.DataArray(to_rad(am.lat), dims=["nVertices"])
    ds["lonCell"] = xr.DataArray(to_rad(clon), dims=["nCells"])
    ds["latCell"] = xr.DataArray(to_rad(clat), dims=["nCells"])
    # positions as the source gives them, in degrees (independent conversion)
    vpos = [(math.degrees(a), math.degrees(b)) for a, b in zip(ds["lonVertex"].values.tolist(), ds["latVertex"].values.tolist())]
    cpos = [(math.degrees(a), math.degrees(b)) for a, b in zip(ds["lonCell"].values.tolist(), ds["latCell"].values.tolist())]
    R = 6371229.0
    xyz_src = {}
    if d["xyz"]:
        for nm, pts in (("Vertex", am.xyz), ("Cell", [lonlat_to_xyz(*c) for c in fc])):
            for k, ax in enumerate("xyz"):
                ds[ax + nm] = xr.DataArray(np.array([p[k] * R for p in pts]), dims=["nVertices" if nm == "Vertex" else "nCells"])
            xyz_src[nm] = [[p[k] * R for k in range(3)] for p in pts]
    image = {"vOnC": img(vOnC), "nE": [len(f) for f in am.faces], "cOnV": img(cOnV), "aux": {}}
    if d["dual"]:
        ex = Expect(am, faces=cov, pos=cpos)
        ex.n_node = nC
        ex.aux["node_face"] = [list(f) for f in am.faces]          # node (=cell) -> dual faces (=vertices)
        ex.aux["face_coords"] = vpos
        if xyz_src:
            ex.aux["node_xyz"], ex.aux["face_xyz"] = xyz_src["Cell"], xyz_src["Vertex"]
    else:
        ex = Expect(am, pos=vpos)
        ex.n_node = nV
        ex.aux["node_face"] = [list(x) for x in cov]
        ex.aux["face_coords"] = cpos
        if xyz_src:
            ex.aux["node_xyz"], ex.aux["face_xyz"] = xyz_src["Vertex"], xyz_src["Cell"]
    if d["opt"]:
        vOnE = np.array([[a + 1, b + 1] for a, b in el], dtype=dt)
        cOnE = np.array([[x + 1 for x in r] + [0] * (2 - len(r)) for r in ef], dtype=dt)
        eOnC = padded(fe, maxE)
        cOnC = padded(am.face_faces(), maxE)
        ds["verticesOnEdge"] = xr.DataArray(vOnE, dims=["nEdges", "TWO"])
        ds["cellsOnEdge"] = xr.DataArray(cOnE, dims=["nEdges", "TWO"])
        ds["edgesOnCell"] = xr.DataArray(eOnC, dims=["nCells", "maxEdges"])
        ds["cellsOnCell"] = xr.DataArray(cOnC, dims=["nCells", "maxEdges"])
        # edgesOnVertex: edges incident to each vertex
        eov = [[] for _ in range(nV)]
        for ei, (a, b) in enumerate(el):
            eov[a].append(ei)
            eov[b].append(ei)
        wv = max(len(x) for x in eov)
        eOnV = np.array([[x + 1 for x in r] + [0] * (wv - len(r)) for r in eov], dtype=dt)
        ds["edgesOnVertex"] = xr.DataArray(eOnV, dims=["nVertices", "vertexDegreeE"])
        ec = am.edge_centres()
        elon = lon_conv([c[0] for c in ec], d["lon"])
        ds["lonEdge"] = xr.DataArray(to_rad(elon), dims=["nEdges"])
        ds["latEdge"] = xr.DataArray(to_rad([c[1] for c in ec]), dims=["nEdges"])
        epos = [(math.degrees(a), math.degrees(b)) for a, b in zip(ds["lonEdge"].values.tolist(), ds["latEdge"].values.tolist())]
        area_c = np.array([1.0e9 + 17.0 * i for i in range(nC)])
        area_t = np.array([2.0e8 + 3.0 * i for i in range(nV)])
        ds["areaCell"] = xr.DataArray(area_c, dims=["nCells"])
        ds["areaTriangle"] = xr.DataArray(area_t, dims=["nVertices"])
        ds["dvEdge"] = xr.DataArray(np.array([1000.0 + i for i in range(nE)]), dims=["nEdges"])
        ds["dcEdge"] = xr.DataArray(np.array([2000.0 + i for i in range(nE)]), dims=["nEdges"])
        image["aux"] = {"vOnE": img(vOnE), "cOnE": img(cOnE), "eOnC": img(eOnC), "cOnC": img(cOnC), "eOnV": img(eOnV)}
        if d["dual"]:
            ex.aux["edge_node"] = [list(r) for r in ef]            # dual edge joins the two cells
            ex.aux["edge_face"] = [list(e) for e in el]            # and separates the two vertices
            ex.aux["face_edge"] = eov
            ex.aux["areas"] = area_t.tolist()
        else:
            ex.aux["edge_node"] = [list(e) for e in el]
            ex.aux["edge_face"] = [list(r) for r in ef]
            ex.aux["face_edge"] = fe
            ex.aux["face_face"] = am.face_faces()
            ex.aux["areas"] = area_c.tolist()
        ex.aux["edge_coords"] = epos
        if not d["dual"]:
            # primal: dvEdge = distance between the edge's two vertices (= nodes), dcEdge between its two cells
            # (= faces).  On the dual mesh the roles are exchanged; distances are not among the items C01 lists, so
            # nothing is asserted there.
            ex.aux["edge_node_distances"] = ds["dvEdge"].values.tolist()
            ex.aux["edge_face_distances"] = ds["dcEdge"].values.tolist()
    ds.attrs = {"on_a_sphere": "YES", "sphere_radius": R, "mesh_spec": "1.0"}
    return ds, ex, image


# ---------------------------------------------------------------------------------------------
# SCRIP

def scrip_dialect(rng, am, force=None):
    d = {"lon": rng.choice(["180", "360"]), "pad": "repeat_last", "extra_w": 0 if am.uniform() and rng.random() < 0.8 else rng.choice([0, 1]),
         "dup": rng.choice([None, None, None, "start", "middle", "any"])}
    if force:
        d.update(force)
    return d


def build_scrip(am, d, rng):
    # cells may list a corner twice at the START or in the MIDDLE of their row (e.g. polar cells written
    # (pole, pole, a, b)): such a repetition is part of the face the source describes; only the TRAILING run of
    # repetitions of the last corner is padding
    faces = [list(f) for f in am.faces]
    if d.get("dup"):
        for f in faces:
            if rng.random() < 0.5:
                j = 0 if d["dup"] == "start" else (rng.randrange(1, len(f) - 1) if d["dup"] == "middle" else rng.randrange(0, len(f) - 1))
                f.insert(j, f[j])
    w = max(len(f) for f in faces) + d["extra_w"]
    lon = lon_conv(am.lon, d["lon"])
    clon = [[lon[i] for i in f] + [lon[f[-1]]] * (w - len(f)) for f in faces]
    clat = [[am.lat[i] for i in f] + [am.lat[f[-1]]] * (w - len(f)) for f in faces]
    fc = am.face_centres()
    flon = lon_conv([c[0] for c in fc], d["lon"])
    ds = xr.Dataset()
    ds["grid_corner_lon"] = xr.DataArray(np.array(clon), dims=["grid_size", "grid_corners"], attrs={"units": "degrees"})
    ds["grid_corner_lat"] = xr.DataArray(np.array(clat), dims=["grid_size", "grid_corners"], attrs={"units": "degrees"})
    ds["grid_center_lon"] = xr.DataArray(np.array(flon), dims=["grid_size"], attrs={"units": "degrees"})
    ds["grid_center_lat"] = xr.DataArray(np.array([c[1] for c in fc]), dims=["grid_size"], attrs={"units": "degrees"})
    # areas in km^2 on a sphere of radius 6371 km (deliberately NOT unit-sphere quadrature values)
    garea = np.array([1.3e5 + 7.25 * i for i in range(am.n_face)])
    ds["grid_area"] = xr.DataArray(garea, dims=["grid_size"], attrs={"units": "km^2"})
    ds["grid_imask"] = xr.DataArray(np.ones(am.n_face, dtype=np.int32), dims=["grid_size"])
    ds["grid_dims"] = xr.DataArray(np.array([am.n_face], dtype=np.int32), dims=["grid_rank"])
    ex = Expect(am, faces=faces, pos=list(zip(lon, am.lat)))
    ex.aux["face_coords"] = list(zip(flon, [c[1] for c in fc]))
    ex.aux["areas"] = garea.tolist()
    ex.n_node = len({(lon[i], am.lat[i]) for f in faces for i in f})
    padded = any(len(f) < w for f in faces)
    return ds, ex, {"clon": clon, "clat": clat, "padded": padded, "faces": faces}


# ---------------------------------------------------------------------------------------------
# Exodus

def exodus_dialect(rng, am, force=None):
    d = {"coord": rng.choice(["coord", "coord", "xyz"]), "dtype": rng.choice(["int32", "int32", "int64"]),
         "blocks": rng.choice(["runs", "runs", "by_size", "single"]), "n_blocks": rng.randrange(1, 15)}
    if am.uniform() and d["blocks"] == "by_size":
        d["blocks"] = "single"
    if force:
        d.update(force)
    return d


def build_exodus(am, d, rng):
    dt = DT[d["dtype"]]
    ds = xr.Dataset()
    if d["blocks"] == "single":
        blocks = [list(range(am.n_face))]
    elif d["blocks"] == "runs":
        # file order = face order: consecutive faces of one size form a block; runs are split further until
        # about n_blocks blocks exist (several blocks of the same face size, ten and more blocks)
        blocks = []
        for i, f in enumerate(am.faces):
            if blocks and len(am.faces[blocks[-1][-1]]) == len(f):
                blocks[-1].append(i)
            else:
                blocks.append([i])
        while len(blocks) < d.get("n_blocks", 1):
            big = [k for k, b in enumerate(blocks) if len(b) > 1]
            if not big:
                break
            k = rng.choice(big)
            cut = rng.randrange(1, len(blocks[k]))
            blocks[k:k + 1] = [blocks[k][:cut], blocks[k][cut:]]
    else:
        sizes = []
        for f in am.faces:
            if len(f) not in sizes:
                sizes.append(len(f))
        if rng.random() < 0.5:
            sizes.sort(reverse=rng.random() < 0.5)
        blocks = [[i for i, f in enumerate(am.faces) if len(f) == s] for s in sizes]
    order = [i for b in blocks for i in b]
    image_blocks = []
    for bi, b in enumerate(blocks):
        w = max(len(am.faces[i]) for i in b)
        arr = np.array([[x + 1 for x in am.faces[i]] + [0] * (w - len(am.faces[i])) for i in b], dtype=dt)
        ds["connect%d" % (bi + 1)] = xr.DataArray(arr, dims=["num_el_in_blk%d" % (bi + 1), "num_nod_per_el%d" % (bi + 1)],
                                                 attrs={"elem_type": "SHELL%d" % w})
        image_blocks.append(img(arr))
    xyz = np.array(am.xyz).T
    if d["coord"] == "coord":
        ds["coord"] = xr.DataArray(xyz, dims=["num_dim", "num_nodes"])
    else:
        ds["coordx"] = xr.DataArray(xyz[0].copy(), dims=["num_nodes"])
        ds["coordy"] = xr.DataArray(xyz[1].copy(), dims=["num_nodes"])
        ds["coordz"] = xr.DataArray(xyz[2].copy(), dims=["num_nodes"])
        ds["coor_names"] = xr.DataArray(np.array([[b"x"], [b"y"], [b"z"]], dtype="S1"), dims=["num_dim", "len_name"])
    ds["eb_status"] = xr.DataArray(np.ones(len(blocks), dtype=np.int32), dims=["num_el_blk"])
    ds["time_whole"] = xr.DataArray(np.zeros(0), dims=["time_step"])
    ds.attrs = {"api_version": 5.0, "version": 5.0, "floating_point_word_size": 8, "title": "verif"}
    pos = [xyz_to_lonlat(*p) for p in am.xyz]
    ex = Expect(am, faces=[am.faces[i] for i in order], pos=pos)
    ex.n_node = am.n_node
    return ds, ex, {"blocks": image_blocks, "n_blocks": len(blocks)}


def build_exodus_fixture(d, repo):
    """an Exodus file of the test-suite, decoded independently here (plain xarray: connectN blocks in
    variable order, 1-based, coord rows = x, y, z)"""
    path = os.path.join(repo, d["path"])
    if not os.path.exists(path):
        path = os.path.join("/repo", d["path"])
    ds = xr.open_dataset(path, decode_times=False)
    blocks = [np.asarray(ds[k].values).astype(np.int64) for k in ds.variables if k.startswith("connect")]
    xyz = np.asarray(ds["coord"].values, dtype=float)
    pos = [xyz_to_lonlat(xyz[0, i], xyz[1, i], xyz[2, i]) for i in range(xyz.shape[1])]
    ex = Expect.__new__(Expect)
    ex.face_pos = [[pos[int(v) - 1] for v in r if int(v) != 0] for b in blocks for r in b.tolist()]
    ex.aux = {}
    ex.n_node = xyz.shape[1]
    assert len(ex.face_pos) == d["n_face"] and [len(b) for b in blocks] == d["blocks"], "fixture changed"
    ds.close()
    return path, ex, {"blocks": [img(b) for b in blocks], "n_blocks": len(blocks)}


# ---------------------------------------------------------------------------------------------
# ESMF

def esmf_dialect(rng, am, force=None):
    d = {"start": rng.choice([None, None, 1, 0]), "store": rng.choice(["int32", "int32", "masked", "int64"]),
         "pad": rng.choice(["fill", "fill", "junk"]), "lon": rng.choice(["360", "180"]),
         "centers": rng.random() < 0.7, "extra_w": rng.choice([0, 0, 1]), "ndt": rng.choice(["int32", "int8", "int64"]),
         "areas": rng.random() < 0.7}
    if force:
        d.update(force)
    return d


def build_esmf(am, d, rng):
    start = 1 if d["start"] is None else d["start"]
    w = am.width() + d["extra_w"]
    rows = []
    for f in am.faces:
        r = [x + start for x in f]
        k = w - len(r)
        r += [-1] * k if d["pad"] == "fill" else [rng.randrange(start, start + am.n_node) for _ in range(k)]
        rows.append(r)
    lon = lon_conv(am.lon, d["lon"])
    ds = xr.Dataset()
    ds["nodeCoords"] = xr.DataArray(np.array([lon, am.lat]).T.copy(), dims=["nodeCount", "coordDim"], attrs={"units": "degrees"})
    if d["store"] == "masked":
        arr = np.array(rows, dtype=np.float64)
        arr[arr == -1] = np.nan                 # what xr.open_dataset yields for _FillValue=-1 storage
        attrs = {"long_name": "Node indices that define the element connectivity"}
    else:
        arr = np.array(rows, dtype=DT[d["store"]])
        attrs = {"long_name": "Node indices that define the element connectivity", "_FillValue": DT[d["store"]](-1)}
    if d["start"] is not None:
        attrs["start_index"] = np.int32(d["start"])
    ds["elementConn"] = xr.DataArray(arr, dims=["elementCount", "maxNodePElement"], attrs=attrs)
    ds["numElementConn"] = xr.DataArray(np.array([len(f) for f in am.faces], dtype=DT.get(d["ndt"], np.int8) if d["ndt"] != "int8" else np.int8),
                                        dims=["elementCount"], attrs={"long_name": "Number of nodes per element"})
    ex = Expect(am, pos=list(zip(lon, am.lat)))
    ex.n_node = am.n_node
    ex.aux["n_nodes_per_face"] = [len(f) for f in am.faces]
    if d["centers"]:
        fc = am.face_centres()
        flon = lon_conv([c[0] for c in fc], d["lon"])
        ds["centerCoords"] = xr.DataArray(np.array([flon, [c[1] for c in fc]]).T.copy(), dims=["elementCount", "coordDim"],
                                          attrs={"units": "degrees"})
        ex.aux["face_coords"] = list(zip(flon, [c[1] for c in fc]))
    if d.get("areas", True):
        # arbitrary positive numbers (not unit-sphere areas): a silent recomputation would be visible
        earea = np.array([42.5 + 0.75 * i for i in range(am.n_face)])
        ds["elementArea"] = xr.DataArray(earea, dims=["elementCount"], attrs={"units": "arbitrary"})
        ex.aux["areas"] = earea.tolist()
    ds["elementMask"] = xr.DataArray(np.ones(am.n_face, dtype=np.int32), dims=["elementCount"])
    ds.attrs = {"gridType": "unstructured mesh", "version": "0.9"}
    return ds, ex, {"conn": img(arr), "n": [len(f) for f in am.faces], "start": d["start"]}


# ---------------------------------------------------------------------------------------------
# GEOS-CS (structured corner lattices per tile)

def geos_dialect(rng, force=None):
    d = {"nf": rng.choice([1, 2, 6]), "ny": rng.choice([2, 3, 4, 5]), "nx": None, "lon": rng.choice(["360", "180"]),
         "centers": rng.random() < 0.6}
    d["nx"] = d["ny"] if rng.random() < 0.6 else rng.choice([2, 3, 4, 6])
    if force:
        d.update(force)
    return d


def build_geos(d, rng):
    nf, ny, nx = d["nf"], d["ny"], d["nx"]         # corner lattice is (nf, ny, nx) = dims (nf, YCdim, XCdim)
    lons = np.zeros((nf, ny, nx))
    lats = np.zeros((nf, ny, nx))
    for f in range(nf):
        lon0 = -180.0 + 60.0 * f + rng.uniform(0, 5)
        lat0 = rng.uniform(-60, 20)
        dl = rng.uniform(3, 40.0 / nx)
        db = rng.uniform(3, 40.0 / ny)
        for i in range(ny):
            for j in range(nx):
                lons[f, i, j] = lon0 + dl * j + 0.3 * i
                lats[f, i, j] = lat0 + db * i + 0.2 * j
    lons = ((lons + 180.0) % 360.0) - 180.0
    if d["lon"] == "360":
        lons = lons % 360.0
    ds = xr.Dataset()
    ds["corner_lons"] = xr.DataArray(lons, dims=["nf", "YCdim", "XCdim"], attrs={"units": "degrees_east"})
    ds["corner_lats"] = xr.DataArray(lats, dims=["nf", "YCdim", "XCdim"], attrs={"units": "degrees_north"})
    face_pos = []
    cen = []
    for f in range(nf):
        for i in range(ny - 1):
            for j in range(nx - 1):
                ring = [(i + 1, j + 1), (i + 1, j), (i, j), (i, j + 1)]
                face_pos.append([(float(lons[f, a, b]), float(lats[f, a, b])) for a, b in ring])
                cen.append((float(np.mean([lons[f, a, b] for a, b in ring])) if d["lon"] == "180" or True else 0.0,
                            float(np.mean([lats[f, a, b] for a, b in ring]))))
    ex = Expect.__new__(Expect)
    ex.face_pos = face_pos
    ex.aux = {}
    ex.n_node = nf * ny * nx
    ex.ring_free = True                   # the source fixes the quad, not its starting corner/orientation
    if d["centers"]:
        cl = np.array([c[0] for c in cen]).reshape(nf, ny - 1, nx - 1)
        cb = np.array([c[1] for c in cen]).reshape(nf, ny - 1, nx - 1)
        ds["lons"] = xr.DataArray(cl, dims=["nf", "Ydim", "Xdim"])
        ds["lats"] = xr.DataArray(cb, dims=["nf", "Ydim", "Xdim"])
        ex.aux["face_coords"] = cen
    return ds, ex, {"nf": nf, "n1": ny, "n2": nx}


# ---------------------------------------------------------------------------------------------
# ICON (triangles; tables stored transposed, 1-based, int32, 0 = no neighbour)

def icon_dialect(rng, am, force=None):
    d = {"lon": "180", "dtype": rng.choice(["int32", "int32", "int64"])}
    if force:
        d.update(force)
    return d


def build_icon(am, d, rng):
    assert all(len(f) == 3 for f in am.faces)
    dt = DT[d["dtype"]]
    el, fe, ef = am.edges()
    ff = am.face_faces()
    T = lambda rows, w: np.array([[(0 if x is None else x + 1) for x in r] + [0] * (w - len(r)) for r in rows], dtype=dt).T.copy()
    ds = xr.Dataset()
    ds["vertex_of_cell"] = xr.DataArray(T(am.faces, 3), dims=["nv", "cell"])
    ds["edge_of_cell"] = xr.DataArray(T(fe, 3), dims=["nv", "cell"])
    ds["neighbor_cell_index"] = xr.DataArray(T(ff, 3), dims=["nv", "cell"])
    ds["adjacent_cell_of_edge"] = xr.DataArray(T(ef, 2), dims=["nc", "edge"])
    ds["edge_vertices"] = xr.DataArray(T([list(e) for e in el], 2), dims=["nc", "edge"])
    rad = lambda l: np.deg2rad(np.array(l, dtype=float))
    fc, ec = am.face_centres(), am.edge_centres()
    ds["vlon"] = xr.DataArray(rad(am.lon), dims=["vertex"])
    ds["vlat"] = xr.DataArray(rad(am.lat), dims=["vertex"])
    ds["clon"] = xr.DataArray(rad([c[0] for c in fc]), dims=["cell"])
    ds["clat"] = xr.DataArray(rad([c[1] for c in fc]), dims=["cell"])
    ds["elon"] = xr.DataArray(rad([c[0] for c in ec]), dims=["edge"])
    ds["elat"] = xr.DataArray(rad([c[1] for c in ec]), dims=["edge"])
    deg = lambda a, b: [(math.degrees(x), math.degrees(y)) for x, y in zip(ds[a].values.tolist(), ds[b].values.tolist())]
    ex = Expect(am, pos=deg("vlon", "vlat"))
    ex.n_node = am.n_node
    ex.aux["face_coords"] = deg("clon", "clat")
    ex.aux["edge_coords"] = deg("elon", "elat")
    ex.aux["edge_node"] = [list(e) for e in el]
    ex.aux["edge_face"] = [list(r) for r in ef]
    ex.aux["face_edge"] = fe
    ex.aux["face_face"] = ff
    image = {"voc": img(ds["vertex_of_cell"].values), "eoc": img(ds["edge_of_cell"].values),
             "nci": img(ds["neighbor_cell_index"].values), "ace": img(ds["adjacent_cell_of_edge"].values),
             "ev": img(ds["edge_vertices"].values), "std_dtype": d["dtype"] == "int64"}
    return ds, ex, image


# ---------------------------------------------------------------------------------------------
# GeoJSON / shapefile: one face per polygon exterior ring; multipolygons contribute one face per part

def geo_dialect(rng, am, force=None):
    d = {"kind": "geojson", "multi": rng.choice([0, 0, 1, 2]), "closing": True, "crs": 4326}
    if force:
        d.update(force)
    return d


def build_geo(am, d, rng, path):
    """writes the file; returns (path, expectation, image).  Features: list of lists of rings."""
    feats = []
    faces = list(range(am.n_face))
    i = 0
    n_multi = d["multi"]
    while i < len(faces):
        if n_multi > 0 and i + 1 < len(faces) and rng.random() < 0.5:
            k = rng.choice([2, 2, 3])
            feats.append(faces[i:i + k])
            i += k
            n_multi -= 1
        else:
            feats.append([faces[i]])
            i += 1
    crs = d.get("crs", 4326)                 # EPSG code, or None = no CRS recorded in the file
    fwd = inv = None
    if crs not in (None, 4326):
        import pyproj
        fwd = pyproj.Transformer.from_crs(4326, crs, always_xy=True).transform
        inv = pyproj.Transformer.from_crs(crs, 4326, always_xy=True).transform
    pt = lambda v: list(fwd(am.lon[v], am.lat[v])) if fwd else [am.lon[v], am.lat[v]]
    back = lambda x, y: tuple(float(c) for c in inv(x, y)) if inv else (float(x), float(y))
    ring = lambda f: [pt(v) for v in am.faces[f]] + [pt(am.faces[f][0])]
    if d["kind"] == "geojson":
        fc = {"type": "FeatureCollection", "features": []}
        if crs not in (None, 4326):
            fc["crs"] = {"type": "name", "properties": {"name": "urn:ogc:def:crs:EPSG::%d" % crs}}
        for ft in feats:
            if len(ft) == 1:
                geom = {"type": "Polygon", "coordinates": [ring(ft[0])]}
            else:
                geom = {"type": "MultiPolygon", "coordinates": [[ring(f)] for f in ft]}
            fc["features"].append({"type": "Feature", "properties": {"id": len(fc["features"])}, "geometry": geom})
        with open(path, "w") as fh:
            json.dump(fc, fh)
        # independent decoding of the file just written (json + pyproj inverse of the declared CRS)
        src = json.load(open(path))
        decoded = []
        for ft in src["features"]:
            g = ft["geometry"]
            polys = [g["coordinates"]] if g["type"] == "Polygon" else g["coordinates"]
            decoded.append([[back(x, y) for x, y in p[0][:-1]] for p in polys])
    else:
        import geopandas as gpd
        from shapely.geometry import Polygon, MultiPolygon
        geoms = []
        for ft in feats:
            ps = [Polygon(ring(f)) for f in ft]
            geoms.append(ps[0] if len(ps) == 1 else MultiPolygon(ps))
        gpd.GeoDataFrame({"id": list(range(len(geoms)))}, geometry=geoms,
                         crs=(None if crs is None else "EPSG:%d" % crs)).to_file(path)
        # independent decoding: raw geometry through pyogrio (not geopandas/uxarray) + pyproj inverse
        import pyogrio
        import shapely
        _, _, geom_wkb, _ = pyogrio.raw.read(path)
        decoded = []
        for wkb in geom_wkb:
            g = shapely.from_wkb(wkb)
            polys = [g] if g.geom_type == "Polygon" else list(g.geoms)
            decoded.append([[back(x, y) for x, y in list(p.exterior.coords)[:-1]] for p in polys])
    face_pos = [r for ft in decoded for r in ft]
    ring_free = False
    ex = Expect.__new__(Expect)
    ex.face_pos = face_pos
    ex.aux = {}
    ex.n_node = sum(len(r) for r in face_pos)
    ex.ring_free = ring_free
    ex.tol = 1e-9 if crs in (None, 4326) else 1e-6       # projection round trip
    # the decoded positions must also be the ones the polygons were generated from (lon/lat), up to ring start
    ex.generated = [[(am.lon[v], am.lat[v]) for v in am.faces[f]] for ft in feats for f in ft]
    # image: per feature the list of ring sizes
    image = {"features": [[len(r) for r in ft] for ft in decoded]}
    ex.multi_parts = [len(ft) for ft in decoded]
    return path, ex, image


# ---------------------------------------------------------------------------------------------
# face-vertex arrays

def fv_dialect(rng, am, force=None):
    d = {"coords": rng.choice(["lonlat", "lonlat", "xyz"]), "container": rng.choice(["ndarray", "list", "tuple"]),
         "entry": rng.choice(["from_face_vertices", "open_grid"]), "lon": rng.choice(["180", "360"]),
         "extra_w": rng.choice([0, 0, 1])}
    if am.n_face == 1 and rng.random() < 0.5:
        d["single2d"] = True
    if force:
        d.update(force)
    if d["coords"] == "xyz":
        d["lon"] = "180"
    return d


def build_fv(am, d, rng):
    w = am.width() + d["extra_w"]
    if d.get("single2d"):
        w = am.width()
    lon = lon_conv(am.lon, d["lon"])
    if d["coords"] == "lonlat":
        P = [(lon[i], am.lat[i]) for i in range(am.n_node)]
        k = 2
        pos = P
    else:
        P = list(am.xyz)
        k = 3
        pos = [xyz_to_lonlat(*p) for p in am.xyz]
    arr = np.full((am.n_face, w, k), float(FILL))
    for fi, f in enumerate(am.faces):
        for j, v in enumerate(f):
            arr[fi, j, :] = P[v]
    src = arr
    if d.get("single2d"):
        src = arr[0]
    if d["container"] == "list":
        src = src.tolist()
    elif d["container"] == "tuple":
        src = tuple(map(tuple, src.tolist())) if src.ndim == 2 else tuple(src.tolist())
    ex = Expect(am, pos=pos)
    ex.n_node = len({P[i] for f in am.faces for i in f})
    padded = any(len(f) < w for f in am.faces)
    return src, ex, {"P": P, "faces": am.faces, "w": w, "padded": padded, "k": k}
