"""C11 — neighbour queries agree with brute-force search under the tree's metric.

Proof: coq/Props/C11_props.v about coq/Model/C11.v (brute force, prepared query, tree coordinates,
unit handling, cache state machine; cache keys regenerated from grid.py by
harness/translators/c11_keys.py).
Tie: real trees from Grid.get_ball_tree / get_kd_tree are queried on generated grids; the property
clauses are evaluated on the implementation's answers against an independent high-precision
brute-force oracle (mpmath, 30 digits, on the coordinates the grid itself reports), and the answers
are compared with the extracted model run on the same exact inputs.
"""
import json
import math
import os
import re
import sys
from fractions import Fraction

import numpy as np

import common
import meshgen
from common import FILL, sx

sys.path.insert(0, os.path.join(common.VERIF, ".pydeps"))
import mpmath as mp  # noqa: E402

mp.mp.dps = 30

KINDS = ["nodes", "face centers", "edge centers"]
KIND_PREFIX = {"nodes": "node", "face centers": "face", "edge centers": "edge"}
SYSTEMS = ["spherical", "cartesian"]
TREES = ["ball", "kd"]
# metric code (model) -> names accepted by sklearn
METRIC_NAMES = {0: ["haversine"], 1: ["minkowski", "euclidean", "l2"], 2: ["manhattan", "l1", "cityblock"],
                3: ["chebyshev", "infinity"]}
# (tree, system, metric code) combinations the property speaks about
COMBOS = [("ball", "spherical", 0)] + [("ball", "cartesian", m) for m in (1, 2, 3)] + \
         [("kd", s, m) for s in SYSTEMS for m in (1, 2, 3)]

D2R = float(np.deg2rad(1.0))
NUM, _DEN = D2R.as_integer_ratio()
TEXP = _DEN.bit_length() - 1
assert _DEN == 1 << TEXP
PI_F = float(np.pi)              # the double the code clamps great-circle radii at
EMB = 110                      # embedding scale 2^-EMB for unit vectors handed to the model
PI = mp.pi


# ------------------------------------------------------------------------------------------------
# grids

def grid_spec(m, extra_pad=0):
    lon, lat = m.lonlat()
    return {"lon": lon, "lat": lat, "table": m.table(m.width() + extra_pad), "name": m.name}


def mk_grid(gs):
    import uxarray as ux
    return ux.Grid.from_topology(np.array(gs["lon"], dtype=float), np.array(gs["lat"], dtype=float),
                                 np.array(gs["table"], dtype=np.intp), fill_value=FILL)


class GridData:
    """the coordinates the grid itself reports, per element kind, as exact doubles + mp forms"""

    def __init__(self, g):
        self.n = {}
        self.f = {}
        self.sph = {}
        self.unit = {}
        self.xyz = {}
        for kind in KINDS:
            p = KIND_PREFIX[kind]
            arrs = [np.asarray(getattr(g, "%s_%s" % (p, c)).values, dtype=float) for c in ("lon", "lat", "x", "y", "z")]
            self.f[kind] = [[float(v) for v in a] for a in arrs]
            n = len(arrs[0])
            self.n[kind] = n
            lat = [mp.radians(mp.mpf(v)) for v in self.f[kind][1]]
            lon = [mp.radians(mp.mpf(v)) for v in self.f[kind][0]]
            self.sph[kind] = list(zip(lat, lon))
            self.unit[kind] = [unit_vec(a, b) for a, b in self.sph[kind]]
            self.xyz[kind] = [tuple(mp.mpf(self.f[kind][c][i]) for c in (2, 3, 4)) for i in range(n)]


def unit_vec(lat, lon):
    c = mp.cos(lat)
    return (c * mp.cos(lon), c * mp.sin(lon), mp.sin(lat))


def arc_of(u, v):
    ch = mp.sqrt(sum((a - b) ** 2 for a, b in zip(u, v)))
    h = ch / 2
    return 2 * mp.asin(h if h < 1 else mp.mpf(1))


def norm_of(diffs, mcode):
    if mcode == 2:
        return sum(abs(d) for d in diffs)
    if mcode == 3:
        return max(abs(d) for d in diffs)
    return mp.sqrt(sum(d * d for d in diffs))


def doc_query(system, mcode, lon, lat):
    """documented query format for a position given in degrees"""
    if system == "spherical":
        return [lon, lat] if mcode == 0 else [lat, lon]
    la, lo = math.radians(lat), math.radians(lon)
    return [math.cos(la) * math.cos(lo), math.cos(la) * math.sin(lo), math.sin(la)]


def oracle_dists(gd, kind, system, mcode, q, in_radians):
    """true distances (tree unit: radians for spherical, coordinate unit for Cartesian) from the query
    `q` (documented format, exact doubles) to every element of `kind`"""
    if system == "spherical":
        a, b = mp.mpf(float(q[0])), mp.mpf(float(q[1]))
        if not in_radians:
            a, b = mp.radians(a), mp.radians(b)
        if mcode == 0:
            lonq, latq = a, b
            uq = unit_vec(latq, lonq)
            return [arc_of(uq, u) for u in gd.unit[kind]]
        latq, lonq = a, b
        return [norm_of((latq - la, lonq - lo), mcode) for la, lo in gd.sph[kind]]
    qq = [mp.mpf(float(v)) for v in q]
    return [norm_of([qq[c] - p[c] for c in range(3)], mcode) for p in gd.xyz[kind]]


def out_factor(system, in_radians):
    """documented unit of returned distances: degrees for spherical trees unless in_radians"""
    return (mp.mpf(180) / PI) if (system == "spherical" and not in_radians) else mp.mpf(1)


def tol(d, mcode):
    """absolute tolerance on a distance in tree units (Appendix B: rel 1e-9; haversine within 1e-3 rad
    of the antipode is ill-conditioned in double precision: 1e-7)"""
    if mcode == 0 and PI - d < mp.mpf("1e-3"):
        return mp.mpf("1e-7")
    return mp.mpf("1e-9") * max(mp.mpf(1), d)


# ------------------------------------------------------------------------------------------------
# implementation side

def get_tree(g, tree, kind, system, metric, reconstruct=False):
    if tree == "ball":
        return g.get_ball_tree(coordinates=kind, coordinate_system=system, distance_metric=metric,
                               reconstruct=reconstruct)
    return g.get_kd_tree(coordinates=kind, coordinate_system=system, distance_metric=metric,
                         reconstruct=reconstruct)


def acquire(gs, g, c):
    """the tree for a query case: fresh grid, reconstruct=True on a used grid, or reached through the
    `coordinates` setter (same system and metric, other kind first)"""
    how = c["acquire"]
    if how == "fresh":
        g = mk_grid(gs)
        return get_tree(g, c["tree"], c["kind"], c["system"], c["metric"])
    if how == "reconstruct":
        return get_tree(g, c["tree"], c["kind"], c["system"], c["metric"], reconstruct=True)
    other = KINDS[(KINDS.index(c["kind"]) + 1 + c.get("switch_via", 0)) % 3]
    get_tree(g, c["tree"], other, c["system"], c["metric"], reconstruct=True)
    return get_tree(g, c["tree"], c["kind"], c["system"], c["metric"])


def q_arg(c):
    """the query container handed to the implementation.  Unless the case says "list", a float64
    C-contiguous ndarray that the harness keeps, compares bit for bit with a saved copy after every call
    and hands in again (queries must be pure in their arguments and repeatable)"""
    q = c["queries"]
    if c.get("container") == "list":
        return list(q[0]) if c.get("single_flat") else [list(x) for x in q]
    a = np.ascontiguousarray(np.array(q, dtype=np.float64))
    return a[0].copy() if c.get("single_flat") else a


def unchanged(arr, saved):
    return (not isinstance(arr, np.ndarray)) or (arr.dtype == saved.dtype and arr.shape == saved.shape and arr.tobytes() == saved.tobytes())


def check_knn(gd, c, res):
    """property clauses on one k-nearest answer; returns (clause, detail) or None"""
    nq, k = len(c["queries"]), c["k"]
    mcode, system, rad = c["mcode"], c["system"], c["in_radians"]
    if c["return_distance"]:
        d, ind = res
        d = np.asarray(d, dtype=float)
    else:
        d, ind = None, res
    ind = np.asarray(ind)
    if ind.size != nq * k or (d is not None and d.size != nq * k):
        return "knn_shape", "sizes %s vs nq*k=%d" % (ind.shape, nq * k)
    ind = ind.reshape(nq, k)
    if d is not None:
        d = d.reshape(nq, k)
    fac = out_factor(system, rad)
    n = gd.n[c["kind"]]
    for qi, q in enumerate(c["queries"]):
        D = oracle_dists(gd, c["kind"], system, mcode, q, rad)
        Ds = sorted(D)
        row = [int(v) for v in ind[qi]]
        if len(set(row)) != k or any(not (0 <= v < n) for v in row):
            return "knn_indices", "row %s" % row
        got = [D[v] for v in row]
        for j in range(k):
            if abs(got[j] - Ds[j]) > tol(Ds[j], mcode):
                gs_ = sorted(got)
                if all(abs(gs_[i] - Ds[i]) <= tol(Ds[i], mcode) for i in range(k)):
                    return "knn_order", "query %d: returned order is not nearest first" % qi
                return "knn_nearest", "query %d pos %d: returned element %d at %s, brute force %s" % (
                    qi, j, row[j], mp.nstr(got[j], 12), mp.nstr(Ds[j], 12))
        if d is not None:
            for j in range(k):
                want = got[j] * fac
                if abs(mp.mpf(float(d[qi][j])) - want) > tol(got[j], mcode) * fac:
                    return "knn_distance_unit", "query %d pos %d: reported %r, true %s" % (
                        qi, j, float(d[qi][j]), mp.nstr(want, 15))
    return None


def radius_tree_units(c):
    """the radius in tree units under the reading of DESIGN Appendix E: BallTree on spherical
    coordinates: degrees (docstring); KDTree on spherical: the tree's own unit (radians); Cartesian:
    coordinate unit"""
    r = mp.mpf(float(c["r"]))
    if c["system"] == "spherical" and c["tree"] == "ball":
        return mp.radians(r)
    return r


def check_radius(gd, c, res):
    nq = len(c["queries"])
    mcode, system, rad = c["mcode"], c["system"], c["in_radians"]
    r = radius_tree_units(c)
    fac = out_factor(system, rad)
    if c.get("count_only"):
        cnt = np.asarray(res).reshape(-1)
        if cnt.size != nq:
            return "radius_shape", "count shape %s" % (np.asarray(res).shape,)
        inds, ds = None, None
    elif c["return_distance"]:
        ds, inds = res
    else:
        inds, ds = res, None
    if inds is not None:
        if nq == 1:
            inds = [inds]
            ds = [ds] if ds is not None else None
        if len(inds) != nq:
            return "radius_shape", "got %d rows for %d queries" % (len(inds), nq)
    n = gd.n[c["kind"]]
    for qi, q in enumerate(c["queries"]):
        D = oracle_dists(gd, c["kind"], system, mcode, q, rad)
        must = {i for i in range(n) if D[i] <= r - tol(D[i], mcode) or (D[i] == 0 and r >= 0)}
        may = {i for i in range(n) if D[i] <= r + tol(D[i], mcode)}
        if inds is None:
            if not (len(must) <= int(cnt[qi]) <= len(may)):
                return "radius_count", "query %d: count %d, brute force %d..%d" % (qi, int(cnt[qi]), len(must), len(may))
            continue
        row = [int(v) for v in np.asarray(inds[qi]).reshape(-1)]
        if len(set(row)) != len(row) or any(not (0 <= v < n) for v in row):
            return "radius_indices", "row %s" % row
        S = set(row)
        if not (must <= S <= may):
            return "radius_set", "query %d: missing %s, extra %s (r=%s tree units)" % (
                qi, sorted(must - S), sorted(S - may), mp.nstr(r, 12))
        if ds is not None:
            drow = [float(v) for v in np.asarray(ds[qi], dtype=float).reshape(-1)]
            if len(drow) != len(row):
                return "radius_shape", "distance row length"
            for v, dv in zip(row, drow):
                if abs(mp.mpf(dv) - D[v] * fac) > tol(D[v], mcode) * fac:
                    return "radius_distance_unit", "query %d element %d: reported %r, true %s" % (
                        qi, v, dv, mp.nstr(D[v] * fac, 15))
    return None


def impl_knn(tree, c, q=None):
    return tree.query(q_arg(c) if q is None else q, k=c["k"], in_radians=c["in_radians"], return_distance=c["return_distance"])


def impl_radius(tree, c, q=None):
    return tree.query_radius(q_arg(c) if q is None else q, r=c["r"], in_radians=c["in_radians"],
                             return_distance=c["return_distance"], count_only=bool(c.get("count_only")))


def observe_tree(gd, t, ttype, probe, cand_cache):
    """behavioural identification of a tree object: which (kind, system, metric code) explain its
    answers to an all-elements radius query at the probe position.  Returns (list of matches, note)."""
    lon, lat = probe
    full = None
    system = None
    errs = []
    for s in SYSTEMS:
        # ball trees on spherical coordinates take (lon, lat); k-d trees take (lat, lon)
        mc = 0 if (s == "spherical" and ttype == "ball") else 1
        q = doc_query(s, mc, lon, lat)
        try:
            # all elements: 180 degrees for great-circle trees, beyond every planar/chord distance otherwise
            d, ind = t.query_radius(q, r=180.0 if (s == "spherical" and ttype == "ball") else 400.0, return_distance=True)
            full = (np.asarray(ind).reshape(-1), np.asarray(d, dtype=float).reshape(-1))
            system = s
            break
        except Exception as ex:  # wrong dimension for this tree: try the other system
            errs.append(repr(ex)[:120])
    if full is None:
        return [], "tree answers neither 2- nor 3-component queries: %s" % errs
    ind, d = full
    matches = []
    for kind in KINDS:
        if len(ind) != gd.n[kind] or sorted(int(v) for v in ind) != list(range(gd.n[kind])):
            continue
        for (tt, s, m) in COMBOS:
            if tt != ttype or s != system:
                continue
            key = (kind, s, m)
            if key not in cand_cache:
                cand_cache[key] = oracle_dists(gd, kind, s, m, doc_query(s, m, lon, lat), False)
            D = cand_cache[key]
            fac = out_factor(s, False)
            if all(abs(mp.mpf(float(dv)) - D[int(i)] * fac) <= tol(D[int(i)], m) * fac for i, dv in zip(ind, d)):
                matches.append([kind, s, m])
    return matches, system


# ------------------------------------------------------------------------------------------------
# generators

def gen_positions(rng, gd_f, kind, nq, allow_coincident=True):
    """query positions (lon, lat) in degrees: generic, on elements, poles, both sides of +-180"""
    out = []
    n = len(gd_f[kind][0])
    for _ in range(nq):
        u = rng.random()
        if u < 0.35:
            z = rng.uniform(-1, 1)
            out.append((rng.uniform(-180, 180), math.degrees(math.asin(z))))
        elif u < 0.5 and allow_coincident:
            i = rng.randrange(n)
            out.append((gd_f[kind][0][i], gd_f[kind][1][i]))
        elif u < 0.62:
            out.append((rng.uniform(-180, 180), rng.choice([90.0, -90.0])))
        elif u < 0.8:
            side = rng.choice([1, -1])
            out.append((side * (180.0 - rng.choice([0.0, 1e-9, 1e-3, 0.5, 3.0]) * rng.random()), rng.uniform(-89, 89)))
        elif u < 0.88:
            out.append((rng.choice([0.0, 1e-7, -1e-7, 90.0, -90.0]), rng.choice([0.0, 1e-7, 45.0, -45.0])))
        else:
            # longitudes outside [-180, 180]: same points for great-circle distance
            out.append((rng.uniform(180, 360) * rng.choice([1, -1]), rng.uniform(-89, 89)))
    return out


def user_query(c_system, mcode, pos, in_radians):
    lon, lat = pos
    q = doc_query(c_system, mcode, lon, lat)
    if c_system == "spherical" and in_radians:
        q = [float(np.deg2rad(q[0])), float(np.deg2rad(q[1]))]
    return [float(v) for v in q]


def gen_grid_specs(ck):
    rng = ck.rng
    specs = []
    quick = ck.tier == "quick"
    # degenerate counts first: single triangle / quad (n_face = 1), tetrahedron (n_node = n_face = 4)
    tri = meshgen.Mesh([meshgen._norm(p) for p in [(1, 0.1, 0.2), (0.2, 1, 0.1), (0.1, 0.2, 1)]], [[0, 1, 2]], False, "tri")
    specs.append(grid_spec(tri))
    quad = meshgen.Mesh([meshgen._norm(p) for p in [(-1, 0.05, 0.3), (-1, -0.05, 0.3), (-1, -0.05, -0.2), (-1, 0.05, -0.2)]],
                        [[0, 1, 2, 3]], False, "quad-antimeridian")
    specs.append(grid_spec(quad))
    polar = meshgen.Mesh([(0.0, 0.0, 1.0)] + [meshgen._norm((math.cos(a), math.sin(a), 2.0)) for a in (0.3, 2.4, 4.5)],
                         [[0, 1, 2], [0, 2, 3], [0, 3, 1]], False, "polar-cap")
    specs.append(grid_spec(polar))
    for name in ("tetra", "cube", "prism3"):
        m = meshgen.gen_mesh(rng, max_ops=0, partial=False, seeds=[name])
        specs.append(grid_spec(m))
    n = 26 if quick else 260
    for i in range(n):
        m = meshgen.gen_mesh(rng, max_ops=rng.choice([2, 4, 6, 8] if quick else [2, 4, 8, 12, 16]))
        if len(m.nodes) + 3 * len(m.faces) > 400:
            continue
        specs.append(grid_spec(m, extra_pad=rng.choice([0, 0, 1])))
    return specs


def gen_query_cases(ck, gs, gd, per_grid):
    rng = ck.rng
    cases = []
    combos = list(COMBOS)
    rng.shuffle(combos)
    for ci in range(per_grid):
        tree, system, mcode = combos[ci % len(combos)]
        kind = KINDS[(ci + rng.randrange(3)) % 3]
        n = gd.n[kind]
        metric = rng.choice(METRIC_NAMES[mcode][:2])
        rad = system == "spherical" and rng.random() < 0.4
        mode = rng.choice(["single_flat", "single_2d", "batch", "batch"])
        nq = 1 if mode.startswith("single") else rng.randrange(2, 6)
        pos = gen_positions(rng, gd.f, kind, nq)
        base = {"grid": gs, "tree": tree, "kind": kind, "system": system, "mcode": mcode, "metric": metric,
                "acquire": rng.choice(["fresh", "reconstruct", "switch"]), "switch_via": rng.randrange(2),
                "in_radians": rad, "single_flat": mode == "single_flat", "positions": pos,
                "container": "list" if rng.random() < 0.25 else "ndarray",
                "queries": [user_query(system, mcode, p, rad) for p in pos]}
        c = dict(base)
        c["type"] = "knn"
        c["k"] = rng.choice([1, n, n, min(n, 2), rng.randrange(1, n + 1), rng.randrange(1, n + 1)])
        c["return_distance"] = rng.random() < 0.8
        cases.append(c)
        c = dict(base)
        c["type"] = "radius"
        c["return_distance"] = rng.random() < 0.6
        c["count_only"] = (not c["return_distance"]) and rng.random() < 0.3
        c["r"] = None                   # chosen against the oracle (margin) in choose_radius
        cases.append(c)
    return cases


def choose_radius(rng, gd, c):
    """a radius >= 0 in the unit the method reads it in, kept >= 1e-6 (relative) away from every true
    distance so that inclusive-vs-strict comparison never decides (Appendix E); 0 is used as is"""
    allD = []
    for q in c["queries"]:
        allD += oracle_dists(gd, c["kind"], c["system"], c["mcode"], q, c["in_radians"])
    to_user = (lambda x: float(mp.degrees(x))) if (c["system"] == "spherical" and c["tree"] == "ball") else float
    for _ in range(50):
        u = rng.random()
        if u < 0.12:
            return 0.0
        if u < 0.6 and allD:
            srt = sorted(allD)
            i = rng.randrange(len(srt))
            lo = srt[i]
            hi = srt[i + 1] if i + 1 < len(srt) else srt[i] * mp.mpf("1.2") + mp.mpf("0.01")
            rt = lo + (hi - lo) * mp.mpf(rng.uniform(0.2, 0.8))
        elif u < 0.92 or c["mcode"] == 0:
            # great-circle radii mostly within the half turn; a few beyond it (every element qualifies)
            rt = mp.mpf(rng.uniform(0.0, 3.1)) if (u < 0.92 or rng.random() < 0.5) else mp.mpf(rng.uniform(3.2, 7.5))
        else:
            rt = mp.mpf(rng.uniform(3.5, 8.0))
        r = to_user(rt)
        cc = dict(c)
        cc["r"] = r
        ru = radius_tree_units(cc)
        if all(abs(D - ru) > mp.mpf("1e-6") * max(mp.mpf(1), D) for D in allD):
            return r
    return 0.0


def gen_history(rng, gs, max_len):
    L = rng.randrange(1, max_len + 1)
    reqs = []
    first_tree = rng.choice(TREES)
    fixed = rng.choice([x for x in COMBOS if x[0] == first_tree]) if rng.random() < 0.5 else None
    for i in range(L):
        # mostly stay on one tree type so that the cache is exercised; sometimes interleave
        tree = first_tree if (fixed or rng.random() < 0.75) else rng.choice(TREES)
        cands = [x for x in COMBOS if x[0] == tree]
        _, system, mcode = fixed if fixed else rng.choice(cands)
        reqs.append({"tree": tree, "kind": rng.choice(KINDS), "system": system, "mcode": mcode,
                     "metric": rng.choice(METRIC_NAMES[mcode][:2]), "reconstruct": rng.random() < 0.2})
    z = rng.uniform(-0.95, 0.95)
    return {"type": "history", "grid": gs, "requests": reqs,
            "probe": [rng.uniform(-179, 179), math.degrees(math.asin(z))]}


def all_histories_len2(gs, probe):
    """every ordered pair of differently parameterised requests on one tree type (reconstruct=False)"""
    out = []
    for tree in TREES:
        cs = [x for x in COMBOS if x[0] == tree]
        for (_, s1, m1) in cs:
            for (_, s2, m2) in cs:
                for k1 in KINDS:
                    for k2 in KINDS:
                        out.append({"type": "history", "grid": gs, "probe": probe, "requests": [
                            {"tree": tree, "kind": k1, "system": s1, "mcode": m1, "metric": METRIC_NAMES[m1][0], "reconstruct": False},
                            {"tree": tree, "kind": k2, "system": s2, "mcode": m2, "metric": METRIC_NAMES[m2][0], "reconstruct": False}]})
    return out


# ------------------------------------------------------------------------------------------------
# model side (exact integers)

def exp_needed(x):
    if x == 0:
        return 0
    return float(x).as_integer_ratio()[1].bit_length() - 1


def scaled(x, S):
    n, d = float(x).as_integer_ratio()
    return n * ((1 << S) // d)


def case_scale(gd, c):
    vals = [v for kind in KINDS for a in gd.f[kind] for v in a] + [v for q in c["queries"] for v in q]
    if c.get("r") is not None:
        vals.append(c["r"])
        vals.append(PI_F)
    return max(exp_needed(v) for v in vals)


def model_grid_sx(gd, S):
    return [[[scaled(v, S) for v in a] for a in gd.f[kind]] for kind in KINDS]


def key_to_dist(key, mcode, unit_exp):
    """model key (integer) -> distance in tree units as mp"""
    if mcode in (2, 3):
        return mp.mpf(key) / mp.mpf(2) ** unit_exp
    return mp.sqrt(mp.mpf(key)) / mp.mpf(2) ** unit_exp


def embed(points, unit_exp):
    """unit vectors (scaled by 2^EMB, rounded) of model points [lat, lon] given in tree units"""
    out = []
    for a, b in points:
        la = mp.mpf(a) / mp.mpf(2) ** unit_exp
        lo = mp.mpf(b) / mp.mpf(2) ** unit_exp
        out.append([int(mp.nint(v * mp.mpf(2) ** EMB)) for v in unit_vec(la, lo)])
    return out


class ModelRunner:
    """batches the driver calls: phase 1 (full query for non-haversine / coords+prepare for haversine),
    phase 2 (knn/within on embedded unit vectors for haversine)"""

    def __init__(self, ck):
        self.ck = ck

    def run(self, items):
        """items: list of (case, gd, S); returns list of dict or None per item:
        {'ok': bool, 'rows': [[(dist_mp, idx)...] per query]}"""
        ck = self.ck
        res = [None] * len(items)
        batches = {}

        def add(cmd, idx, line):
            batches.setdefault(cmd, []).append((idx, line))
        for i, (c, gd, S) in enumerate(items):
            kd, sy = KINDS.index(c["kind"]), SYSTEMS.index(c["system"])
            tr = TREES.index(c["tree"])
            g = model_grid_sx(gd, S)
            q = [[scaled(v, S) for v in qq] for qq in c["queries"]]
            if c["mcode"] != 0:
                if c["type"] == "knn":
                    add("query", i, sx([NUM, TEXP, g, kd, sy, c["mcode"], q, c["in_radians"], c["k"]]))
                else:
                    add("query_radius", i, sx([NUM, TEXP, scaled(PI_F, S) << TEXP, tr, g, kd, sy, c["mcode"], q, c["in_radians"], scaled(c["r"], S)]))
            else:
                add("coords", i, sx([NUM, g, kd, sy]))
                add("prepare", i, sx([NUM, TEXP, sy, 0, q, c["in_radians"]]))
                if c["type"] == "radius":
                    add("rkey", i, sx([NUM, TEXP, scaled(PI_F, S) << TEXP, tr, sy, 0, scaled(c["r"], S)]))
        out = {}
        for cmd, lst in batches.items():
            r = ck.run_model(cmd, [l for _, l in lst])
            for (idx, _), v in zip(lst, r):
                out[(cmd, idx)] = v
        phase2 = {}
        for i, (c, gd, S) in enumerate(items):
            unit_exp = S + TEXP if c["system"] == "spherical" else S
            if c["mcode"] != 0:
                v = out.get(("query" if c["type"] == "knn" else "query_radius", i))
                if v is None or v[0] != 1:
                    res[i] = {"ok": False, "raw": v}
                    continue
                res[i] = {"ok": True, "rows": [[(key_to_dist(kk, c["mcode"], unit_exp), j) for kk, j in row] for row in v[1]],
                          "out_deg": bool(v[-1])}
                if c["type"] == "knn":
                    res[i]["shape"] = v[2]
                continue
            co, pr = out.get(("coords", i)), out.get(("prepare", i))
            if co is None or pr is None or pr[0] != 1:
                res[i] = {"ok": False, "raw": pr}
                continue
            te, qe = embed(co, unit_exp), embed(pr[1], unit_exp)
            if c["type"] == "knn":
                n = len(co)
                if not (1 <= c["k"] <= n):
                    res[i] = {"ok": False, "raw": "k"}
                    continue
                phase2.setdefault("knn", []).append((i, sx([0, te, qe, c["k"]])))
            else:
                ru = out[("rkey", i)][0]
                rr = mp.mpf(ru) / mp.mpf(2) ** unit_exp
                if rr < 0:
                    res[i] = {"ok": False, "raw": "r"}
                    continue
                if rr >= mp.mpf(PI_F):
                    rk = 5 << (2 * EMB)          # clamped at the half turn: every chord (<= 2) qualifies
                else:
                    chord = 2 * mp.sin(rr / 2)
                    rk = int(mp.floor(chord * chord * mp.mpf(2) ** (2 * EMB)))
                phase2.setdefault("within", []).append((i, sx([0, te, qe, rk])))
        for cmd, lst in phase2.items():
            r = ck.run_model(cmd, [l for _, l in lst])
            for (idx, _), v in zip(lst, r):
                c = items[idx][0]
                rows = []
                for row in v:
                    rr = []
                    for kk, j in row:
                        ch = mp.sqrt(mp.mpf(kk)) / mp.mpf(2) ** EMB
                        h = ch / 2
                        rr.append((2 * mp.asin(h if h < 1 else mp.mpf(1)), j))
                    rows.append(rr)
                res[idx] = {"ok": True, "rows": rows, "out_deg": c["system"] == "spherical" and not c["in_radians"]}
        return res


def compare_model(gd, c, impl, mo):
    """canonical comparison of implementation answer and model answer; returns None or a description"""
    if mo is None:
        return None
    if impl.get("error"):
        return None if not mo["ok"] else "implementation raised %s, model answers" % impl["error"]
    if not mo["ok"]:
        return "model takes the error branch (%s), implementation answered" % (mo.get("raw"),)
    mcode = c["mcode"]
    fac = out_factor(c["system"], c["in_radians"])
    if mo["out_deg"] != (c["system"] == "spherical" and not c["in_radians"]):
        return "unit flag differs"
    nq = len(c["queries"])
    if c["type"] == "knn":
        k = c["k"]
        if c["return_distance"]:
            d, ind = impl["res"]
            d = np.asarray(d, dtype=float).reshape(nq, k)
        else:
            d, ind = None, impl["res"]
        ind = np.asarray(ind).reshape(nq, k)
        for qi in range(nq):
            D = oracle_dists(gd, c["kind"], c["system"], mcode, c["queries"][qi], c["in_radians"])
            mrow = mo["rows"][qi]
            if len(mrow) != k:
                return "model row length %d vs k=%d" % (len(mrow), k)
            for j in range(k):
                mi, ii = mrow[j][1], int(ind[qi][j])
                # exact / near ties collapsed: same index or indistinguishable distance
                if mi != ii and abs(D[mi] - D[ii]) > 2 * tol(D[mi], mcode):
                    return "query %d pos %d: model index %d, implementation %d" % (qi, j, mi, ii)
                if d is not None and abs(mrow[j][0] * fac - mp.mpf(float(d[qi][j]))) > 2 * tol(mrow[j][0], mcode) * fac:
                    return "query %d pos %d: model distance %s, implementation %r" % (qi, j, mp.nstr(mrow[j][0] * fac, 15), float(d[qi][j]))
        return None
    if c.get("count_only"):
        cnt = np.asarray(impl["res"]).reshape(-1)
        r = radius_tree_units(c)
        for qi in range(nq):
            D = oracle_dists(gd, c["kind"], c["system"], mcode, c["queries"][qi], c["in_radians"])
            edge = sum(1 for v in D if abs(v - r) <= 2 * tol(v, mcode))
            if abs(int(cnt[qi]) - len(mo["rows"][qi])) > edge:
                return "query %d: model count %d, implementation %d" % (qi, len(mo["rows"][qi]), int(cnt[qi]))
        return None
    if c["return_distance"]:
        ds, inds = impl["res"]
    else:
        ds, inds = None, impl["res"]
    if nq == 1:
        inds = [inds]
        ds = [ds] if ds is not None else None
    r = radius_tree_units(c)
    for qi in range(nq):
        D = oracle_dists(gd, c["kind"], c["system"], mcode, c["queries"][qi], c["in_radians"])
        si = set(int(v) for v in np.asarray(inds[qi]).reshape(-1))
        sm = set(j for _, j in mo["rows"][qi])
        # elements exactly on the boundary (within the distance tolerance of r) are not compared
        odd = [v for v in si ^ sm if abs(D[v] - r) > 2 * tol(D[v], mcode)]
        if odd:
            return "query %d: model set %s, implementation %s" % (qi, sorted(sm), sorted(si))
        if ds is not None:
            md = {j: dd for dd, j in mo["rows"][qi]}
            for v, dv in zip(np.asarray(inds[qi]).reshape(-1), np.asarray(ds[qi], dtype=float).reshape(-1)):
                if int(v) in md and abs(md[int(v)] * fac - mp.mpf(float(dv))) > 2 * tol(md[int(v)], mcode) * fac:
                    return "query %d element %d: model distance %s, implementation %r" % (qi, int(v), mp.nstr(md[int(v)] * fac, 15), float(dv))
    return None


# ------------------------------------------------------------------------------------------------
# running cases

def slim(c):
    """JSON-able copy of a case for replay files"""
    return json.loads(json.dumps(c, default=float))


def info_query(c):
    info = {"site": "%s.%s" % ("BallTree" if c["tree"] == "ball" else "KDTree", "query" if c["type"] == "knn" else "query_radius"),
            "system": c["system"], "mcode": c["mcode"], "kind": c["kind"], "acquire": c["acquire"],
            "in_radians": c["in_radians"], "single": len(c["queries"]) == 1}
    if c["type"] == "radius":
        info["great_circle_radius_beyond_half_turn"] = bool(c["mcode"] == 0 and radius_tree_units(c) > PI)
    return info


def run_query_case(ck, c, g, gd, rng=None):
    """runs one knn/radius case on the implementation; reports property failures; returns impl record"""
    arr = q_arg(c)
    saved = arr.copy() if isinstance(arr, np.ndarray) else None
    try:
        t = acquire(c["grid"], g, c)
        res = impl_knn(t, c, arr) if c["type"] == "knn" else impl_radius(t, c, arr)
    except Exception as ex:
        ck.fail("raises", slim(c), dict(info_query(c), exception=type(ex).__name__), detail=repr(ex))
        return {"error": repr(ex)[:200]}
    bad = check_knn(gd, c, res) if c["type"] == "knn" else check_radius(gd, c, res)
    if bad:
        ck.fail(bad[0], slim(c), info_query(c), detail=bad[1])
    if saved is not None:
        info2 = dict(info_query(c), call="same array handed in again", container="float64 ndarray kept by the caller")
        if not unchanged(arr, saved):
            ck.fail("query_argument_modified", slim(c), info2,
                    detail="the caller's array changed during the call: %s -> %s" % (saved.reshape(-1)[:4].tolist(), arr.reshape(-1)[:4].tolist()))
        # the same array again: same tree with another k / the same radius, and (Cartesian) the other tree type
        try:
            n = gd.n[c["kind"]]
            c2 = dict(c)
            if c["type"] == "knn":
                c2["k"] = n if c["k"] != n else 1
                c2["return_distance"] = True
                res2 = impl_knn(t, c2, arr)
                bad2 = check_knn(gd, c2, res2)
            else:
                res2 = impl_radius(t, c2, arr)
                bad2 = check_radius(gd, c2, res2)
            if bad2 and not bad:
                ck.fail(bad2[0], slim(c), info2, detail="second call with the same array: " + bad2[1])
            if c["system"] == "cartesian" and c["mcode"] == 1 and not bad:
                other = "kd" if c["tree"] == "ball" else "ball"
                t3 = get_tree(mk_grid(c["grid"]), other, c["kind"], "cartesian", "minkowski")
                c3 = dict(c, tree=other, type="knn", k=min(2, n), return_distance=True)
                bad3 = check_knn(gd, c3, impl_knn(t3, c3, arr))
                if bad3:
                    ck.fail(bad3[0], slim(c), dict(info2, call="same array handed to the other tree type"), detail=bad3[1])
            if not unchanged(arr, saved):
                ck.fail("query_argument_modified", slim(c), info2, detail="the caller's array changed during a repeated call")
        except Exception as ex:
            ck.fail("raises", slim(c), dict(info2, exception=type(ex).__name__), detail="repeated call: %r" % (ex,))
    return {"res": res, "bad": bad}


def creators(reqs):
    """per request: index of the request whose parameters the cached object of that tree type carries
    if only `reconstruct`/first use create objects (the unchanged source)"""
    cur = {}
    out = []
    for i, r in enumerate(reqs):
        if r["tree"] not in cur or r["reconstruct"]:
            cur[r["tree"]] = i
        out.append(cur[r["tree"]])
    return out


def run_history_case(ck, c, gd, model_trace=None, stats=None):
    g = mk_grid(c["grid"])
    cand_cache = {}
    bufs = {}
    cr = creators(c["requests"])
    observed = []
    for i, r in enumerate(c["requests"]):
        want = [r["kind"], r["system"], r["mcode"]]
        try:
            t = get_tree(g, r["tree"], r["kind"], r["system"], r["metric"], r["reconstruct"])
            matches, note = observe_tree(gd, t, r["tree"], c["probe"], cand_cache)
        except Exception as ex:
            ck.fail("raises", slim(c), {"site": "get_%s_tree" % r["tree"], "request": i, "exception": type(ex).__name__},
                    detail=repr(ex))
            observed.append(None)
            continue
        observed.append(matches)
        if want in matches:
            # the handed-back tree must answer like brute force on the REQUESTED kind for every
            # admissible k (1, 2, n) and for a radius query
            deep_check(ck, c, i, r, t, gd, bufs)
        if want not in matches:
            creator = c["requests"][cr[i]]
            stale = [r["kind"], creator["system"], creator["mcode"]]
            info = {"site": "get_%s_tree" % r["tree"], "reconstruct": bool(r["reconstruct"]),
                    "kind_matches": any(m[0] == r["kind"] for m in matches),
                    "answers_with_first_requests_system_and_metric": stale in matches and cr[i] != i,
                    "differs_in": "+".join(x for x, a, b in (("system", r["system"], creator["system"]),
                                                              ("metric", r["mcode"], creator["mcode"])) if a != b)}
            ck.fail("cache_reflects_request", dict(slim(c), failing_request=i), info,
                    detail="request %d %s: tree handed back behaves as %s" % (i, want, matches or note))
            if stats is not None:
                stats["stale"] = stats.get("stale", 0) + 1
        if model_trace is not None:
            mk, ms, mm, _mid = model_trace[i]
            mt = [KINDS[mk], SYSTEMS[ms] if ms >= 0 else None, mm]
            if mt not in matches:
                ck.corr_failures.append({"case": slim(c), "request": i, "model": mt, "impl_behaves_as": matches})
    return observed


def deep_check(ck, c, i, r, t, gd, bufs=None):
    nk = gd.n[r["kind"]]
    pos = (c["probe"][0], c["probe"][1])
    rad = r["system"] == "spherical" and (i % 2 == 1)
    q = user_query(r["system"], r["mcode"], pos, rad)
    # one float64 array per query format, kept over the whole history and handed to every tree
    bufs = {} if bufs is None else bufs
    bkey = (r["system"], r["mcode"] == 0, rad)
    if bkey not in bufs:
        bufs[bkey] = (np.ascontiguousarray(np.array(q, dtype=np.float64)), np.array(q, dtype=np.float64))
    qa, qsaved = bufs[bkey]
    base = {"tree": r["tree"], "kind": r["kind"], "system": r["system"], "mcode": r["mcode"], "metric": r["metric"],
            "in_radians": rad, "queries": [q], "positions": [list(pos)], "single_flat": True, "acquire": "history"}
    hist = [[x["tree"], x["kind"], x["system"], x["mcode"], x["reconstruct"]] for x in c["requests"][:i + 1]]
    for k in sorted({1, min(2, nk), nk}):
        qc = dict(base, type="knn", k=k, return_distance=True)
        info = dict(info_query(qc), site="get_%s_tree/history/query" % r["tree"], k_class="k=n" if k == nk else "k<n",
                    history_length=i + 1)
        try:
            res = t.query(qa, k=k, in_radians=rad, return_distance=True)
        except Exception as ex:
            ck.fail("raises", dict(slim(c), failing_request=i, k=k), dict(info, exception=type(ex).__name__),
                    detail="after requests %s: query(k=%d of n=%d) raised %r" % (hist, k, nk, ex))
            continue
        if not unchanged(qa, qsaved):
            ck.fail("query_argument_modified", dict(slim(c), failing_request=i, k=k), info,
                    detail="the caller's float64 array %s became %s" % (qsaved.tolist(), qa.tolist()))
            qa[...] = qsaved
        bad = check_knn(gd, qc, res)
        if bad:
            ck.fail(bad[0], dict(slim(c), failing_request=i, k=k), info, detail="after requests %s: %s" % (hist, bad[1]))
    # radius query: between two consecutive true distances of the requested kind
    D = sorted(oracle_dists(gd, r["kind"], r["system"], r["mcode"], q, rad))
    j = len(D) // 2
    hi = D[j + 1] if j + 1 < len(D) else D[j] + mp.mpf("0.05")
    if hi - D[j] > mp.mpf("1e-5"):
        rt = (D[j] + hi) / 2
        rr = float(mp.degrees(rt)) if (r["system"] == "spherical" and r["tree"] == "ball") else float(rt)
        qc = dict(base, type="radius", r=rr, return_distance=True, count_only=False)
        info = dict(info_query(qc), site="get_%s_tree/history/query_radius" % r["tree"], history_length=i + 1)
        try:
            res = t.query_radius(qa, r=rr, in_radians=rad, return_distance=True)
            if not unchanged(qa, qsaved):
                ck.fail("query_argument_modified", dict(slim(c), failing_request=i), info,
                        detail="query_radius: the caller's float64 array %s became %s" % (qsaved.tolist(), qa.tolist()))
                qa[...] = qsaved
            bad = check_radius(gd, qc, res)
            if bad:
                ck.fail(bad[0], dict(slim(c), failing_request=i), info, detail="after requests %s: %s" % (hist, bad[1]))
        except Exception as ex:
            ck.fail("raises", dict(slim(c), failing_request=i), dict(info, exception=type(ex).__name__),
                    detail="after requests %s: query_radius raised %r" % (hist, ex))


def return_trips(gs, probe):
    """for every (tree, system, metric) of the property: kind histories X -> Y -> X and X -> Y -> Z -> X
    (the wrapper object is reused and switched back to a sub-tree it already holds)"""
    import itertools
    out = []
    for (tree, system, mcode) in COMBOS:
        seqs = [[x, y, x] for x in KINDS for y in KINDS if x != y] + [list(p) + [p[0]] for p in itertools.permutations(KINDS)]
        for seq in seqs:
            out.append({"type": "history", "grid": gs, "probe": probe, "requests": [
                {"tree": tree, "kind": kd, "system": system, "mcode": mcode, "metric": METRIC_NAMES[mcode][0], "reconstruct": False}
                for kd in seq]})
    return out


# ------------------------------------------------------------------------------------------------
# a second grid object derived from the first (copy / isel / dual) while trees already exist on the first

def apply_coord_mutation(g, m):
    import xarray as xr
    if m["op"] in ("welzl", "cartesian average"):
        g.construct_face_centers(method=m["op"])
        return
    p = KIND_PREFIX[m["kind"]]
    for cname in (("lon", "lat") if m["op"] == "shift_lonlat" else ("x", "y", "z")):
        old = getattr(g, "%s_%s" % (p, cname))
        setattr(g, "%s_%s" % (p, cname), xr.DataArray(np.roll(np.asarray(old.values, dtype=float), int(m["by"])),
                                                      dims=old.dims, attrs=dict(old.attrs)))


def derive_grid(g, c):
    if c["derive"] == "copy":
        return g.copy()
    if c["derive"] == "isel":
        return g.isel(n_face=list(c["isel_faces"]))
    return g.get_dual()


def gen_derived_case(rng, gs, n_face):
    def req(tree, kinds=KINDS):
        _, system, mcode = rng.choice([x for x in COMBOS if x[0] == tree])
        return {"tree": tree, "kind": rng.choice(kinds), "system": system, "mcode": mcode,
                "metric": METRIC_NAMES[mcode][0], "reconstruct": False}
    tree = rng.choice(TREES)
    before = [req(tree) for _ in range(rng.randrange(1, 3))]
    if rng.random() < 0.4:
        before.append(req("kd" if tree == "ball" else "ball"))
    derive = rng.choice(["copy", "copy", "isel", "dual"]) if n_face >= 2 else "copy"
    c = {"type": "derived", "grid": gs, "derive": derive, "before": before}
    if derive == "isel":
        c["isel_faces"] = sorted(rng.sample(range(n_face), rng.randrange(1, n_face)))
    last = [r for r in before if r["tree"] == tree][-1]
    # on the derived grid: same (system, metric) as the tree the original holds, another kind; then anything
    on = [dict(last, kind=rng.choice([k for k in KINDS if k != last["kind"]]))]
    if rng.random() < 0.6:
        on.append(req(rng.choice(TREES)))
    c["on_derived"] = on
    mut = []
    if rng.random() < 0.6:
        kd = on[0]["kind"]
        if kd == "face centers" and rng.random() < 0.5:
            mut.append({"op": "welzl"})
        else:
            mut.append({"op": "shift_lonlat" if on[0]["system"] == "spherical" else "shift_xyz", "kind": kd, "by": 1})
    c["mut"] = mut
    c["after_on_original"] = [dict(last, kind=rng.choice(KINDS))] if rng.random() < 0.5 else []
    z = rng.uniform(-0.9, 0.9)
    c["probe"] = [rng.uniform(-179, 179), math.degrees(math.asin(z))]
    return c


def run_derived_case(ck, c, stats=None):
    g = mk_grid(c["grid"])
    gd = GridData(g)
    caches = {"g": {}, "d": {}}
    bufs = {}
    handles = {"g": {}, "d": {}}

    def request(which, grid, gdat, r, i, clause):
        want = [r["kind"], r["system"], r["mcode"]]
        info = {"site": "get_%s_tree" % r["tree"], "grid": "original" if which == "g" else "derived:" + c["derive"],
                "derived_coordinates_changed": bool(c["mut"]), "reconstruct": False}
        try:
            t = get_tree(grid, r["tree"], r["kind"], r["system"], r["metric"], False)
            matches, note = observe_tree(gdat, t, r["tree"], c["probe"], caches[which])
        except Exception as ex:
            ck.fail("raises", slim(c), dict(info, exception=type(ex).__name__), detail=repr(ex))
            return
        handles[which][r["tree"]] = (t, r)
        if want not in matches:
            ck.fail(clause, slim(c), info, detail="request %s on the %s grid: tree handed back behaves as %s (against that grid's own current coordinates)"
                    % (want, info["grid"], matches or note))
        else:
            hc = {"probe": c["probe"], "requests": [r], "grid": c["grid"], "derived_case": {k: c[k] for k in ("derive", "before", "on_derived", "mut")}}
            deep_check(ck, hc, 0, r, t, gdat, bufs)

    def recheck(which, gdat, clause, why):
        for tree, (t, r) in handles[which].items():
            want = [r["kind"], r["system"], r["mcode"]]
            try:
                matches, note = observe_tree(gdat, t, tree, c["probe"], caches[which])
            except Exception as ex:
                matches, note = [], repr(ex)
            if want not in matches:
                ck.fail(clause, slim(c), {"site": "get_%s_tree" % tree, "derive": c["derive"]},
                        detail="%s: the handle obtained for %s now behaves as %s" % (why, want, matches or note))

    for i, r in enumerate(c["before"]):
        request("g", g, gd, r, i, "cache_reflects_request")
    try:
        g2 = derive_grid(g, c)
        GridData(g2)                          # derived coordinates exist before the mutators replace stored values
    except Exception:
        # building the derived grid itself is C09/C18's business (e.g. the dual of a partial grid without a
        # single dual face); nothing to ask about trees then
        if stats is not None:
            stats["derive_failed"] = stats.get("derive_failed", 0) + 1
        return
    for m in c["mut"]:
        apply_coord_mutation(g2, m)
    gd2 = GridData(g2)                        # the derived grid's CURRENT coordinates
    if any(not math.isfinite(v) for kind in KINDS for a in gd2.f[kind] for v in a):
        return
    for i, r in enumerate(c["on_derived"]):
        request("d", g2, gd2, r, i, "derived_grid_tree_reflects_request")
        recheck("g", gd, "request_on_derived_grid_changes_original_handle", "after request %s on the derived grid" % [r["tree"], r["kind"]])
    for i, r in enumerate(c["after_on_original"]):
        held = dict(handles["g"])
        request("g", g, gd, r, i, "cache_reflects_request")
        recheck("d", gd2, "request_on_original_grid_changes_derived_handle", "after request %s on the original grid" % [r["tree"], r["kind"]])
        handles["g"] = dict(held, **{r["tree"]: handles["g"][r["tree"]]}) if r["tree"] in handles["g"] else held


def history_line(c):
    return sx([[TREES.index(r["tree"]), KINDS.index(r["kind"]), SYSTEMS.index(r["system"]), r["mcode"], bool(r["reconstruct"])]
               for r in c["requests"]])


def main(ck):
    ck.check_props()
    ok = ck.build_driver()
    rng = ck.rng
    quick = ck.tier == "quick"
    specs = gen_grid_specs(ck)
    ck.cov["rule"] = (
        "grids: single triangle, quad across +-180, polar cap with a node on the pole, tetrahedron (n_node=n_face), cube, "
        "prism + sphere tilings grown from 9 polyhedra (split/subdivide/stellate/dual, partial by face deletion, renumbered, "
        "rotated; a fifth with a node exactly on a pole).  Query cases: every (tree, system, metric) of the property x element "
        "kind, tree obtained from a fresh grid / reconstruct=True / through the coordinates setter; single (flat and 2-D) and "
        "batched queries in degrees or radians at generic positions, on elements, at the poles, within 0..3 deg of +-180 on both "
        "sides, longitudes beyond +-180; k in {1, 2, n, random}; radii 0, between consecutive true distances, up to beyond the "
        "diameter (margin 1e-6).  Histories: 1..3 requests over tree x kind x system x metric x reconstruct and (thorough: all, "
        "quick: a sample of) ordered pairs of requests on one tree type; each tree handed back is identified behaviourally and then queried with k = 1, 2, n of the requested kind and a radius, against brute force on the requested kind.  "
        "Every query container is (75%) a float64 C-contiguous ndarray kept by the harness: compared bit for bit with a saved copy after the call and handed in again (same tree other k / same radius; other tree type for Cartesian), one array per query format is reused over a whole history.  Derived grids: trees requested on g, then g.copy() / g.isel(n_face=...) / g.get_dual(), optional change of the derived grid's coordinates (construct_face_centers('welzl'), coordinate setters), requests on the derived grid checked against ITS current coordinates, handles of each grid re-identified after requests on the other.  "
        "non-trivial = tree with >= 2 elements; distinct = distinct (grid, request, queries)")
    mr = ModelRunner(ck)
    per_grid = 10 if quick else 21
    hist = {"knn": 0, "radius": 0, "history": 0}
    combos_seen, acq_seen, k_classes, pos_classes = {}, {}, {}, {}
    derived_kinds = {}
    stats = {}
    model_skipped = 0
    cfg = ck.run_model("cfg", ["()"])[0] if ok else None
    n_corpus = 0
    cdir = os.path.join(common.VERIF, "corpus", "C11")
    if os.path.isdir(cdir):
        for fn in sorted(os.listdir(cdir)):
            if fn.endswith(".json"):
                c = json.load(open(os.path.join(cdir, fn)))["case"]
                g = mk_grid(c["grid"])
                gd = GridData(g)
                ck.note_case(("corpus", fn), True)
                if c.get("type") == "history":
                    tr = ck.run_model("trace", [history_line(c)])[0] if ok else None
                    run_history_case(ck, c, gd, tr, stats)
                else:
                    run_query_case(ck, c, g, gd)
                n_corpus += 1
    n_hist_total = 0
    for gi, gs in enumerate(specs):
        g = mk_grid(gs)
        gd = GridData(g)
        cases = gen_query_cases(ck, gs, gd, per_grid)
        for c in cases:
            if c["type"] == "radius":
                c["r"] = choose_radius(rng, gd, c)
        items = []
        impls = []
        for c in cases:
            nontrivial = gd.n[c["kind"]] >= 2
            ck.note_case((gs["name"], gi, c["type"], c["tree"], c["kind"], c["system"], c["mcode"], c["queries"], c.get("k"), c.get("r")), nontrivial)
            hist[c["type"]] += 1
            combos_seen["%s/%s/%d" % (c["tree"], c["system"], c["mcode"])] = combos_seen.get("%s/%s/%d" % (c["tree"], c["system"], c["mcode"]), 0) + 1
            acq_seen[c["acquire"]] = acq_seen.get(c["acquire"], 0) + 1
            if c["type"] == "knn":
                kc = "k=1" if c["k"] == 1 else ("k=n" if c["k"] == gd.n[c["kind"]] else "1<k<n")
                k_classes[kc] = k_classes.get(kc, 0) + 1
            for (lo, la) in c["positions"]:
                pc = "pole" if abs(la) == 90 else ("antimeridian" if 177 <= abs(lo) <= 180 else ("beyond180" if abs(lo) > 180 else "other"))
                pos_classes[pc] = pos_classes.get(pc, 0) + 1
            impl = run_query_case(ck, c, g, gd)
            impls.append(impl)
            S = case_scale(gd, c)
            if ok and S <= 200:
                items.append((c, gd, S))
            else:
                model_skipped += 1
        if ok and items:
            mres = mr.run(items)
            by_id = {id(it[0]): m for it, m in zip(items, mres)}
            for c, impl in zip(cases, impls):
                if impl.get("bad"):
                    continue            # already reported as a property failure on the implementation
                diff = compare_model(gd, c, impl, by_id.get(id(c)))
                if diff:
                    ck.corr_failures.append({"case": slim(c), "diff": diff})
        if gi < 2:
            c = cases[0]
            ck.sample({"grid": gs["name"], "n_node": gd.n["nodes"], "n_edge": gd.n["edge centers"], "n_face": gd.n["face centers"],
                       "request": [c["tree"], c["kind"], c["system"], c["metric"]], "queries": c["queries"][:2],
                       "k": c.get("k"), "impl": str(impls[0].get("res"))[:200]})
        # histories on this grid
        hs = []
        z = rng.uniform(-0.9, 0.9)
        probe = [rng.uniform(-179, 179), math.degrees(math.asin(z))]
        if gi == 5 or (not quick and gi % 15 == 0):
            allp = all_histories_len2(gs, probe)
            hs += allp if not quick else rng.sample(allp, 250)
        if gi in (4, 8) or (not quick and gi % 12 == 0):
            hs += return_trips(gs, probe)
        for _ in range(8 if quick else 20):
            hs.append(gen_history(rng, gs, 4))
        for _ in range(4 if quick else 8):
            dc = gen_derived_case(rng, gs, gd.n["face centers"])
            ck.note_case((gs["name"], gi, "derived", dc["derive"], json.dumps(dc["before"]), json.dumps(dc["on_derived"]), json.dumps(dc["mut"])), True)
            hist["derived"] = hist.get("derived", 0) + 1
            derived_kinds[dc["derive"]] = derived_kinds.get(dc["derive"], 0) + 1
            try:
                run_derived_case(ck, dc, stats)
            except Exception as ex:
                ck.fail("raises", slim(dc), {"site": "derived-grid history", "derive": dc["derive"], "exception": type(ex).__name__}, detail=repr(ex))
            if gi == 6 and len(ck.cov["samples"]) < 4:
                ck.sample({"derived_grid_history": {k: dc[k] for k in ("before", "derive", "mut", "on_derived", "after_on_original")}})
        traces = ck.run_model("trace", [history_line(h) for h in hs]) if ok else [None] * len(hs)
        for h, tr in zip(hs, traces):
            ck.note_case((gs["name"], gi, "history", [(r["tree"], r["kind"], r["system"], r["mcode"], r["reconstruct"]) for r in h["requests"]]), True)
            hist["history"] += 1
            run_history_case(ck, h, gd, tr, stats)
            n_hist_total += 1
        if gi == 2 and hs:
            ck.sample({"history": [[r["tree"], r["kind"], r["system"], r["metric"], r["reconstruct"]] for r in hs[-1]["requests"]],
                       "model_trace": traces[-1]})
    # extraction audit in the kernel: traces and brute force on small inputs
    audit_n = 0
    if ok:
        audit_n = audit(ck, rng)
    ck.extra.update({
        "case_kinds": hist, "derived_grid_kinds": derived_kinds, "derived_grid_not_constructible": stats.get("derive_failed", 0), "grids": len(specs), "corpus_cases": n_corpus, "combinations": combos_seen, "tree_acquisition": acq_seen,
        "k_classes": k_classes, "query_position_classes": pos_classes, "model_cases_skipped_scale": model_skipped,
        "cache_keys_regenerated_from_source": {"ball": cfg[0], "kd": cfg[1], "format": "[rebuild_on_kind, rebuild_on_system, rebuild_on_metric, switch_kind, complete]"} if cfg else None,
        "stale_tree_answers": stats.get("stale", 0),
        "extraction_audit_cases": audit_n,
        "tolerances": {"distance": "abs 1e-9*max(1,d) in tree units (rad / coordinate unit); haversine within 1e-3 rad of the antipode: 1e-7",
                       "radius_margin": "generated radii keep 1e-6 relative distance from every true distance; r=0 used as is"},
        "clauses_checked_on_impl": ["knn_shape", "knn_indices", "knn_nearest", "knn_order", "knn_distance_unit", "radius_shape",
                                    "radius_indices", "radius_set", "radius_count", "radius_distance_unit", "query_argument_modified",
                                    "derived_grid_tree_reflects_request", "request_on_derived_grid_changes_original_handle",
                                    "request_on_original_grid_changes_derived_handle",
                                    "cache_reflects_request", "raises"],
        "partial": "sklearn's trees are assumed to equal brute force (validated here on every query; great-circle radii are clamped at pi by the wrapper because sklearn's reduced haversine distance is not monotone beyond it); float rounding is bounded "
                   "empirically by the stated tolerances; the haversine ordering enters the model through unit vectors computed "
                   "outside Coq (justified by C11_haversine_chord and C11_chord_arc)"})
    ck.trusted += ["sklearn.neighbors.BallTree/KDTree modelled as brute force (nearest first, ties aside)",
                   "mpmath (30 digits) for the oracle's trigonometry and for the unit-vector embedding given to the model",
                   "harness/translators/c11_keys.py (fail-closed ast translator of the compared cache keys)"]
    ck.assumptions += ["radius unit: BallTree on spherical coordinates reads r in degrees (docstring) whatever in_radians is; KDTree reads r in "
                       "the tree's own unit (DESIGN Appendix E)",
                       "element positions are the coordinates the grid itself reports for the requested system (C04 owns their consistency)"]


def audit(ck, rng):
    lines = []
    exp = []
    for _ in range(12):
        keys = [rng.randrange(0, 6) for _ in range(rng.randrange(1, 7))]
        k = rng.randrange(0, len(keys) + 2)
        lines.append("Eval vm_compute in (c11_knn [%s]%%Z %d%%nat)." % (";".join(map(str, keys)), k))
        exp.append(("knn", keys, k))
    rc, out = ck.audit_vm(lines, "From Verif Require Import Base C11.\nOpen Scope Z_scope.")
    if rc != 0:
        ck.proof["errors"].append("in-kernel audit failed: " + out[-800:])
        return 0
    blocks = re.split(r"(?m)^\s*= ", out)[1:]
    n = 0
    for b, (_, keys, k) in zip(blocks, exp):
        body = b.split("\n     :")[0]
        nums = [int(x) for x in re.findall(r"-?\d+", body.replace("%nat", "").replace("%Z", ""))]
        tree = [[kk] for kk in keys]
        mo = ck.run_model("knn", [sx([2, tree, [[0]], k])])[0]
        flat = [v for row in mo for pr in row for v in pr]
        if nums != flat:
            ck.proof["errors"].append("extraction audit mismatch: kernel %s vs extracted %s" % (nums, flat))
        n += 1
    return n


def replay(ck, rp):
    c = rp["case"]
    g = mk_grid(c["grid"])
    gd = GridData(g)
    ck.note_case("replay")
    if c.get("type") == "derived":
        run_derived_case(ck, c)
    elif c.get("type") == "history" or c.get("derived_case"):
        if c.get("derived_case"):
            dc = dict(c["derived_case"], type="derived", grid=c["grid"], probe=c["probe"], after_on_original=[])
            run_derived_case(ck, dc)
        else:
            run_history_case(ck, c, gd)
    else:
        run_query_case(ck, c, g, gd)
