"""C03 — incidence tables are exact transposes of one another.

Proof: coq/Props/C03_props.v about coq/Model/C03.v (loop-order models of the four builders).
Tie: real Grid properties + builders on generated manifold grids vs the extracted model; the
property clauses (weakest reading, DESIGN appendix E) are evaluated on the implementation output.
"""
import json
import os

import numpy as np

import c02
import common
import meshgen
from common import FILL, sx


def mesh_facts(table):
    rows = [[x for x in r if x != FILL] for r in table]
    edge_faces = {}
    for f, c in enumerate(rows):
        for j in range(len(c)):
            a, b = c[j], c[(j + 1) % len(c)]
            edge_faces.setdefault((min(a, b), max(a, b)), []).append(f)
    return rows, edge_faces


def manifold(table):
    rows, ef = mesh_facts(table)
    return all(len(v) <= 2 for v in ef.values()) and all(len(set(c)) == len(c) for c in rows)


def spec_check(table, n_node, out):
    """out: dict with edge_node, node_face, edge_face, face_face, holes (lists) and dtypes"""
    rows, ef = mesh_facts(table)
    nf = len(table)
    for k in ("node_face", "edge_face", "face_face"):
        if out["dtype"][k] != "intp":
            return "dtype_" + k
    # node_face
    nfc = out["node_face"]
    if len(nfc) != n_node:
        return "node_face_shape"
    for n in range(n_node):
        real = [x for x in nfc[n] if x != FILL]
        want = sorted(f for f, c in enumerate(rows) if n in c)
        if sorted(real) != want:
            return "node_face"
        if any((x != FILL and not (0 <= x < nf)) for x in nfc[n]):
            return "node_face_padding"
    # edge_face
    en = [(min(a, b), max(a, b)) for a, b in out["edge_node"]]
    efc = out["edge_face"]
    if len(efc) != len(en) or any(len(r) != 2 for r in efc):
        return "edge_face_shape"
    for e, key in enumerate(en):
        want = sorted(ef.get(key, []))
        a, b = efc[e]
        if a == FILL:
            return "edge_face_first_real"
        got = sorted(x for x in (a, b) if x != FILL)
        if got != want:
            return "edge_face"
    # face_face
    ffc = out["face_face"]
    if len(ffc) != nf:
        return "face_face_shape"
    for f in range(nf):
        want = []
        c = rows[f]
        for j in range(len(c)):
            a, b = c[j], c[(j + 1) % len(c)]
            fs = ef[(min(a, b), max(a, b))]
            if len(fs) == 2:
                want.append(fs[0] if fs[1] == f else fs[1])
        real = [x for x in ffc[f] if x != FILL]
        if sorted(real) != sorted(want):
            return "face_face"
        # padding only with the standard value, at the end
        k = len(real)
        if list(ffc[f][:k]) != real:
            return "face_face_padding"
    # holes
    want = sorted(e for e, key in enumerate(en) if len(ef.get(key, [])) == 1)
    if sorted(out["holes"]) != want or len(set(out["holes"])) != len(out["holes"]):
        return "hole_edges"
    return None


def impl(table, lon, lat, order, supplied_edges=None):
    import uxarray as ux
    # memory layout of the face table as a source may hold it: C order, Fortran order (transposed storage), strided view
    t = c02.layout(np.array(table, dtype=np.intp), (order // 4) % 3)
    kw = {}
    if supplied_edges is not None:
        # a source that ships its own edge table (MPAS/ICON style): arbitrary edge order and pair orientation
        kw["edge_node_connectivity"] = np.array(supplied_edges, dtype=np.intp)
        if order % 2:
            # ... and its own edge_face table (MPAS cellsOnEdge): the two faces of an edge in either order
            _, efm = mesh_facts(table)
            rows_ef = []
            for k_, (a_, b_) in enumerate(supplied_edges):
                fs = list(efm[(min(a_, b_), max(a_, b_))])
                if len(fs) == 2 and (k_ + order) % 3 == 0:
                    fs.reverse()
                rows_ef.append(fs + [FILL] * (2 - len(fs)))
            if all(len(r_) == 2 for r_ in rows_ef):
                kw["edge_face_connectivity"] = np.array(rows_ef, dtype=np.intp)
    g = ux.Grid.from_topology(np.array(lon, float), np.array(lat, float), t if (order // 4) % 3 else t.copy(), fill_value=FILL, **kw)
    if order % 5 == 3:
        # unrelated reads first (geometry helpers work on padded copies of the face table): the incidence tables derived
        # afterwards must still describe the grid's faces
        g.antimeridian_face_indices
        g.face_areas
    names = ["node_face_connectivity", "edge_face_connectivity", "face_face_connectivity", "hole_edge_indices"]
    # different orders of first access
    k = order % 4
    names = names[k:] + names[:k]
    vals = {}
    for nm in names:
        vals[nm] = np.asarray(getattr(g, nm).values)
    # face_edge is derived FIRST here: whatever that derivation does to a supplied edge table must show in the edge table
    # read afterwards
    fe_first = g.face_edge_connectivity.values.tolist()
    out = {
        "edge_node": g.edge_node_connectivity.values.tolist(),
        "node_face": vals["node_face_connectivity"].tolist(),
        "edge_face": vals["edge_face_connectivity"].tolist(),
        "face_face": vals["face_face_connectivity"].tolist(),
        "holes": vals["hole_edge_indices"].tolist(),
        "dtype": {"node_face": str(np.dtype(vals["node_face_connectivity"].dtype).name).replace("int64", "intp"),
                  "edge_face": str(np.dtype(vals["edge_face_connectivity"].dtype).name).replace("int64", "intp"),
                  "face_face": str(np.dtype(vals["face_face_connectivity"].dtype).name).replace("int64", "intp")},
        "face_edge": fe_first,
        "npf": g.n_nodes_per_face.values.tolist(),
        "n_edge": int(g.n_edge),
        "width_ff": int(vals["face_face_connectivity"].shape[1]) if vals["face_face_connectivity"].ndim == 2 else -1,
    }
    return out, g


def impl_builders(table, n_node, out):
    """the builder functions called directly on the same inputs"""
    from uxarray.grid.connectivity import _build_edge_face_connectivity, _build_node_faces_connectivity
    from uxarray.grid.geometry import _construct_hole_edge_indices
    ef = _build_edge_face_connectivity(np.array(out["face_edge"], dtype=np.intp), np.array(out["npf"], dtype=np.intp), out["n_edge"])
    nfc, _ = _build_node_faces_connectivity(np.array(table, dtype=np.intp), n_node)
    holes = _construct_hole_edge_indices(ef)
    return ef.tolist(), nfc.tolist(), np.asarray(holes).tolist()


def canon(edge_face, holes, node_face, face_face):
    return ([sorted(x for x in r if x != FILL) for r in edge_face], sorted(holes),
            [sorted(x for x in r if x != FILL) for r in node_face],
            [sorted(x for x in r if x != FILL) for r in face_face])


def gen_cases(ck):
    rng = ck.rng
    cases = []
    cdir = os.path.join(common.VERIF, "corpus", "C03")
    if os.path.isdir(cdir):
        for fn in sorted(os.listdir(cdir)):
            cases.append(json.load(open(os.path.join(cdir, fn))))
    # hand-made corner cases: single face, two isolated faces, two faces sharing two edges
    hand = [
        (3, [[0, 1, 2]]),
        (6, [[0, 1, 2], [3, 4, 5]]),
        (4, [[0, 1, 2, FILL], [0, 2, 3, FILL]]),
        (5, [[0, 1, 2, 3], [0, 3, 2, 4]]),           # share two edges (0-3 and 3-2)
        (5, [[0, 1, 2, FILL], [2, 3, 4, FILL]]),       # touch at one node only
        (7, [[0, 1, 2, 3, 4, 5, 6], [0, 6, 5, FILL, FILL, FILL, FILL]]),
    ]
    for n, t in hand:
        cases.append({"kind": "hand", "table": t, "n_node": n})
    n_rand = 300 if ck.tier == "quick" else 6000
    tries = 0
    while sum(1 for c in cases if c["kind"] == "random_table") < n_rand and tries < n_rand * 30:
        tries += 1
        n, t = meshgen.gen_table(rng, max_nodes=10, max_faces=5, max_size=6)
        if manifold(t):
            used = sorted({x for r in t for x in r if x != FILL})
            cases.append({"kind": "random_table", "table": t, "n_node": max(used) + 1})
    # one large structured mesh with mixed face sizes and a high-valence fan (array-wide shortcuts need large inputs)
    import math
    for bi in range(1 if ck.tier == "quick" else 3):
        nlon, nlat = 48 + 5 * bi, 30 + bi
        nodes_b, faces_b = [], []
        for j in range(nlat + 1):
            for i in range(nlon):
                la = math.radians(-75 + 150.0 * j / nlat); lo = math.radians(-180 + 360.0 * (i + 0.5) / nlon)
                nodes_b.append((math.cos(la) * math.cos(lo), math.cos(la) * math.sin(lo), math.sin(la)))
        for j in range(nlat):
            for i in range(nlon):
                q = [j * nlon + i, j * nlon + (i + 1) % nlon, (j + 1) * nlon + (i + 1) % nlon, (j + 1) * nlon + i]
                if (i + 2 * j) % 7:
                    faces_b.append(q)
                else:
                    faces_b.append(q[:3]); faces_b.append([q[0], q[2], q[3]])
        # a polar fan: one node of valence nlon on top of the band
        nodes_b.append((0.0, 0.0, 1.0))
        top = len(nodes_b) - 1
        for i in range(nlon):
            faces_b.append([nlat * nlon + i, nlat * nlon + (i + 1) % nlon, top])
        mb = meshgen.Mesh(nodes_b, faces_b, closed=False, name="bandfan%dx%d" % (nlon, nlat))
        lonb, latb = mb.lonlat()
        cases.append({"kind": "mesh", "table": mb.table(4), "n_node": len(mb.nodes), "lonlat": [lonb, latb], "name": mb.name, "closed": False})
    n_mesh = 200 if ck.tier == "quick" else 4000
    for i in range(n_mesh):
        big = ck.tier == "thorough" and i % 40 == 0
        m = meshgen.gen_mesh(rng, max_ops=50 if big else 12)
        lon, lat = m.lonlat()
        cases.append({"kind": "mesh", "table": m.table(m.width() + rng.choice([0, 0, 1])), "n_node": len(m.nodes),
                      "lonlat": [lon, lat], "name": m.name, "closed": m.closed})
    return cases


def run_one(ck, c, idx, lines, keep):
    t, n = c["table"], c["n_node"]
    if c.get("lonlat"):
        lon, lat = c["lonlat"]
    else:
        lon = list(np.linspace(-170, 170, n))
        lat = list(np.linspace(-80, 80, n))
    sup = None
    if c["kind"] == "mesh" and idx % 3 == 1:
        rows, efm = mesh_facts(t)
        sup = [list(k) if (idx + i) % 2 else [k[1], k[0]] for i, k in enumerate(sorted(efm))]
        # a generic permutation (NOT an involution: a permutation equal to its inverse hides inverse/forward mix-ups)
        ck.rng.shuffle(sup)
    try:
        out, g = impl(t, lon, lat, idx, sup)
    except Exception as ex:
        ck.fail("raises", {"table": t, "n_node": n, "order": idx % 4}, {"level": "grid"}, detail=repr(ex))
        return
    bad = spec_check(t, n, out)
    if bad:
        ck.fail(bad, {"table": t, "n_node": n, "order": idx % 4, "supplied_edges": sup}, {"level": "grid", "supplied_edges": sup is not None},
                detail=json.dumps({k: out[k] for k in ("edge_node", "node_face", "edge_face", "face_face", "holes")}))
    try:
        ef_b, nf_b, holes_b = impl_builders(t, n, out)
        out_b = dict(out)
        out_b.update({"edge_face": ef_b, "node_face": nf_b, "holes": holes_b})
        bad = spec_check(t, n, out_b)
        if bad:
            ck.fail(bad, {"table": t, "n_node": n}, {"level": "builders"}, detail=json.dumps([ef_b, nf_b, holes_b]))
    except Exception as ex:
        ck.fail("raises", {"table": t, "n_node": n}, {"level": "builders"}, detail=repr(ex))
    lines.append(sx([out["face_edge"], out["npf"], out["n_edge"], t, n, len(t), max(out["width_ff"], 0)]))
    keep.append((c, out))


def main(ck):
    ck.check_props()
    ok = ck.build_driver()
    cases = gen_cases(ck)
    lines, keep = [], []
    hist, val = {}, {}
    for idx, c in enumerate(cases):
        t = c["table"]
        ck.note_case(t, nontrivial=len(t) >= 2)
        hist[c["kind"]] = hist.get(c["kind"], 0) + 1
        run_one(ck, c, idx, lines, keep)
    if ok and lines:
        mod = ck.run_model("c03", lines)
        for (c, out), mo in zip(keep, mod):
            if isinstance(mo, list) and mo and mo[0] == "ERR":
                ck.corr_failures.append({"case": c["table"], "model": mo})
                continue
            ci = canon(out["edge_face"], out["holes"], out["node_face"], out["face_face"])
            cm = canon(mo[0], mo[1], mo[2], mo[3])
            if ci != cm:
                ck.corr_failures.append({"case": c["table"], "impl": ci, "model": cm})
            # model-level regularities (not demanded by the property; reported only as information)
            for r in out["node_face"]:
                k = sum(1 for x in r if x != FILL)
                val[k] = val.get(k, 0) + 1
        for c, out in keep[:3]:
            ck.sample({"kind": c["kind"], "table": [["F" if x == FILL else x for x in r] for r in c["table"]][:5],
                       "edge_face_impl": [["F" if x == FILL else x for x in r] for r in out["edge_face"]][:6]})
    ck.cov["rule"] = ("hand-made corner cases (single face, isolated faces, faces sharing two edges / one node), random manifold "
                      "combinatorial tables, sphere tilings (closed and partial) from meshgen with 4 orders of first access; "
                      "non-trivial = >= 2 faces; distinct = distinct table")
    ck.extra.update({"case_kinds": hist, "node_valence_histogram": {str(k): v for k, v in sorted(val.items())},
                     "clauses_checked_on_impl": ["node_face", "edge_face", "edge_face_first_real", "face_face", "face_face_padding",
                                                 "hole_edges", "dtype_*", "shapes"]})
    ck.trusted += ["numba loop and dict-of-lists loops modelled as folds in iteration order", "np.where, np.pad semantics"]
    ck.assumptions += ["grids are manifold (each edge bounded by at most two faces), faces list a node at most once"]


def replay(ck, rp):
    c = rp["case"]
    ck.note_case("replay")
    ck.note_case(json.dumps(c))
    run_one(ck, {"kind": "replay", "table": c["table"], "n_node": c["n_node"]}, c.get("order", 0), [], [])
