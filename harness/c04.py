"""C04 — spherical and Cartesian coordinates denote the same points.

Proof: coq/Props/C04_props.v about coq/Model/C04.v (symbolic provenance dataflow of the getters,
populate functions, range fix and normalisation + the meaning of every operator over R).
Tie: for every generated source (provenance of node/edge/face coordinates x lon convention x
scaling) and history of accesses the real Grid is driven step by step; after every step every
coordinate variable present in Grid._ds is compared with the model's expression for it, evaluated
at 30 digits on the same source arrays.  The property clauses are evaluated directly on what the
Grid reports against directions known exactly (rational unit vectors).
"""
import json
import os
import sys
from fractions import Fraction

import numpy as np

import common
import meshgen
from common import sx

sys.path.insert(0, os.path.join(common.VERIF, ".pydeps"))
import mpmath as mp  # noqa: E402

mp.mp.dps = 30

KINDS = ["node", "edge", "face"]
LLN = {"node": ("node_lon", "node_lat"), "edge": ("edge_lon", "edge_lat"), "face": ("face_lon", "face_lat")}
XYZN = {k: (k + "_x", k + "_y", k + "_z") for k in KINDS}
PROV_CODE = {"none": 0, "ll": 1, "xyz": 2, "both": 3}
# op codes of the model: 0,1,2 lon/lat of node,edge,face; 3,4,5 xyz; 6 normalise
NAME_OP = {}
for _i, _k in enumerate(KINDS):
    for _n in LLN[_k]:
        NAME_OP[_n] = _i
    for _n in XYZN[_k]:
        NAME_OP[_n] = 3 + _i
NAME_OP["normalize"] = 6
ALL_NAMES = [n for n in NAME_OP if n != "normalize"]
# public mutators: construct_face_centers("welzl") / ("cartesian average"); "set:<name>" re-assigns a
# variable its current values through the property setter (a no-op of the model)
NAME_OP["welzl"] = 7
NAME_OP["cartavg"] = 8
MUTATORS = ["welzl", "cartavg", "normalize"] + ["set:" + n for n in ALL_NAMES]


def op_code(n):
    return 9 if n.startswith("set:") else NAME_OP[n]
TOL_DIR = mp.mpf("1e-9")          # rad
TOL_SNAP = mp.mpf("1.5e-4")       # rad, direction error allowed inside the pole-snap zone
TOL_UNIT = 1e-12
ERRTOL = mp.mpf(float(np.float64(1.0e-8)))
SNAP_MARGIN = mp.mpf("1e-11")


# ---------------------------------------------------------------------------------------------
# exact points

def rat_unit(p, bits=22):
    """nearest rational unit vector (stereographic parametrisation) to the float vector p"""
    x, y, z = p
    n = (x * x + y * y + z * z) ** 0.5
    x, y, z = x / n, y / n, z / n
    sgn = 1
    if z < 0:
        sgn, z = -1, -z
    q = 1 << bits
    s = Fraction(round(x / (1 + z) * q), q)
    t = Fraction(round(y / (1 + z) * q), q)
    r2 = s * s + t * t
    return (2 * s / (1 + r2), 2 * t / (1 + r2), sgn * (1 - r2) / (1 + r2))


def pyth(rng):
    """rational point (c, s) on the unit circle, c > 0"""
    t = Fraction(rng.randrange(-40, 41), rng.randrange(41, 90))
    return ((1 - t * t) / (1 + t * t), 2 * t / (1 + t * t))


def special_point(rng, what):
    if what == "npole":
        return (Fraction(0), Fraction(0), Fraction(1))
    if what == "spole":
        return (Fraction(0), Fraction(0), Fraction(-1))
    if what == "antimeridian":
        c, s = pyth(rng)
        return (-c, Fraction(0), s)
    if what == "prime":
        c, s = pyth(rng)
        return (c, Fraction(0), s)
    if what == "lon90":
        c, s = pyth(rng)
        return (Fraction(0), rng.choice([1, -1]) * c, s)
    if what in ("snapzone", "nearpole"):
        # polar angle: inside the snap zone (< 1.41e-4 rad) or just outside it
        ang = rng.uniform(2e-6, 1.2e-4) if what == "snapzone" else rng.uniform(1.7e-4, 2e-3)
        az = rng.uniform(0, 6.283)
        import math
        p = (math.sin(ang) * math.cos(az), math.sin(ang) * math.sin(az), math.cos(ang) * rng.choice([1, -1]))
        return rat_unit(p, bits=40)
    raise ValueError(what)


def rot_to(p, t):
    """rotation matrix (floats) taking unit vector p to unit vector t"""
    p = np.array(p, float)
    t = np.array(t, float)
    v = np.cross(p, t)
    c = float(np.dot(p, t))
    if np.linalg.norm(v) < 1e-12:
        if c > 0:
            return np.eye(3)
        a = np.array([1.0, 0, 0]) if abs(p[0]) < 0.9 else np.array([0, 1.0, 0])
        u = np.cross(p, a)
        u /= np.linalg.norm(u)
        return 2 * np.outer(u, u) - np.eye(3)       # half turn about u (perpendicular to p)
    vx = np.array([[0, -v[2], v[1]], [v[2], 0, -v[0]], [-v[1], v[0], 0]])
    return np.eye(3) + vx + vx @ vx * (1 / (1 + c))


def mpv(q):
    return (mp.mpf(q[0].numerator) / q[0].denominator, mp.mpf(q[1].numerator) / q[1].denominator,
            mp.mpf(q[2].numerator) / q[2].denominator)


def mp_norm(v):
    n = mp.sqrt(v[0] * v[0] + v[1] * v[1] + v[2] * v[2])
    return (v[0] / n, v[1] / n, v[2] / n)


def mp_angle(a, b):
    cx = (a[1] * b[2] - a[2] * b[1], a[2] * b[0] - a[0] * b[2], a[0] * b[1] - a[1] * b[0])
    return mp.atan2(mp.sqrt(cx[0] ** 2 + cx[1] ** 2 + cx[2] ** 2), a[0] * b[0] + a[1] * b[1] + a[2] * b[2])


def mp_ll2xyz(lon, lat):
    return (mp.cos(lon) * mp.cos(lat), mp.sin(lon) * mp.cos(lat), mp.sin(lat))


def lonlat_deg(v):
    """50-digit lon/lat (degrees) of an mp unit vector"""
    with mp.workdps(50):
        lon = mp.degrees(mp.atan2(v[1], v[0]))
        z = max(mp.mpf(-1), min(mp.mpf(1), v[2]))
        lat = mp.degrees(mp.asin(z))
    return lon, lat


# ---------------------------------------------------------------------------------------------
# cases

class _Patch:
    """a fine regional mesh: n x k cells of a lon/lat lattice with spacing h degrees (0.05 .. 0.3), as
    quads or split into triangles, placed anywhere incl. across the antimeridian and next to a pole —
    every edge and face is tiny, which is where array-wide shortcuts of the library trigger"""

    def __init__(self, rng):
        import math
        n, k = rng.randrange(3, 13), rng.randrange(3, 13)
        h = rng.uniform(0.05, 0.3)
        where = rng.choice(["mid", "mid", "antimeridian", "prime", "polar", "equator"])
        lat0 = {"mid": rng.uniform(-75, 75), "antimeridian": rng.uniform(-60, 60), "prime": rng.uniform(-60, 60),
                "polar": rng.choice([1, -1]) * rng.uniform(84, 89.0 - k * h), "equator": -h * k / 2}[where]
        lon0 = {"mid": rng.uniform(-170, 160), "antimeridian": 180 - h * n / 2, "prime": -h * n / 2,
                "polar": rng.uniform(-180, 170), "equator": rng.uniform(-170, 160)}[where]
        tri = rng.random() < 0.4
        self.nodes, self.faces = [], []
        for j in range(k + 1):
            for i in range(n + 1):
                lo, la = math.radians(lon0 + i * h), math.radians(lat0 + j * h)
                self.nodes.append((math.cos(lo) * math.cos(la), math.sin(lo) * math.cos(la), math.sin(la)))
        for j in range(k):
            for i in range(n):
                a, b = j * (n + 1) + i, j * (n + 1) + i + 1
                c, d = (j + 1) * (n + 1) + i + 1, (j + 1) * (n + 1) + i
                if tri:
                    self.faces += [[a, b, c], [a, c, d]] if (i + j) % 2 else [[a, b, d], [b, c, d]]
                else:
                    self.faces.append([a, b, c, d])
        rng.shuffle(self.faces)
        self.name = "patch:%dx%d:h=%.3f:%s:%s" % (n, k, h, where, "tri" if tri else "quad")


def gen_case(rng, prov=None, ops=None, special=None, big=False, fine=False):
    if fine:
        m = _Patch(rng)
        special = "none"
    else:
        m = meshgen.gen_mesh(rng, max_ops=10 if big else 4, rot=True)
    special = special if special is not None else rng.choice(
        ["none", "none", "npole", "spole", "antimeridian", "prime", "lon90", "snapzone", "nearpole"])
    nodes = [np.array(p, float) for p in m.nodes]
    forced = None
    if special != "none":
        tgt = special_point(rng, special)
        j = rng.randrange(len(nodes))
        R = rot_to(nodes[j], [float(x) for x in tgt])
        nodes = [R @ p for p in nodes]
        forced = (j, tgt)
    rat = [rat_unit(p, bits=46 if fine else 22) for p in nodes]
    if forced:
        rat[forced[0]] = forced[1]
    faces = [list(f) for f in m.faces]
    # edges in the harness's own (shuffled) order, used when the source supplies edge centres
    es = sorted({(min(f[i], f[(i + 1) % len(f)]), max(f[i], f[(i + 1) % len(f)])) for f in faces for i in range(len(f))})
    rng.shuffle(es)
    if prov is None:
        prov = {"node": rng.choice(["ll", "xyz", "both"]),
                "edge": rng.choice(["none", "none", "ll", "xyz", "both"]),
                "face": rng.choice(["none", "none", "ll", "xyz", "both"])}
    scaled = {k: (prov[k] in ("xyz", "both") and rng.random() < 0.3) for k in KINDS}
    lonmode = {k: rng.choice(["std", "std", "360", "mixed"]) for k in KINDS}
    case = {
        "nodes": [[str(c) for c in q] for q in rat],
        "faces": faces,
        "edges": [list(e) for e in es],
        "prov": prov,
        "scaled": scaled,
        "scale": rng.choice([6371.229, 2.5, 0.37]),
        "lonmode": lonmode,
        "pole_lon": rng.choice([0.0, 137.25, -60.0, 359.0]),
        "centre_seed": rng.randrange(1 << 30),
        "special": special,
        "width_extra": rng.choice([0, 0, 1]),
        "name": m.name,
        "fine": bool(fine),
    }
    if ops is None:
        k = rng.randrange(0, 6)
        pool = ALL_NAMES + ["normalize", "normalize"] + (
            ["welzl", "welzl", "cartavg", "cartavg", "welzl", "cartavg"] + [rng.choice(MUTATORS[3:]) for _ in range(3)]
            if rng.random() < 0.6 else [])
        ops = [rng.choice(pool) for _ in range(k)]
    case["ops"] = list(ops)
    # every case ends by reading all six groups (each through a random member) in random order
    tail = [rng.choice(LLN[k]) for k in KINDS] + [rng.choice(XYZN[k]) for k in KINDS]
    rng.shuffle(tail)
    case["tail"] = tail
    return case


class Source:
    """the concrete arrays and exact truth directions of one case"""

    def __init__(self, case):
        import random
        self.case = case
        rat = [tuple(Fraction(c) for c in q) for q in case["nodes"]]
        self.node_dir = [mpv(q) for q in rat]
        self.faces = case["faces"]
        self.edges = [tuple(e) for e in case["edges"]]
        r = random.Random(case["centre_seed"])
        self.dirs = {"node": self.node_dir}
        self.supplied_dirs = {}
        for k, elems in (("edge", self.edges), ("face", self.faces)):
            if case["prov"][k] != "none":
                out = []
                for el in elems:
                    c = [sum(float(self.node_dir[i][a]) for i in el) / len(el) for a in range(3)]
                    # a centre the source chose itself: near, but not at, the normalised mean
                    # (displaced by a fraction of the element's own size)
                    spread = max(max(abs(float(self.node_dir[i][a]) - c[a]) for a in range(3)) for i in el)
                    amp = min(0.02, 0.3 * spread)
                    c = [c[a] + r.uniform(-amp, amp) for a in range(3)]
                    out.append(mpv(rat_unit(c, bits=46 if case.get("fine") else 22)))
                self.dirs[k] = out
        self.arrays = {}
        for k in KINDS:
            p = case["prov"][k]
            if p in ("ll", "both"):
                lon, lat = [], []
                mode = case["lonmode"][k]
                for idx, v in enumerate(self.dirs[k]):
                    lo, la = lonlat_deg(v)
                    if v[0] == 0 and v[1] == 0:
                        lo = mp.mpf(case["pole_lon"])
                        if lo > 180 and mode == "std":
                            lo -= 360
                    if mode == "360" and lo < 0:
                        lo += 360
                    if mode == "mixed" and lo < 0 and idx % 2 == 0:
                        lo += 360
                    lon.append(float(lo))
                    lat.append(float(la))
                self.arrays[LLN[k][0]] = np.array(lon, float)
                self.arrays[LLN[k][1]] = np.array(lat, float)
            if p in ("xyz", "both"):
                sc = case["scale"] if case["scaled"][k] else 1.0
                for a, nm in enumerate(XYZN[k]):
                    self.arrays[nm] = np.array([float(v[a] * sc) for v in self.dirs[k]], float)

    def table(self):
        w = max(len(f) for f in self.faces) + self.case["width_extra"]
        return np.array([f + [common.FILL] * (w - len(f)) for f in self.faces], dtype=np.intp)

    def dataset(self):
        import xarray as xr
        from uxarray.conventions import ugrid
        ds = xr.Dataset()
        for nm, arr in self.arrays.items():
            kind = nm.split("_")[0]
            ds[nm] = xr.DataArray(arr.copy(), dims=["n_" + kind])
        ds["face_node_connectivity"] = xr.DataArray(self.table(), dims=["n_face", "n_max_face_nodes"],
                                                    attrs=dict(ugrid.FACE_NODE_CONNECTIVITY_ATTRS))
        if self.case["prov"]["edge"] != "none":
            ds["edge_node_connectivity"] = xr.DataArray(np.array(self.edges, dtype=np.intp),
                                                        dims=["n_edge", "two"],
                                                        attrs=dict(ugrid.EDGE_NODE_CONNECTIVITY_ATTRS))
        return ds

    def mean_truth(self, kind):
        """normalised mean of the corner unit vectors of every face, whatever the source supplied"""
        out = []
        for el in self.faces:
            s = [mp.fsum(self.node_dir[i][a] for i in el) / len(el) for a in range(3)]
            out.append(mp_norm(s))
        return out

    def truth(self, kind, corners=None):
        """exact directions of the elements of `kind`; for centres the source does not supply:
        normalised mean of the corner unit vectors (corners read from the grid for edges)"""
        if kind in self.dirs:
            return self.dirs[kind]
        elems = self.faces if kind == "face" else corners
        out = []
        for el in elems:
            s = [mp.fsum(self.node_dir[i][a] for i in el) / len(el) for a in range(3)]
            out.append(mp_norm(s))
        self.dirs[kind] = out
        return out


# ---------------------------------------------------------------------------------------------
# implementation side

def snapshot(g):
    out = {}
    for k in KINDS:
        for grp in (LLN[k], XYZN[k]):
            if all(n in g._ds for n in grp):
                out[grp] = tuple(np.array(g._ds[n].values, dtype=float).copy() for n in grp)
            elif any(n in g._ds for n in grp):
                out[grp] = "partial"
    return out


def run_impl(src):
    """drive the real Grid through the history; returns the list of (op name, returned array,
    snapshot of every coordinate group in _ds) — first entry is the state after construction"""
    import uxarray as ux
    g = ux.Grid(src.dataset(), source_grid_spec="UGRID")
    steps = [("init", None, snapshot(g))]
    for nm in src.case["ops"] + src.case["tail"]:
        if nm == "normalize":
            g.normalize_cartesian_coordinates()
            ret = None
        elif nm == "welzl":
            g.construct_face_centers("welzl")
            ret = None
        elif nm == "cartavg":
            g.construct_face_centers("cartesian average")
            ret = None
        elif nm.startswith("set:"):
            var = nm[4:]
            if var in g._ds:
                import xarray as xr
                old = g._ds[var]
                setattr(g, var, xr.DataArray(np.array(old.values).copy(), dims=old.dims, attrs=dict(old.attrs)))
            ret = None
        else:
            ret = np.array(getattr(g, nm).values, dtype=float).copy()
        steps.append((nm, ret, snapshot(g)))
    return g, steps


# ---------------------------------------------------------------------------------------------
# property clauses on what the Grid reports

def group_of(name):
    k = name.split("_")[0]
    return (k, "ll") if name in LLN[k] else (k, "xyz")


def centre_class(case, kind, sys_):
    """which provenance situation a reported group is in (used to recognise known findings)"""
    p = case["prov"][kind]
    if sys_ == "ll":
        if p in ("ll", "both"):
            return "lonlat_supplied"
        if p == "xyz":
            return "lonlat_from_supplied_xyz"
        return "lonlat_from_corner_mean"
    if p in ("xyz", "both"):
        return "xyz_supplied"
    if p == "ll":
        return "xyz_from_supplied_lonlat"
    return "xyz_from_corner_mean"


def check_ll(src, kind, lon, lat, truth):
    """returns (clause, signature) or None"""
    if not (np.all(np.isfinite(lon)) and np.all(np.isfinite(lat))):
        return "finite", "nan"
    if len(lon) != len(truth) or len(lat) != len(truth):
        return "shape", "length"
    if np.any(lat < -90) or np.any(lat > 90):
        return "lat_range", "lat"
    worst = None
    for i in range(len(truth)):
        v = mp_ll2xyz(mp.radians(mp.mpf(float(lon[i]))), mp.radians(mp.mpf(float(lat[i]))))
        t = truth[i]
        tol = TOL_SNAP if abs(t[2]) > 1 - ERRTOL - SNAP_MARGIN else TOL_DIR
        a = mp_angle(v, t)
        if a > tol and (worst is None or a > worst[1]):
            worst = (i, a)
    if worst is not None:
        i = worst[0]
        sig = "other"
        if src.case["prov"][kind] == "xyz" and src.case["scaled"].get(kind):
            # does the output equal arcsin / pole snap applied to the supplied, un-normalised z?
            zs = src.arrays[XYZN[kind][2]]
            with np.errstate(invalid="ignore"):
                exp = np.degrees(np.where(np.abs(zs) > 1.0 - 1.0e-8, np.sign(zs) * np.pi / 2, np.arcsin(zs)))
            if np.allclose(lat, exp, atol=1e-9):
                sig = "unnormalised_xyz_into_asin"
        return "direction", sig
    if np.any(lon < -180) or np.any(lon > 180):
        bad = lon[(lon < -180) | (lon > 180)]
        sig = "lon_in_180_360" if np.all((bad > 180) & (bad < 360.0000001)) else "other"
        return "lon_range", sig
    return None


def check_xyz(src, kind, xyz, truth, must_be_unit):
    x, y, z = xyz
    if not (np.all(np.isfinite(x)) and np.all(np.isfinite(y)) and np.all(np.isfinite(z))):
        return "finite", "nan"
    if not (len(x) == len(y) == len(z) == len(truth)):
        return "shape", "length"
    worst = None
    for i in range(len(truth)):
        v = (mp.mpf(float(x[i])), mp.mpf(float(y[i])), mp.mpf(float(z[i])))
        t = truth[i]
        tol = TOL_SNAP if abs(t[2]) > 1 - ERRTOL - SNAP_MARGIN else TOL_DIR
        a = mp_angle(v, t)
        if a > tol and (worst is None or a > worst[1]):
            worst = (i, a)
    if worst is not None:
        sig = "other"
        # does the output equal cos/sin applied to the DEGREE values of the supplied lon/lat?
        if src.case["prov"][kind] == "ll":
            lo, la = src.arrays[LLN[kind][0]], src.arrays[LLN[kind][1]]
            lo = (lo + 180) % 360 - 180 if lo.max() > 180 else lo
            w = (np.cos(lo) * np.cos(la), np.sin(lo) * np.cos(la), np.sin(la))
            if all(np.allclose(a_, b_, atol=1e-9) for a_, b_ in zip((x, y, z), w)):
                sig = "degrees_read_as_radians"
        return "direction", sig
    if must_be_unit:
        n = np.sqrt(x * x + y * y + z * z)
        if np.any(np.abs(n - 1) > TOL_UNIT):
            return "unit_length", "derived_not_unit"
    return None


def systems_agree(ll, xyz):
    """(lon, lat) in degrees and (x, y, z) denote the same directions (1e-9 rad; 1.5e-4 rad in the
    pole-snap zone); float64 is ample for this comparison"""
    lo, la = np.radians(ll[0]), np.radians(ll[1])
    v = np.array([np.cos(lo) * np.cos(la), np.sin(lo) * np.cos(la), np.sin(la)])
    w = np.array(xyz, dtype=float)
    n = np.sqrt((w * w).sum(axis=0))
    if v.shape != w.shape or not (np.all(np.isfinite(v)) and np.all(np.isfinite(w))) or np.any(n == 0):
        return False
    w = w / n
    ang = np.arctan2(np.linalg.norm(np.cross(v.T, w.T), axis=1), (v * w).sum(axis=0))
    tol = np.where(np.abs(w[2]) > 1 - 1.0e-8 - 1e-11, 1.5e-4, 1e-9)
    return bool(np.all(ang <= tol))


def truth_for(src, g, kind):
    if kind == "edge" and "edge" not in src.dirs:
        en = np.asarray(g.edge_node_connectivity.values)
        return src.truth("edge", [tuple(int(a) for a in r) for r in en])
    return src.truth(kind)


def spec_check_case(ck, src, g, steps):
    """evaluates the clauses on every reported group; reports through ck.fail"""
    case = src.case
    normalized_groups = set()
    n_fail = 0
    face_override = [None]          # directions installed by construct_face_centers
    face_unit = [False]             # ... and whether the Cartesian centres must now be unit

    def truth_of(kind):
        if kind == "face" and face_override[0] is not None:
            return face_override[0]
        return truth_for(src, g, kind)

    def face_groups(snap, si, what):
        """both face groups against the current face directions"""
        nf = 0
        t = truth_of("face")
        ll, xyz = snap.get(LLN["face"]), snap.get(XYZN["face"])
        if ll is None or ll == "partial" or xyz is None or xyz == "partial":
            return report(ck, src, "group_incomplete", "face", "ll", si, what)
        bad = check_ll(src, "face", ll[0], ll[1], t)
        if bad:
            nf += report(ck, src, bad[0], "face", "ll", si, what)
        derived = case["prov"]["face"] not in ("xyz", "both")
        bad = check_xyz(src, "face", xyz, t, derived or face_unit[0] or XYZN["face"] in normalized_groups)
        if bad:
            nf += report(ck, src, bad[0], "face", "xyz", si, what)
        return nf

    for si in range(1, len(steps)):
        nm, ret, snap = steps[si]
        prev = steps[si - 1][2]
        # whatever happened: the two systems of every element kind denote the same points
        for kind in KINDS:
            ll, xyz = snap.get(LLN[kind]), snap.get(XYZN[kind])
            if ll is None or xyz is None or ll == "partial" or xyz == "partial":
                continue
            if not systems_agree(ll, xyz):
                n_fail += report(ck, src, "systems_agree", kind, "xyz", si, "after_" + nm.split(":")[0])
        if nm.startswith("set:"):
            # re-assigning a variable its own values changes nothing
            for grp in set(prev) | set(snap):
                a_, b_ = prev.get(grp), snap.get(grp)
                if a_ is None or b_ is None or a_ == "partial" or b_ == "partial" or any(
                        not np.array_equal(x_, y_, equal_nan=True) for x_, y_ in zip(a_, b_)):
                    n_fail += report(ck, src, "setter_changes_values", grp[0].split("_")[0], "ll", si, "other")
                    break
            continue
        if nm == "welzl":
            ll = snap.get(LLN["face"])
            if ll is None or ll == "partial" or not (np.all(np.isfinite(ll[0])) and np.all(np.isfinite(ll[1]))):
                n_fail += report(ck, src, "group_incomplete", "face", "ll", si, "welzl")
                continue
            # the routine's own lon/lat define the new centres; ranges and the Cartesian image are checked
            face_override[0] = [mp_ll2xyz(mp.radians(mp.mpf(float(a))), mp.radians(mp.mpf(float(b))))
                                for a, b in zip(ll[0], ll[1])]
            face_unit[0] = True
            normalized_groups.discard(XYZN["face"])
            n_fail += face_groups(snap, si, "welzl")
            continue
        if nm == "cartavg":
            had_xyz = prev.get(XYZN["face"]) not in (None, "partial")
            if not had_xyz:
                # no Cartesian centres stored: they are constructed from the corner nodes
                face_override[0] = src.mean_truth("face")
                face_unit[0] = True
            n_fail += face_groups(snap, si, "cartesian_average")
            continue
        if nm == "normalize":
            for grp, before in prev.items():
                after = snap.get(grp)
                kind = grp[0].split("_")[0]
                if grp in (LLN[kind],):
                    if after == "partial" or before == "partial" or any(
                            not np.array_equal(a, b) for a, b in zip(before, after)):
                        n_fail += report(ck, src, "normalize_changes_lonlat", kind, "ll", si, "other")
                    continue
                if before == "partial" or after is None or after == "partial":
                    n_fail += report(ck, src, "normalize_drops_group", kind, "xyz", si, "other")
                    continue
                bx, ax = np.array(before), np.array(after)
                nb = np.sqrt((bx * bx).sum(axis=0))
                na = np.sqrt((ax * ax).sum(axis=0))
                cosang = (bx * ax).sum(axis=0) / (nb * na)
                cr = np.linalg.norm(np.cross(bx.T, ax.T), axis=1) / (nb * na)
                if np.any(cr > 1e-12) or np.any(cosang < 0):
                    n_fail += report(ck, src, "normalize_direction", kind, "xyz", si, "other")
                if np.any(np.abs(na - 1) > TOL_UNIT):
                    node_unit = True
                    if XYZN["node"] in snap and snap[XYZN["node"]] != "partial":
                        nx = np.array(snap[XYZN["node"]])
                        node_unit = bool(np.all(np.abs(np.sqrt((nx * nx).sum(axis=0)) - 1) <= 1e-6))
                    sig = "node_lengths_tested_instead" if (kind != "node" and node_unit) else "other"
                    n_fail += report(ck, src, "normalize_unit", kind, "xyz", si, sig)
                else:
                    normalized_groups.add(grp)
            continue
        kind, sys_ = group_of(nm)
        grp = LLN[kind] if sys_ == "ll" else XYZN[kind]
        val = snap.get(grp)
        if val is None or val == "partial":
            n_fail += report(ck, src, "group_incomplete", kind, sys_, si, "other")
            continue
        # the getter returns the stored variable
        idx = grp.index(nm)
        if ret is None or ret.shape != val[idx].shape or not np.array_equal(ret, val[idx], equal_nan=True):
            n_fail += report(ck, src, "getter_returns_stored", kind, sys_, si, "other")
        truth = truth_of(kind)
        if sys_ == "ll":
            bad = check_ll(src, kind, val[0], val[1], truth)
        else:
            derived = case["prov"][kind] not in ("xyz", "both")
            bad = check_xyz(src, kind, val, truth, derived or grp in normalized_groups
                            or (kind == "face" and face_unit[0]))
        if bad:
            n_fail += report(ck, src, bad[0], kind, sys_, si, bad[1])
    return n_fail


def report(ck, src, clause, kind, sys_, step, signature):
    case = src.case
    info = {"group": kind + "_" + sys_, "class": centre_class(case, kind, sys_),
            "scaled": bool(case["scaled"][kind]), "signature": signature}
    rc = dict(case)
    rc["failing_step"] = step
    ck.fail(clause, rc, info, detail=json.dumps(info))
    src.failed = getattr(src, "failed", [])
    src.failed.append((clause, info["group"], info["class"] + ("_scaled" if info["scaled"] else ""), signature, step))
    return 1


# ---------------------------------------------------------------------------------------------
# model side: decode the model's expressions and evaluate them at 30 digits

def decode(code):
    pos = 0

    def rd():
        nonlocal pos
        t = code[pos]
        pos += 1
        if t == 0:
            return None
        if t in (10, 20):
            k = code[pos]
            pos += 1
            return (t, k)
        if t in (11, 23):
            k = code[pos]
            pos += 1
            return (t, k, rd())
        if t == 15:
            n = code[pos]
            pos += 1
            return (t, n, rd())
        if t in (12, 13, 14, 21, 22):
            return (t, rd())
        raise ValueError("bad code %r" % (code,))
    e = rd()
    if pos != len(code):
        raise ValueError("trailing code %r" % (code,))
    return e


class Evaluator:
    def __init__(self, src, corners):
        self.src = src
        self.corners = corners           # kind index -> list of node lists
        self.memo = {}
        self.twopi = 2 * mp.pi
        self.welzl = None                # lon/lat reported by the latest construct_face_centers("welzl")

    def set_welzl(self, ll):
        self.welzl = ll
        self.memo = {}

    def wrap(self, d):
        return (d + 180) % 360 - 180

    def xyz2ll(self, p):
        x, y, z = p
        if abs(z) > 1 - ERRTOL:
            return (mp.mpf(0), mp.sign(z) * mp.pi / 2)
        lon = mp.atan2(y, x) % self.twopi
        return (lon, mp.asin(z))

    def ev(self, e):
        if e in self.memo:
            return self.memo[e]
        t = e[0]
        A = self.src.arrays
        if t == 10 and e[1] == 4:
            # the Welzl routine's output: an opaque input of the model (randomised algorithm)
            r = [(mp.mpf(float(a)), mp.mpf(float(b))) for a, b in zip(self.welzl[0], self.welzl[1])]
        elif t == 10:
            k = KINDS[e[1]]
            r = [(mp.mpf(float(a)), mp.mpf(float(b))) for a, b in zip(A[LLN[k][0]], A[LLN[k][1]])]
        elif t == 11:
            v = self.ev(e[2])
            if any(lo > 180 for lo, _ in v):
                r = [(self.wrap(lo), la) for lo, la in v]
            else:
                r = v
        elif t == 12:
            r = [(self.wrap(lo), la) for lo, la in self.ev(e[1])]
        elif t == 13:
            r = [(mp.degrees(lo), mp.degrees(la)) for lo, la in self.ev(e[1])]
        elif t == 14:
            r = [(mp.radians(lo), mp.radians(la)) for lo, la in self.ev(e[1])]
        elif t == 15:
            v = self.ev(e[2])
            if e[1]:
                w = []
                for p in v:
                    q = mp_norm(p)
                    d = abs(q[0] * q[0] + q[1] * q[1] + q[2] * q[2])
                    w.append((q[0] / d, q[1] / d, q[2] / d))
                v = w
            r = [self.xyz2ll(p) for p in v]
        elif t == 20:
            k = KINDS[e[1]]
            r = [(mp.mpf(float(a)), mp.mpf(float(b)), mp.mpf(float(c))) for a, b, c in
                 zip(A[XYZN[k][0]], A[XYZN[k][1]], A[XYZN[k][2]])]
        elif t == 21:
            r = [mp_ll2xyz(lo, la) for lo, la in self.ev(e[1])]
        elif t == 22:
            r = [mp_norm(p) for p in self.ev(e[1])]
        elif t == 23:
            v = self.ev(e[2])
            r = []
            for el in self.corners[e[1]]:
                r.append(tuple(mp.fsum(v[i][a] for i in el) / len(el) for a in range(3)))
        else:
            raise ValueError(e)
        self.memo[e] = r
        return r


def close_ll(impl, model):
    lon, lat = impl
    if len(lon) != len(model):
        return False
    for i, (mlo, mla) in enumerate(model):
        if not (np.isfinite(lon[i]) and np.isfinite(lat[i])):
            return False
        if abs(mp.mpf(float(lat[i])) - mla) > mp.mpf("1e-9"):
            return False
        d = (mp.mpf(float(lon[i])) - mlo + 180) % 360 - 180
        # longitudes are compared as angles (mod 360; the interval is the spec's business) and by
        # the displacement they cause on the sphere (at a pole the longitude carries no information)
        if abs(d) * mp.cos(mp.radians(mla)) > mp.mpf("1e-9"):
            return False
    return True


def close_xyz(impl, model):
    if len(impl[0]) != len(model):
        return False
    for i, p in enumerate(model):
        for a in range(3):
            v = float(impl[a][i])
            if not np.isfinite(v):
                return False
            if abs(mp.mpf(v) - p[a]) > mp.mpf("1e-9") * max(1, abs(p[a])):
                return False
    return True


def compare_with_model(ck, src, g, steps, mstates):
    """state by state: same variables present, values = model expression evaluated on the source"""
    en = None
    if "edge_node_connectivity" in g._ds:
        en = [tuple(int(a) for a in r) for r in np.asarray(g._ds["edge_node_connectivity"].values)]
    ev = Evaluator(src, {1: en, 2: src.faces, 3: src.faces})
    if len(mstates) != len(steps):
        return {"why": "trace length", "model": len(mstates), "impl": len(steps)}
    for si, (st, ms) in enumerate(zip(steps, mstates)):
        snap = st[2]
        if st[0] == "welzl" and snap.get(LLN["face"]) not in (None, "partial"):
            ev.set_welzl(snap[LLN["face"]])
        gi = 0
        for k in KINDS:
            for sys_, grp in (("ll", LLN[k]), ("xyz", XYZN[k])):
                code = ms[gi]
                gi += 1
                e = decode(code)
                val = snap.get(grp)
                if (e is None) != (val is None):
                    return {"why": "presence", "step": si, "op": st[0], "group": grp, "model_has": e is not None}
                if e is None:
                    continue
                if val == "partial":
                    return {"why": "partial group", "step": si, "group": grp}
                if ev.corners[1] is None and uses_edge_mean(e):
                    return {"why": "edge mean without edge table", "step": si}
                mv = ev.ev(e)
                ok = close_ll(val, mv) if sys_ == "ll" else close_xyz(val, mv)
                if not ok:
                    return {"why": "value", "step": si, "op": st[0], "group": grp, "expr": code,
                            "impl": [list(map(float, a[:4])) for a in val],
                            "model": [[float(c) for c in p] for p in mv[:4]]}
        flag = ms[8][0]
        iflag = 1 if g._normalized is True else 0
        if si == len(steps) - 1 and flag != iflag:
            return {"why": "normalized flag", "model": flag, "impl": iflag}
    return None


def uses_edge_mean(e):
    if e is None or not isinstance(e, tuple):
        return False
    if e[0] == 23 and e[1] == 1:
        return True
    return any(uses_edge_mean(x) for x in e[1:] if isinstance(x, tuple))


FLAG_NAMES = ["fx_node_wrap", "fx_node_after", "fx_face_deg", "fx_edge_deg", "fx_face_norm", "fx_edge_norm",
              "fx_edge_check", "fx_face_check", "fx_welzl_deg"]
REPO_FLAGS = [0] * 9


def read_repo_flags(ck):
    """which variant of the seven defective code sites the current source contains: read from
    coq/Gen/C04_variant.v, which the fail-closed translator regenerated at the start of this run"""
    import re
    global REPO_FLAGS
    try:
        txt = open(os.path.join(common.COQ, "Gen", "C04_variant.v")).read()
        fl = [1 if re.search(n + r"\s*:=\s*true", txt) else 0 for n in FLAG_NAMES]
        if not all(re.search(n + r"\s*:=\s*(true|false)", txt) for n in FLAG_NAMES):
            raise ValueError("flag missing")
        REPO_FLAGS = fl
    except Exception as ex:
        ck.proof["errors"].append("cannot read Gen/C04_variant.v: %r" % (ex,))
    return REPO_FLAGS


def model_line(case, flags=None):
    c = [PROV_CODE[case["prov"][k]] for k in KINDS] + [1 if case["scaled"][k] else 0 for k in KINDS]
    ops = [op_code(n) for n in case["ops"] + case["tail"]]
    return sx([list(flags if flags is not None else REPO_FLAGS), c, ops])


# ---------------------------------------------------------------------------------------------

def run_case(ck, case, mstates=None, stats=None):
    src = Source(case)
    try:
        g, steps = run_impl(src)
    except RecursionError as ex:
        ck.fail("raises", case, {"group": "any", "class": "recursion", "signature": "other"}, detail=repr(ex))
        return None
    except Exception as ex:
        ck.fail("raises", case, {"group": "any", "class": type(ex).__name__, "signature": "other"}, detail=repr(ex))
        return None
    nf = spec_check_case(ck, src, g, steps)
    if stats is not None:
        stats["reports"] = stats.get("reports", 0) + len(steps) - 1
        for f in getattr(src, "failed", []):
            key = "%s/%s/%s/%s" % f[:4]
            stats.setdefault("impl_failures", {})
            stats["impl_failures"][key] = stats["impl_failures"].get(key, 0) + 1
    if mstates is not None:
        if isinstance(mstates, list) and mstates and mstates[0] == "ERR":
            ck.corr_failures.append({"case": case, "model": mstates})
        else:
            d = compare_with_model(ck, src, g, steps, mstates)
            if d:
                ck.corr_failures.append({"case": case, "diff": d})
            # the checker verdict of the model against what the clauses said on the implementation
            if stats is not None:
                names = ["init"] + case["ops"] + case["tail"]
                mbad = any(0 in ms[6] or (nm == "normalize" and 0 in ms[7]) for nm, ms in zip(names, mstates))
                key = ("model_flags_defect" if mbad else "model_clean") + "/" + ("impl_fails" if nf else "impl_passes")
                stats.setdefault("verdicts", {})
                stats["verdicts"][key] = stats["verdicts"].get(key, 0) + 1
                if not mbad and nf:
                    # the proved-correct paths must not fail on the implementation: that would be a
                    # model/implementation divergence (the counterexample itself is already reported)
                    pass
    return src, steps


def gen_cases(ck):
    rng = ck.rng
    cases = []
    cdir = os.path.join(common.VERIF, "corpus", "C04")
    if os.path.isdir(cdir):
        for fn in sorted(os.listdir(cdir)):
            cases.append(json.load(open(os.path.join(cdir, fn))))
    quick = ck.tier == "quick"
    provs = [{"node": a, "edge": b, "face": c} for a in ("ll", "xyz", "both")
             for b in ("none", "ll", "xyz", "both") for c in ("none", "ll", "xyz", "both")]
    # (a) the whole provenance lattice, random histories
    reps = 5 if quick else 40
    for p in provs:
        for _ in range(reps):
            cases.append(gen_case(rng, prov=dict(p)))
    # (b) every history of length <= L over one representative name per group + normalise
    reps_names = ["node_lon", "edge_lat", "face_lon", "node_z", "edge_x", "face_y", "normalize", "welzl", "cartavg"]
    import itertools
    hist = [()]
    for L in (1, 2) if quick else (1, 2, 3):
        hist += list(itertools.product(reps_names, repeat=L))
    if quick:
        hist = [h for h in hist if len(h) <= 1] + rng.sample([h for h in hist if len(h) == 2], 40)
        plist = [(p, hist) for p in rng.sample(provs, 10)]
    else:
        # all histories of length <= 2 for every provenance combination, of length 3 for a sample
        deep = set(rng.sample(range(len(provs)), 6))
        plist = [(p, hist if i in deep else [h for h in hist if len(h) <= 2]) for i, p in enumerate(provs)]
    for p, hs in plist:
        for h in hs:
            names = [n if n in ("normalize", "welzl", "cartavg") else rng.choice(
                (LLN if group_of(n)[1] == "ll" else XYZN)[group_of(n)[0]]) for n in h]
            cases.append(gen_case(rng, prov=dict(p), ops=names))
    # (b') fine regional meshes (all elements tiny) over the whole provenance lattice
    for i in range(48 if quick else 480):
        cases.append(gen_case(rng, prov=dict(provs[i % len(provs)]), fine=True))
    # (c) free random cases (bigger meshes in the thorough tier)
    for i in range(110 if quick else 1500):
        cases.append(gen_case(rng, big=(not quick and i % 10 == 0)))
    return cases


def main(ck):
    ck.check_props(files=["Props/C04_props.v", "Props/C04_repo_props.v"])
    ok = ck.build_driver()
    flags = read_repo_flags(ck)
    import warnings
    warnings.filterwarnings("ignore")
    cases = gen_cases(ck)
    ck.cov["rule"] = (
        "sources built from exact rational unit vectors on sphere tilings (meshgen: 9 polyhedra grown by split/"
        "subdivide/stellate/dual, partial by deletion, renumbered), one node forced onto a pole / the antimeridian / "
        "the prime meridian / lon 90 / inside or just outside the 1e-8 snap zone in a fixed share of cases; plus fine regional "
        "patches (3..12 x 3..12 lattice cells of 0.05..0.3 degrees, quads or triangles, mid-latitude / across the antimeridian / "
        "prime meridian / equator / next to a pole) on which EVERY edge and face is tiny; provenance "
        "lattice node{ll,xyz,both} x edge{none,ll,xyz,both} x face{none,ll,xyz,both}, supplied centres differ from the "
        "corner mean, longitudes supplied as [-180,180], [0,360) or mixed, supplied xyz unit or scaled; histories = "
        "random sequences over the 18 coordinate properties, normalize_cartesian_coordinates, construct_face_centers('welzl' / "
        "'cartesian average') and re-assignments through the property setters + all histories of "
        "length <=2 (quick: sampled; thorough: <=3) over group representatives, each followed by a read of all six "
        "groups in random order; non-trivial = at least one group is derived; distinct = distinct (provenance, "
        "scaling, lon mode, history, special placement)")
    model = ck.run_model("c04", [model_line(c) for c in cases]) if ok else [None] * len(cases)
    stats = {}
    dist = {"prov": {}, "special": {}, "lonmode": {}, "scaled": 0, "hist_len": {}}
    for idx, c in enumerate(cases):
        key = (tuple(sorted(c["prov"].items())), tuple(sorted(c["scaled"].items())),
               tuple(sorted(c["lonmode"].items())), tuple(c["ops"]), tuple(c["tail"]), c["special"])
        nontrivial = any(v != "both" for v in c["prov"].values())
        ck.note_case(key, nontrivial)
        pk = "%s/%s/%s" % (c["prov"]["node"], c["prov"]["edge"], c["prov"]["face"])
        dist["prov"][pk] = dist["prov"].get(pk, 0) + 1
        dist["special"][c["special"]] = dist["special"].get(c["special"], 0) + 1
        dist["hist_len"][str(len(c["ops"]))] = dist["hist_len"].get(str(len(c["ops"])), 0) + 1
        dist["scaled"] += int(any(c["scaled"].values()))
        dist["fine_regional_meshes"] = dist.get("fine_regional_meshes", 0) + int(bool(c.get("fine")))
        for o_ in c["ops"]:
            if o_ in ("welzl", "cartavg", "normalize") or o_.startswith("set:"):
                k_ = o_.split(":")[0]
                dist.setdefault("mutator_ops", {})
                dist["mutator_ops"][k_] = dist["mutator_ops"].get(k_, 0) + 1
        for k in KINDS:
            if c["prov"][k] in ("ll", "both"):
                dist["lonmode"][c["lonmode"][k]] = dist["lonmode"].get(c["lonmode"][k], 0) + 1
        r = run_case(ck, c, model[idx], stats)
        if r and len(ck.cov["samples"]) < 4 and idx % 97 == 0:
            src, steps = r
            ck.sample({"prov": c["prov"], "scaled": c["scaled"], "lonmode": c["lonmode"], "special": c["special"],
                       "history": c["ops"] + c["tail"], "n_node": len(c["nodes"]), "n_face": len(c["faces"]),
                       "first_node": c["nodes"][0],
                       "model_state_after_last_op": model[idx][-1][:6] if model[idx] else None})
    audit_n = audit(ck, cases) if ok else 0
    dist["distinct_provenance_combinations"] = len(dist["prov"])
    ck.extra.update({
        "distribution": dist, "impl_vs_model": stats, "extraction_audit_cases": audit_n,
        "source_variant": dict(zip(FLAG_NAMES, flags)),
        "tolerances": {"direction_rad": 1e-9, "direction_in_snap_zone_rad": 1.5e-4, "unit_length": TOL_UNIT,
                       "model_vs_impl_values": 1e-9, "snap_zone": "|z| > 1-1e-8"},
        "clauses_checked_on_impl": ["finite", "shape", "lat_range", "lon_range", "direction", "unit_length",
                                    "getter_returns_stored", "group_incomplete", "normalize_unit",
                                    "normalize_direction", "normalize_changes_lonlat", "systems_agree (every step, every kind)",
                                    "setter_changes_values"],
        "partial": "float rounding is not modelled: the theorems are exact statements over R, the deviation of the "
                   "float implementation is validated with the tolerances above",
    })
    ck.trusted += ["numpy/xarray primitives as modelled (cos, sin, arctan2, arcsin, mod, mean, Dataset item "
                   "assignment, DataArray.data setter writing through to the Dataset variable)",
                   "mpmath (30-50 digits) for the oracle directions and for evaluating model expressions"]
    ck.assumptions += ["a source supplies a coordinate group completely (lon and lat, or x, y and z) and consistently "
                       "(both systems of one element kind denote the same point); supplied Cartesian vectors of one "
                       "kind share one positive length",
                       "face_node_connectivity / edge_node_connectivity are correct (C01, C02)"]


def audit(ck, cases):
    """the same symbolic model evaluated by the Coq kernel (vm_compute) on a sample"""
    import re
    sample = cases[:60]
    lines = []
    for c in sample:
        cc = [PROV_CODE[c["prov"][k]] for k in KINDS] + [1 if c["scaled"][k] else 0 for k in KINDS]
        ops = [op_code(n) for n in c["ops"] + c["tail"]]
        lines.append("Eval vm_compute in (c04_run_enc [%s]%%Z [%s]%%Z [%s]%%Z)." % (
            ";".join(map(str, REPO_FLAGS)), ";".join(map(str, cc)), ";".join(map(str, ops))))
    rc, out = ck.audit_vm(lines, "From Verif Require Import Base C04.\nOpen Scope Z_scope.")
    if rc != 0:
        ck.proof["errors"].append("in-kernel audit failed: " + out[-800:])
        return 0
    blocks = re.split(r"(?m)^\s*= ", out)[1:]
    ml = ck.run_model("c04", [model_line(c) for c in sample])
    n = 0
    for b, mo in zip(blocks, ml):
        body = b.split("\n     :")[0]
        nums = re.findall(r"-?\d+", body)
        flat = []

        def fl(v):
            if isinstance(v, list):
                for q in v:
                    fl(q)
            else:
                flat.append(str(v))
        fl(mo)
        if nums != flat:
            ck.proof["errors"].append("extraction audit mismatch: kernel %s vs extracted %s" % (nums[:30], flat[:30]))
        n += 1
    if len(blocks) != len(sample):
        ck.proof["errors"].append("extraction audit: %d answers for %d cases" % (len(blocks), len(sample)))
    return n


def replay(ck, rp):
    import warnings
    warnings.filterwarnings("ignore")
    case = rp["case"]
    case = {k: v for k, v in case.items() if k != "failing_step"}
    ck.note_case("replay")
    ck.note_case(json.dumps(case, sort_keys=True))
    ck.run_translators()
    ok = ck.build_driver()
    read_repo_flags(ck)
    ms = ck.run_model("c04", [model_line(case)])[0] if ok else None
    run_case(ck, case, ms, {})
