"""C01 — readers decode every supported format to the faces the source describes.

Proof: coq/Props/C01_props.v (about coq/Model/C01.v: one reader model per format + the encoders that
generate sources; `read_F (encode_F mesh dialect) = standard form of mesh` for every mesh, unbounded).
Tie: for every generated (mesh, format, dialect) the real reader runs on a real xarray.Dataset / dict /
array / file built by harness/c01_src.py, the extracted model runs on the integer image of the same
source, both are compared literally (tables, dtype flag, node order), and the property clauses are
evaluated directly on the Grid the implementation returns (`spec_check`).
"""
import json
import math
import os
import shutil
import sys
import warnings

import numpy as np

import common
import c01_src as S
from common import FILL, sx

TOL = 1e-9            # degrees (DESIGN appendix B)
SCR = os.path.join(common.VERIF, ".scratch", "agC01_%d" % os.getpid())
import atexit
atexit.register(lambda: shutil.rmtree(SCR, ignore_errors=True))

FILE_FORMATS = ("ugrid", "mpas", "scrip", "exodus", "esmf", "geos", "icon")
FORMATS = ["ugrid", "topo", "mpas", "scrip", "exodus", "esmf", "fv", "geos", "icon", "geo"]


# ---------------------------------------------------------------------------------------------
# the property clauses on the implementation's Grid

def pos_close(p, q, tol=TOL):
    if abs(p[1] - q[1]) > tol:
        return False
    if abs(abs(p[1]) - 90.0) <= tol:
        return True                      # at a pole the longitude is immaterial
    d = (p[0] - q[0]) % 360.0
    return min(d, 360.0 - d) <= tol


def ring_equal(got, want, ring_free=False, tol=TOL):
    """same corners in the same cyclic order (rotation allowed: the property fixes the cyclic order);
    ring_free additionally allows the reverse orientation (formats that describe a cell, not a ring)"""
    n = len(want)
    if len(got) != n:
        return False
    cands = [want]
    if ring_free:
        cands.append(list(reversed(want)))
    for w in cands:
        for s in range(n):
            if all(pos_close(got[j], w[(j + s) % n], tol) for j in range(n)):
                return True
    return False


def real_entries(row):
    return [int(x) for x in row if x != FILL]


def spec_check(ex, g):
    """all violated clauses of C01 on Grid g as a list of (clause, detail); [] when the property holds.
    Independent clauses (dtype, coordinate ranges) do not hide later ones.  ex: c01_src.Expect."""
    out = []
    fn = g.face_node_connectivity
    v = np.asarray(fn.values)
    if v.ndim != 2:
        return [("shape", "face_node_connectivity ndim %d" % v.ndim)]
    if g.n_face != len(ex.face_pos) or v.shape[0] != len(ex.face_pos):
        return [("n_face", "grid %d / table %d, source %d" % (g.n_face, v.shape[0], len(ex.face_pos)))]
    if v.dtype != np.intp:
        out.append(("dtype", str(v.dtype)))
    lon = np.asarray(g.node_lon.values, dtype=float)
    lat = np.asarray(g.node_lat.values, dtype=float)
    n_node = g.n_node
    if len(lon) != n_node or len(lat) != n_node:
        return out + [("n_node", "coords %d/%d vs n_node %d" % (len(lon), len(lat), n_node))]
    rows = [[int(x) for x in r] for r in v.tolist()]
    for f, r in enumerate(rows):
        k = len(real_entries(r))
        if any(x != FILL for x in r[k:]) or any(x == FILL for x in r[:k]):
            return out + [("padding_trailing", "face %d row %s" % (f, r))]
        if any(not (0 <= x < n_node) for x in r[:k]):
            return out + [("index_range", "face %d row %s n_node %d" % (f, r, n_node))]
    if np.isnan(lon).any() or np.isnan(lat).any():
        return out + [("coord_nan", "")]
    for nm, arr in (("node_lon", lon), ("node_lat", lat)):
        if nm in g._ds and not np.array_equal(np.asarray(g._ds[nm].values, dtype=float), arr):
            out.append(("ds_vs_property", "%s differs between Grid._ds and the property" % nm))
    if lon.min() < -180.0 or lon.max() > 180.0:
        out.append(("lon_range", "[%r, %r]" % (float(lon.min()), float(lon.max()))))
    if lat.min() < -90.0 or lat.max() > 90.0:
        out.append(("lat_range", "[%r, %r]" % (float(lat.min()), float(lat.max()))))
    ring_free = getattr(ex, "ring_free", False)
    tol = getattr(ex, "tol", TOL)
    for f, r in enumerate(rows):
        got = [(float(lon[i]), float(lat[i])) for i in real_entries(r)]
        want = ex.face_pos[f]
        if len(got) != len(want):
            out.append(("face_size", "face %d has %d corners, source %d" % (f, len(got), len(want))))
            break
        if not ring_equal(got, want, ring_free, tol):
            out.append(("face_corners", "face %d got %s want %s" % (f, got, want)))
            break
        gen = getattr(ex, "generated", None)
        if gen is not None and len(gen) == len(rows) and not ring_equal(got, gen[f], True, max(tol, 1e-6)):
            out.append(("face_corners_generated", "face %d got %s, polygon was generated at %s" % (f, got, gen[f])))
            break
    if ex.n_node is not None and n_node != ex.n_node:
        out.append(("n_node", "grid %d source %d" % (n_node, ex.n_node)))
    return out


def _aux_one(k, want, g):
    ds = g._ds
    nf, nn = g.n_face, g.n_node
    if k in ("edge_node", "face_edge", "edge_face", "node_face", "face_face"):
        name = k + "_connectivity"
        if name not in ds:
            return "aux_missing", name
        try:
            ne = g.n_edge
        except Exception as e:
            return "aux_dims", "%s supplied but n_edge unavailable: %r" % (name, e)
        got = np.asarray(getattr(g, name).values)
        if got.ndim != 2 or got.shape[0] != len(want):
            return "aux_shape", "%s shape %s, source rows %d" % (name, got.shape, len(want))
        bound = {"edge_node": nn, "face_edge": ne, "edge_face": nf, "node_face": nf, "face_face": nf}[k]
        for i, (gr, wr) in enumerate(zip(got.tolist(), want)):
            gs = sorted(int(x) for x in gr if x != FILL)
            ws = sorted(x for x in wr if x is not None)
            if any(not (0 <= x < bound) for x in gs):
                return "aux_index_range", "%s row %d = %s" % (name, i, gr)
            if gs != ws:
                return "aux_rows", "%s row %d = %s, source %s" % (name, i, gr, wr)
    elif k in ("face_coords", "edge_coords"):
        a, b = ("face_lon", "face_lat") if k == "face_coords" else ("edge_lon", "edge_lat")
        if a not in ds or b not in ds:
            return "aux_missing", a
        glon = np.asarray(getattr(g, a).values, dtype=float)
        glat = np.asarray(getattr(g, b).values, dtype=float)
        if len(glon) != len(want):
            return "aux_shape", "%s length %d source %d" % (a, len(glon), len(want))
        if glon.min() < -180.0 or glon.max() > 180.0:
            return "aux_lon_range", "%s [%r,%r]" % (a, float(glon.min()), float(glon.max()))
        for i, w in enumerate(want):
            if not pos_close((float(glon[i]), float(glat[i])), w):
                return "aux_coords", "%s[%d]=%r source %r" % (a, i, (float(glon[i]), float(glat[i])), w)
    elif k in ("node_xyz", "face_xyz", "edge_xyz"):
        pre = k.split("_")[0]
        if any(pre + "_" + ax not in ds for ax in "xyz"):
            return "aux_missing", pre + "_x"
        got = np.array([np.asarray(ds[pre + "_" + ax].values, dtype=float) for ax in "xyz"]).T
        w = np.asarray(want, dtype=float)
        if got.shape != w.shape:
            return "aux_shape", "%s_xyz shape %s source %s" % (pre, got.shape, w.shape)
        gn = got / np.linalg.norm(got, axis=1)[:, None]
        wn = w / np.linalg.norm(w, axis=1)[:, None]
        bad = np.where(np.abs(gn - wn).max(axis=1) > 1e-11)[0]
        if len(bad):
            return "aux_xyz", "%s_xyz[%d] = %s, source %s" % (pre, bad[0], got[bad[0]].tolist(), w[bad[0]].tolist())
    elif k == "areas":
        if "face_areas" not in ds:
            return "aux_missing", "face_areas"
        got = np.asarray(g.face_areas.values, dtype=float).tolist()
        if len(got) != len(want) or any(abs(x - y) > 1e-12 * abs(y) for x, y in zip(got, want)):
            return "aux_areas", "%s vs %s" % (got[:4], want[:4])
    elif k == "n_nodes_per_face":
        got = np.asarray(g.n_nodes_per_face.values).tolist()
        if got != want:
            return "aux_npf", "%s vs %s" % (got[:8], want[:8])
    elif k in ("edge_node_distances", "edge_face_distances"):
        if k not in ds:
            return "aux_missing", k
        got = np.asarray(ds[k].values, dtype=float).tolist()
        if got != want:
            return "aux_distances", k
    return None


def aux_check(ex, g):
    """explicitly supplied connectivity / centres / areas are carried with the same meaning.
    Rows are compared as the sets of elements they relate (order inside a row is not fixed by the
    property); faces, edges and nodes keep the source's numbering in every format that supplies such
    tables.  One (clause, detail, table) per supplied item that is not carried faithfully."""
    out = []
    for k, want in ex.aux.items():
        try:
            bad = _aux_one(k, want, g)
        except Exception as e:
            bad = ("aux_raises", "%s: %r" % (k, e))
        if bad:
            out.append((bad[0], bad[1], k))
    return out


# ---------------------------------------------------------------------------------------------
# running the real readers

def run_impl(fmt, src, d, tier_file=None, dual=None):
    """returns the Grid built by the real code"""
    import uxarray as ux
    if dual is not None:
        d = dict(d, dual=dual)
    if fmt in ("ugrid", "scrip", "exodus", "esmf", "geos", "icon"):
        if tier_file:
            return ux.open_grid(tier_file)
        return ux.Grid.from_dataset(src) if d.get("entry") == "from_dataset" else ux.open_grid(src)
    if fmt == "mpas":
        if tier_file:
            return ux.open_grid(tier_file, use_dual=d["dual"])
        if d.get("entry") == "from_dataset":
            return ux.Grid.from_dataset(src, use_dual=d["dual"])
        return ux.open_grid(src, use_dual=d["dual"])
    if fmt == "topo":
        kw = dict(src)                      # the caller's arrays themselves
        if d["entry"] == "open_grid_dict":
            return ux.open_grid(kw)
        return ux.Grid.from_topology(**kw)
    if fmt == "fv":
        if d["entry"] == "open_grid":
            return ux.open_grid(src, latlon=(d["coords"] == "lonlat"))
        return ux.Grid.from_face_vertices(src, latlon=(d["coords"] == "lonlat"))
    if fmt == "geo":
        return ux.Grid.from_file(src, backend="geopandas")
    if fmt == "exodus_fixture":
        return ux.open_grid(src)
    raise ValueError(fmt)


def build_case(c, rng):
    """c: {'fmt', 'dialect', 'mesh' (json) ...} -> (source, Expect, image)"""
    src, ex, image = _build_case(c, rng)
    if c["dialect"].get("shuffle") and c["fmt"] in FILE_FORMATS:
        src = S.shuffle_vars(src, rng)
    return src, ex, image


def _build_case(c, rng):
    fmt, d = c["fmt"], c["dialect"]
    am = S.AMesh.from_json(c["mesh"]) if c.get("mesh") else None
    if fmt == "ugrid":
        return S.build_ugrid(am, d, rng)
    if fmt == "topo":
        return S.build_topo(am, d, rng)
    if fmt == "mpas":
        return S.build_mpas(am, d, rng)
    if fmt == "scrip":
        return S.build_scrip(am, d, rng)
    if fmt == "exodus":
        return S.build_exodus(am, d, rng)
    if fmt == "exodus_fixture":
        return S.build_exodus_fixture(d, common.REPO)
    if fmt == "esmf":
        return S.build_esmf(am, d, rng)
    if fmt == "fv":
        return S.build_fv(am, d, rng)
    if fmt == "geos":
        return S.build_geos(d, rng)
    if fmt == "icon":
        return S.build_icon(am, d, rng)
    if fmt == "geo":
        os.makedirs(SCR, exist_ok=True)
        ext = ".geojson" if d["kind"] == "geojson" else ".shp"
        return S.build_geo(am, d, rng, os.path.join(SCR, "g%d%s" % (c.get("idx", 0), ext)))
    raise ValueError(fmt)


# ---------------------------------------------------------------------------------------------
# access histories: the clauses must hold whatever is read first, and supplied variables must survive
# the derivation of everything else

ORDERS = {
    0: ["node_lon", "node_lat"],
    1: ["node_lat", "node_lon"],
    2: ["face_lat", "face_lon", "edge_lat", "edge_lon", "node_lat", "node_lon"],
    3: ["n_edge", "edge_node_connectivity", "face_edge_connectivity", "node_face_connectivity", "face_face_connectivity",
        "n_nodes_per_face", "node_lat", "node_lon"],
    4: ["node_z", "node_y", "node_x", "face_x", "edge_x", "node_lat", "node_lon"],
    5: ["face_node_connectivity", "n_max_face_nodes", "node_z", "node_lat", "face_lat", "node_lon"],
    6: ["face_jacobian", "node_lat", "node_lon"],        # the jacobian is computed without storing face_areas
}

DERIVED = ["face_jacobian", "face_areas", "n_nodes_per_face", "n_edge", "edge_node_connectivity", "face_edge_connectivity",
           "edge_face_connectivity", "node_face_connectivity", "face_face_connectivity", "node_edge_connectivity",
           "node_lon", "node_lat", "node_x", "node_y", "node_z", "face_lon", "face_lat", "face_x", "face_y", "face_z",
           "edge_lon", "edge_lat", "edge_x", "edge_y", "edge_z", "edge_node_distances", "edge_face_distances",
           "hole_edge_indices", "antimeridian_face_indices", "face_jacobian"]


TIMES = {}


RD = {"node_lon": 0, "node_lat": 1, "face_areas": 2, "face_jacobian": 3}


def qs(vals):
    return [list(float(x).as_integer_ratio()) for x in vals]


def lazy_job(g, reads, derived_lon, areas0, lon0=None):
    """model of the lazy getters on the same read history: (line, payload)"""
    ds = g._ds
    got_lon = np.asarray(ds["node_lon"].values, dtype=float).tolist() if "node_lon" in ds else None
    got_areas = np.asarray(ds["face_areas"].values, dtype=float).tolist() if "face_areas" in ds else None
    line = sx([qs(derived_lon), qs([0.0]), ("N" if lon0 is None else qs(lon0)), ("N" if areas0 is None else qs(areas0)),
               [RD.get(n, 4) for n in reads]])
    return line, (got_lon, got_areas, areas0)


def compare_lazy(mo, payload):
    from fractions import Fraction
    got_lon, got_areas, areas0 = payload
    if isinstance(mo, list) and mo and mo[0] == "ERR":
        return "model error %s" % mo
    mlon, mar = mo
    if (mlon is None) != (got_lon is None):
        return "node_lon stored: model %s impl %s" % (mlon is not None, got_lon is not None)
    if mlon is not None:
        for (n, dd), x in zip(mlon, got_lon):
            df = abs(Fraction(n, dd) - Fraction(x))
            if min(df, abs(df - 360)) > Fraction(1, 10 ** 9) or not (-180.0 <= x <= 180.0):
                return "node_lon after the reads: model %s impl %r" % (float(Fraction(n, dd)), x)
    if areas0 is not None:
        if mar is None or got_areas is None or [float(Fraction(n, dd)) for n, dd in mar] != got_areas:
            return "supplied face_areas after the reads: model %s impl %s" % (str(mar)[:100], str(got_areas)[:100])
    elif (mar is None) != (got_areas is None):
        return "face_areas stored: model %s impl %s" % (mar is not None, got_areas is not None)
    return None


def touch(g, names):
    """read attributes in the given order; failures of derived quantities are other properties' business"""
    import time
    for nm in names:
        t0 = time.perf_counter()
        try:
            v = getattr(g, nm)
            if hasattr(v, "values"):
                v.values
        except Exception:
            pass
        TIMES[nm] = TIMES.get(nm, 0.0) + time.perf_counter() - t0


def derive_all(g, rng_key, thorough=False):
    names = list(DERIVED)
    if thorough and g.n_face <= 12 and rng_key % 4 == 0:
        names.append("bounds")          # slow (JIT compilation of the whole geometry module): thorough tier only
    if rng_key % 2:
        names.reverse()
    touch(g, names)


# ---------------------------------------------------------------------------------------------
# opening the same source object again: same answer, source untouched

def _arr_snap(v):
    a = np.array(v, copy=True)
    return (a, str(a.dtype), a.shape)


def snapshot(src):
    import xarray as xr
    if isinstance(src, xr.Dataset):
        return {"vars": {k: _arr_snap(v.values) + (tuple(v.dims), repr(sorted((str(a), repr(b)) for a, b in v.attrs.items())))
                         for k, v in src.variables.items()},
                "attrs": repr(sorted((str(a), repr(b)) for a, b in src.attrs.items()))}
    if isinstance(src, dict):
        return {"vars": {k: (_arr_snap(v) if isinstance(v, np.ndarray) else (repr(v),)) for k, v in src.items()}, "attrs": ""}
    if isinstance(src, np.ndarray):
        return {"vars": {"array": _arr_snap(src)}, "attrs": ""}
    return {"vars": {"object": (repr(src),)}, "attrs": ""}


def _same(a, b):
    if isinstance(a, np.ndarray):
        if a.shape != b.shape or a.dtype != b.dtype:
            return False
        if a.dtype.kind == "f":
            return bool(np.array_equal(a, b, equal_nan=True))
        return bool(np.array_equal(a, b))
    return a == b


def snapshot_diff(s0, s1):
    if sorted(s0["vars"]) != sorted(s1["vars"]):
        return "variables %s -> %s" % (sorted(s0["vars"]), sorted(s1["vars"]))
    for k in s0["vars"]:
        for x, y in zip(s0["vars"][k], s1["vars"][k]):
            if not _same(x, y):
                return "variable %s changed: %s -> %s" % (k, str(x)[:200], str(y)[:200])
    if s0["attrs"] != s1["attrs"]:
        return "global attributes changed"
    return None


FP_NAMES = ["face_node_connectivity", "node_lon", "node_lat", "node_x", "node_y", "node_z", "face_lon", "face_lat",
            "edge_lon", "edge_lat", "edge_node_connectivity", "face_edge_connectivity", "edge_face_connectivity",
            "node_face_connectivity", "face_face_connectivity", "face_areas", "n_nodes_per_face"]


def fingerprint(g):
    """what a freshly constructed Grid holds, before anything is derived"""
    return {k: _arr_snap(g._ds[k].values) for k in FP_NAMES if k in g._ds}


def fingerprint_diff(f1, f2):
    if sorted(f1) != sorted(f2):
        return "variables %s vs %s" % (sorted(f1), sorted(f2))
    for k in f1:
        for x, y in zip(f1[k], f2[k]):
            if not _same(x, y):
                return "%s: first %s second %s" % (k, str(x)[:200], str(y)[:200])
    return None


def mpas_expect_from_snapshot(snap, dual):
    """independent decoding of the MPAS tables as they were BEFORE any open: faces of the primal or dual mesh"""
    v = {k: t[0] for k, t in snap["vars"].items()}
    ex = S.Expect.__new__(S.Expect)
    ex.aux = {}
    if not dual:
        pos = list(zip(np.rad2deg(v["lonVertex"]).tolist(), np.rad2deg(v["latVertex"]).tolist()))
        ex.face_pos = [[pos[int(x) - 1] for x in row[:int(n)]] for row, n in zip(v["verticesOnCell"].tolist(), v["nEdgesOnCell"].tolist())]
        ex.n_node = len(pos)
    else:
        pos = list(zip(np.rad2deg(v["lonCell"]).tolist(), np.rad2deg(v["latCell"]).tolist()))
        ex.face_pos = [[pos[int(x) - 1] for x in row] for row in v["cellsOnVertex"].tolist()]
        ex.n_node = len(pos)
    return ex


# ---------------------------------------------------------------------------------------------
# input-class flags: facts about the *input* (format, dialect, mesh) that known findings are keyed on.

def input_flags(c, ex, image):
    fmt, d = c["fmt"], c["dialect"]
    fl = {"format": fmt}
    am = c.get("mesh")
    if fmt == "ugrid":
        # the one heuristic left in _standardize_connectivity: without a start_index attribute the index base
        # is guessed as the smallest real entry of each table; wrong when element 0 is not referenced by it
        def min_pos(rows):
            v = [x for r in rows for x in r if x is not None]
            return bool(v) and min(v) > 0
        fl["start_absent_elem0_unused"] = d["start"] is None and (
            min_pos(am["faces"]) or any(min_pos(rows) for k, rows in ex.aux.items() if k.endswith(("_node", "_edge", "_face"))))
        fl["edge_dim_renamed_only_via_edge_coords"] = (d["names"] and "edge_node" in ex.aux
                                                       and "edge_coords" not in ex.aux)
    elif fmt == "topo":
        fl["fill"] = str(d["fill"])
    elif fmt == "scrip":
        fl["padded"] = image["padded"]
    elif fmt == "exodus":
        fl["multi_block"] = image["n_blocks"] > 1
        fl["coordxyz"] = d["coord"] == "xyz"
    elif fmt == "exodus_fixture":
        fl["multi_block"] = image["n_blocks"] > 1
    elif fmt == "esmf":
        fl["start_index_attr"] = d["start"]
    elif fmt == "fv":
        fl["cartesian"] = d["coords"] == "xyz"
    elif fmt == "icon":
        fl["source_dtype"] = d["dtype"]
        fl["boundary"] = any(0 in r for r in image["nci"]) or any(0 in r for r in image["ace"])
    elif fmt == "geo":
        fl["multipolygon"] = any(k > 1 for k in ex.multi_parts)
    elif fmt == "mpas":
        fl["dual"] = d["dual"]
    return fl


def _has_fill(r, d):
    f = d.get("fill")
    if f in ("nan", "nan_attr"):
        return S.NAN in r
    if f == "std":
        return FILL in r
    if f == "none":
        return False
    return f in r


# ---------------------------------------------------------------------------------------------
# case generation (everything from ck.rng)

def _mk(fmt, d, am, kind):
    return {"fmt": fmt, "dialect": d, "mesh": am.to_json() if am is not None else None, "kind": kind}


def sweep_cases(rng, tier):
    """small scope x dialect sweep: every dialect axis of every format on hand-made meshes"""
    out = []
    tiny = S.tiny_meshes()
    by = {m.name: m for m in tiny}
    mixed = [by["quad+tri"], by["tri+quad"], by["octa+tri@am"]]
    unif = [by["single3"], by["single8"], by["polar-fan"], by["tetra"], by["cube"]]
    # UGRID: start x fill x dtype
    for am in mixed + unif:
        for start in (0, 1, None):
            for fill in S.UGRID_FILLS:
                if fill == "none" and not am.uniform():
                    continue
                if fill == 0 and start != 1:
                    continue
                dts = {"std": ["int64"], "nan": ["float64", "float32"], "nan_attr": ["float64"],
                       "none": ["int32", "int64", "uint32", "float64"], 999999: ["int32", "int64", "uint32", "float64"]}.get(
                    fill, ["int32", "int64", "float64", "int16"])
                if tier == "quick":
                    dts = [rng.choice(dts)]
                for dt in dts:
                    d = S.ugrid_dialect(rng, am, force={"start": start, "fill": fill, "dtype": dt})
                    if fill == "none":
                        d["extra_w"] = 0
                    out.append(_mk("ugrid", d, am, "sweep"))
    # explicit topology: start x fill x dtype
    for am in mixed + unif:
        for start in (0, 1):
            for fill in ["std", -1, 999999, "nan", 0, "none"]:
                if fill == "none" and not am.uniform():
                    continue
                if fill == 0 and start != 1:
                    continue
                dts = {"std": ["int64"], "nan": ["float64"], "none": ["int32", "int64"]}.get(fill, ["int32", "int64", "float64"])
                if tier == "quick":
                    dts = [rng.choice(dts)]
                for dt in dts:
                    d = S.topo_dialect(rng, am, force={"start": start, "fill": fill, "dtype": dt})
                    if fill == "none":
                        d["extra_w"] = 0
                    out.append(_mk("topo", d, am, "sweep"))
    # MPAS: padding x dtype x primal/dual
    for am in mixed + unif:
        for pad in ("zeros", "repeat_last", "junk"):
            for dt in ("int32", "int64"):
                for dual in (False, True):
                    if dual and not (am.closed and am.manifold()):
                        continue
                    out.append(_mk("mpas", S.mpas_dialect(rng, am, force={"pad": pad, "dtype": dt, "dual": dual}), am, "sweep"))
    # ESMF: start attr x storage x padding
    for am in mixed + unif[:3]:
        for start in (None, 1, 0):
            for store in ("int32", "masked", "int64"):
                for pad in ("fill", "junk"):
                    out.append(_mk("esmf", S.esmf_dialect(rng, am, force={"start": start, "store": store, "pad": pad}), am, "sweep"))
    # Exodus: coordinate variant x blocks x dtype
    for am in mixed + unif:
        for coord in ("coord", "xyz"):
            for blocks in ("single", "by_size"):
                if blocks == "by_size" and am.uniform():
                    continue
                for dt in ("int32", "int64"):
                    out.append(_mk("exodus", S.exodus_dialect(rng, am, force={"coord": coord, "blocks": blocks, "dtype": dt}), am, "sweep"))
    # Exodus: 1..14 element blocks in file order (several blocks of one face size), variables in any order
    import meshgen
    m20 = meshgen._poly("icosa")
    lon, lat = m20.lonlat()
    icosa = S.AMesh(m20.faces, lon, lat, m20.nodes, "icosa", True)
    pr = meshgen._poly("prism7")
    for _ in range(6):
        meshgen.subdivide_edge(pr, rng)
    lon, lat = pr.lonlat()
    prism = S.AMesh(pr.faces, lon, lat, pr.nodes, "prism7+", True)
    for am in (icosa, prism):
        for k in (1, 2, 5, 9, 10, 11, 12, 14):
            for dt in ("int32", "int64"):
                out.append(_mk("exodus", S.exodus_dialect(rng, am, force={"coord": "coord", "blocks": "runs", "n_blocks": k,
                                                                            "dtype": dt, "shuffle": k % 2 == 0}), am, "sweep"))
    # SCRIP (a corner listed twice at the start / in the middle of a row is a corner; only trailing repeats pad)
    for am in mixed + unif:
        for lon in ("180", "360"):
            for ew in (0, 1):
                for dup in (None, "start", "middle"):
                    out.append(_mk("scrip", S.scrip_dialect(rng, am, force={"lon": lon, "extra_w": ew, "dup": dup}), am, "sweep"))
    # face vertices
    for am in mixed + unif:
        for coords in ("lonlat", "xyz"):
            for cont in ("ndarray", "list", "tuple"):
                for entry in ("from_face_vertices", "open_grid"):
                    out.append(_mk("fv", S.fv_dialect(rng, am, force={"coords": coords, "container": cont, "entry": entry}), am, "sweep"))
    # Cartesian face vertices (lon/lat derived lazily) under every access order, corners at negative longitudes
    for am in (by["tetra"], by["cube"], by["polar-fan"], by["quad+tri"]):
        for o in range(len(ORDERS)):
            for entry in ("from_face_vertices", "open_grid"):
                c = _mk("fv", S.fv_dialect(rng, am, force={"coords": "xyz", "container": "ndarray", "entry": entry}), am, "sweep")
                c["order"] = o
                out.append(c)
    # MPAS with supplied areas / centres / distances under every access order
    for am in (by["cube"], by["quad+tri"]):
        for o in range(len(ORDERS)):
            for dual in (False, True):
                if dual and not am.closed:
                    continue
                c = _mk("mpas", S.mpas_dialect(rng, am, force={"dual": dual, "opt": True, "xyz": True}), am, "sweep")
                c["order"] = o
                out.append(c)
    # SCRIP grid_area / ESMF elementArea (present and absent) under every access order, everything derived after
    for am in (by["cube"], by["quad+tri"], by["octa+tri@am"]):
        for o in range(len(ORDERS)):
            c = _mk("scrip", S.scrip_dialect(rng, am, force={"extra_w": o % 2}), am, "sweep")
            c["order"] = o
            out.append(c)
            for areas in (True, False):
                c = _mk("esmf", S.esmf_dialect(rng, am, force={"areas": areas, "start": rng.choice([None, 0, 1])}), am, "sweep")
                c["order"] = o
                out.append(c)
    # corners NEAR the poles (0.02..1 degree) and AT them, above all for the formats that derive lon/lat from xyz
    for colat in (0.02, 0.1, 0.5, 1.0):
        for south in (False, True):
            for centre in (False, True):
                pm = S.polar_mesh(rng, colat=colat, south=south, centre=centre)
                out.append(_mk("exodus", S.exodus_dialect(rng, pm, force={"blocks": "runs"}), pm, "sweep"))
                for entry in ("from_face_vertices", "open_grid"):
                    c = _mk("fv", S.fv_dialect(rng, pm, force={"coords": "xyz", "container": "ndarray", "entry": entry}), pm, "sweep")
                    c["order"] = rng.randrange(len(ORDERS))
                    out.append(c)
                out.append(_mk("mpas", S.mpas_dialect(rng, pm, force={"dual": False, "xyz": True}), pm, "sweep"))
                out.append(_mk(rng.choice(["ugrid", "topo", "scrip", "esmf"]), None, pm, "sweep"))
                out[-1]["dialect"] = getattr(S, out[-1]["fmt"] + "_dialect")(rng, pm)
    # GeoJSON / shapefile in several CRSs: none, WGS84, NAD83 (geographic), web mercator and a UTM zone (projected)
    reg = [S.regional(by["quad+tri"], 13.0, 47.0, 2.0, 4.0), S.regional(by["cube"], 15.0, 50.0, 2.5, 8.0),
           S.regional(by["octa+tri@am"], 14.0, 40.0, 1.5, 3.0)]
    for am in reg:
        for kind, crss in (("geojson", (4326, 4269, 3857, 32633)), ("shp", (None, 4326, 4269, 3857, 32633))):
            for crs in crss:
                out.append(_mk("geo", S.geo_dialect(rng, am, force={"kind": kind, "crs": crs, "multi": rng.choice([0, 1])}), am, "sweep"))
    # GEOS-CS
    for nf in (1, 2, 6):
        for ny in (2, 3, 4):
            for nx in (2, 3, 5):
                out.append(_mk("geos", S.geos_dialect(rng, force={"nf": nf, "ny": ny, "nx": nx}), None, "sweep"))
    # GeoJSON
    for am in mixed + [by["polar-fan"], by["cube"]]:
        for multi in (0, 1, 2):
            out.append(_mk("geo", S.geo_dialect(rng, am, force={"multi": multi}), am, "sweep"))
    return out


WEIGHTS = [("ugrid", 5), ("topo", 3), ("mpas", 3), ("scrip", 2), ("exodus", 2), ("esmf", 2), ("fv", 2), ("geos", 1),
           ("icon", 2), ("geo", 1)]


def random_case(rng, big=False):
    fmt = rng.choices([w[0] for w in WEIGHTS], [w[1] for w in WEIGHTS])[0]
    ops = rng.choice([30, 60]) if big else 8
    if fmt == "geos":
        return _mk(fmt, S.geos_dialect(rng), None, "random")
    if fmt == "icon":
        am = S.gen_amesh(rng, max_ops=min(ops, 20), tri_only=True)
        return _mk(fmt, S.icon_dialect(rng, am), am, "random")
    if fmt == "mpas" and rng.random() < 0.5:
        am = S.gen_amesh(rng, max_ops=ops, closed_only=True)
    else:
        am = S.gen_amesh(rng, max_ops=ops)
    if fmt == "geo" and am.n_face > 40:
        am = S.gen_amesh(rng, max_ops=6)
    if fmt in ("exodus", "fv", "ugrid", "topo", "scrip", "esmf", "mpas") and rng.random() < 0.07:
        am = S.polar_mesh(rng)
    if fmt == "geo" and rng.random() < 0.35:
        am = S.regional(am, rng.uniform(12.5, 14.0), rng.uniform(35.0, 55.0), 2.0, rng.uniform(2.0, 8.0))
        d = S.geo_dialect(rng, am, force={"crs": rng.choice([4269, 3857, 32633])})
        return _mk(fmt, d, am, "random")
    if fmt in ("ugrid", "topo", "esmf", "exodus") and rng.random() < 0.06:
        am = S.add_orphan0(am)
    d = getattr(S, fmt + "_dialect")(rng, am)
    if fmt in ("ugrid", "scrip", "exodus", "esmf", "mpas", "icon"):
        d["entry"] = rng.choice(["open_grid", "from_dataset"])
    if fmt in FILE_FORMATS:
        d["shuffle"] = rng.random() < 0.5
    return _mk(fmt, d, am, "random")


def gen_cases(ck):
    rng = ck.rng
    cases = []
    cdir = os.path.join(common.VERIF, "corpus", "C01")
    if os.path.isdir(cdir):
        for fn in sorted(os.listdir(cdir)):
            c = json.load(open(os.path.join(cdir, fn)))
            c["kind"] = "corpus"
            cases.append(c)
    cases += sweep_cases(rng, ck.tier)
    n_rand = 2000 if ck.tier == "quick" else 24000
    for i in range(n_rand):
        cases.append(random_case(rng, big=(ck.tier == "thorough" and i % 40 == 0)))
    if ck.tier == "thorough":
        extra = []
        for c in cases:
            if c["fmt"] in FILE_FORMATS and (c["kind"] == "sweep" or rng.random() < 0.2):
                c2 = dict(c)
                c2["dialect"] = dict(c["dialect"])
                c2["via_file"] = True
                c2["kind"] = c["kind"] + "+file"
                extra.append(c2)
        cases += extra
        # shapefiles (written by geopandas, decoded independently through pyogrio)
        for i in range(150):
            am = S.gen_amesh(rng, max_ops=6)
            cases.append(_mk("geo", S.geo_dialect(rng, am, force={"kind": "shp"}), am, "random+shp"))
    for i, c in enumerate(cases):
        c["idx"] = i
    return cases


# ---------------------------------------------------------------------------------------------
# model side: one OCaml command per reader; results compared literally with the implementation

def _o(x):
    return "N" if x is None else x


def _fv_token(d, dtype_key="dtype"):
    f = d["fill"]
    if f in ("nan_attr",):
        return S.NAN
    if f in ("nan", "none"):
        return None
    return FILL if f == "std" else f


class Tok:
    """order-preserving integer tokens for float coordinates (one pool for all coordinate values)"""

    def __init__(self, values):
        self.vals = sorted({float(v) for v in values if float(v) != float(FILL)})
        self.rank = {v: i for i, v in enumerate(self.vals)}

    def t(self, v):
        v = float(v)
        return FILL if v == float(FILL) else self.rank[v]

    def f(self, k):
        return float(FILL) if k == FILL else self.vals[k]


def model_jobs(c, src, ex, image, g):
    """list of (command, input line, comparison function name, payload) for this case"""
    fmt, d = c["fmt"], c["dialect"]
    jobs = []
    ds = g._ds if g is not None else None

    def impl_table(name):
        if ds is None or name not in ds:
            return None
        return [[int(x) for x in r] for r in np.asarray(ds[name].values).tolist()]

    def impl_dtype_std(name):
        return bool(ds is not None and name in ds and ds[name].dtype == np.intp)

    AUXN = {"edge_node": "edge_node_connectivity", "face_edge": "face_edge_connectivity", "edge_face": "edge_face_connectivity",
            "node_face": "node_face_connectivity", "face_face": "face_face_connectivity"}
    if fmt == "ugrid":
        std = d["dtype"] == "int64"
        fv = _fv_token(d)
        for key, t in [("fn", image["fn"])] + sorted(image["aux"].items()):
            name = "face_node_connectivity" if key == "fn" else AUXN[key]
            jobs.append(("ugrid", sx([std, _o(fv), _o(d["start"]), t]), "table0", (name, impl_table(name))))
    elif fmt == "topo":
        std = d["dtype"] == "int64"
        fv = _fv_token(d)
        if d["fill"] == "nan":
            fv = S.NAN
        for key, t in [("fn", image["fn"])] + sorted(image["aux"].items()):
            name = "face_node_connectivity" if key == "fn" else AUXN[key]
            jobs.append(("topo", sx([std, _o(fv), d["start"], t]), "table_flag",
                         (name, impl_table(name), impl_dtype_std(name))))
    elif fmt == "mpas":
        prim = not d["dual"]
        jobs.append(("mpas_padded", sx([image["vOnC"], image["nE"]]), "table",
                     ("face_node_connectivity" if prim else "node_face_connectivity",
                      impl_table("face_node_connectivity" if prim else "node_face_connectivity"))))
        jobs.append(("mpas_plain", sx([image["cOnV"]]), "table",
                     ("node_face_connectivity" if prim else "face_node_connectivity",
                      impl_table("node_face_connectivity" if prim else "face_node_connectivity"))))
        a = image["aux"]
        if a:
            jobs.append(("mpas_plain", sx([a["vOnE"]]), "table",
                         ("edge_node_connectivity" if prim else "edge_face_connectivity",
                          impl_table("edge_node_connectivity" if prim else "edge_face_connectivity"))))
            jobs.append(("mpas_plain", sx([a["cOnE"]]), "table",
                         ("edge_face_connectivity" if prim else "edge_node_connectivity",
                          impl_table("edge_face_connectivity" if prim else "edge_node_connectivity"))))
            if prim:
                jobs.append(("mpas_padded", sx([a["eOnC"], image["nE"]]), "table", ("face_edge_connectivity", impl_table("face_edge_connectivity"))))
                jobs.append(("mpas_padded", sx([a["cOnC"], image["nE"]]), "table", ("face_face_connectivity", impl_table("face_face_connectivity"))))
            else:
                jobs.append(("mpas_plain", sx([a["eOnV"]]), "table", ("face_edge_connectivity", impl_table("face_edge_connectivity"))))
    elif fmt in ("scrip", "fv"):
        if fmt == "scrip":
            rows = [list(zip(a, b)) for a, b in zip(image["clon"], image["clat"])]
            w = len(rows[0])
        else:
            if image["k"] == 3:
                return jobs             # Cartesian triples: clauses only (the pair model does not apply)
            P, w = image["P"], image["w"]
            rows = [[P[v] for v in f] + [(float(FILL), float(FILL))] * (w - len(f)) for f in image["faces"]]
        tk = Tok([v for r in rows for p in r for v in p])
        line = sx([w, [[[tk.t(p[0]), tk.t(p[1])] for p in r] for r in rows]])
        nodes = None
        if g is not None:
            nodes = list(zip(np.asarray(ds["node_lon"].values, dtype=float).tolist(), np.asarray(ds["node_lat"].values, dtype=float).tolist()))
        jobs.append((fmt, line, "nodes_table", (tk, nodes, impl_table("face_node_connectivity"))))
    elif fmt in ("exodus", "exodus_fixture"):
        w = max(len(b[0]) for b in image["blocks"])
        jobs.append(("exodus", sx([True, image["blocks"], w]), "table0",
                     ("face_node_connectivity", impl_table("face_node_connectivity"))))
        if g is not None and fmt == "exodus":
            am = S.AMesh.from_json(c["mesh"])
            srcs = [[p[k] for p in am.xyz] for k in range(3)]
            got = [np.asarray(ds[v].values, dtype=float).tolist() for v in ("node_x", "node_y", "node_z")]
            sel = []
            for arr in got:
                sel.append([k for k in range(3) if arr == srcs[k]])
            jobs.append(("exodus_coords", sx([d["coord"] == "coord", [0] * 1, [1] * 1, [2] * 1]), "exo_coords", sel))
    elif fmt == "esmf":
        jobs.append(("esmf", sx([_o(image["start"]), image["conn"], image["n"]]), "table0",
                     ("face_node_connectivity", impl_table("face_node_connectivity"))))
    elif fmt == "geos":
        jobs.append(("geos", sx([image["nf"], image["n1"], image["n2"]]), "table",
                     ("face_node_connectivity", impl_table("face_node_connectivity"))))
    elif fmt == "icon":
        ncell = len(image["voc"][0])
        nedge = len(image["ev"][0])
        for key, name, n in (("voc", "face_node_connectivity", ncell), ("eoc", "face_edge_connectivity", ncell),
                             ("nci", "face_face_connectivity", ncell), ("ace", "edge_face_connectivity", nedge),
                             ("ev", "edge_node_connectivity", nedge)):
            jobs.append(("icon", sx([n, image[key], image["std_dtype"]]), "table_flag",
                         (name, impl_table(name), impl_dtype_std(name))))
    elif fmt == "geo":
        feats = []
        pos = iter(ex.face_pos)
        allv = [v for r in ex.face_pos for p in r for v in p]
        tk = Tok(allv)
        for parts in image["features"]:
            feats.append([[[tk.t(p[0]), tk.t(p[1])] for p in next(pos)] for _ in parts])
        w = max(len(r) for r in ex.face_pos)
        lon = lat = None
        if g is not None:
            lon = np.asarray(ds["node_lon"].values, dtype=float).tolist()
            lat = np.asarray(ds["node_lat"].values, dtype=float).tolist()
        jobs.append(("geo", sx([w, feats]), "geo", (tk, lon, lat, impl_table("face_node_connectivity"), getattr(ex, "tol", TOL))))
    # ---- certified reading of the implementation's own table: faces_of(impl table) = the source's faces, and the
    #      boolean well-formedness predicate of the theorems holds for the generated mesh
    ids = getattr(ex, "face_ids", None)
    it = impl_table("face_node_connectivity")
    if ids is not None and it is not None and fmt in ("ugrid", "topo", "mpas", "esmf", "exodus", "icon") and not c.get("_spec_failed"):
        n_node = int(ex.n_node) if ex.n_node is not None else 1 + max(x for f in ids for x in f)
        jobs.append(("faces_of", sx([n_node, len(it[0]), it, ids]), "faces_of", ids))
    # ---- the model's encoders against the arrays the harness builders wrote
    if fmt == "mpas" and d["pad"] in ("zeros", "repeat_last"):
        am = c["mesh"]
        jobs.append(("mpas_encode", sx([d["pad"] == "zeros", len(image["vOnC"][0]), am["faces"]]), "same", ("verticesOnCell", image["vOnC"])))
    if fmt == "esmf" and d["pad"] == "fill":
        am = c["mesh"]
        start = 1 if d["start"] is None else d["start"]
        conn = [[-1 if x == S.NAN else x for x in r] for r in image["conn"]]
        jobs.append(("esmf_encode", sx([start, len(conn[0]), am["faces"]]), "same", ("elementConn", conn)))
    if fmt == "scrip":
        am = S.AMesh.from_json(c["mesh"])
        rows = [list(zip(a, b)) for a, b in zip(image["clon"], image["clat"])]
        tk2 = Tok([v for r in rows for p in r for v in p])
        lonc = S.lon_conv(am.lon, d["lon"])
        faces_tok = [[[tk2.t(lonc[v]), tk2.t(am.lat[v])] for v in f] for f in image["faces"]]
        jobs.append(("scrip_encode", sx([len(rows[0]), faces_tok]), "same",
                     ("grid_corner_lon/lat", [[[tk2.t(p[0]), tk2.t(p[1])] for p in r] for r in rows])))
    if fmt == "ugrid" and g is not None:
        if "edge_node" in ex.aux and d["names"] and "edge_node_connectivity" in ds:
            # source with its own dimension names: which of them were renamed to the UGRID names
            jobs.append(("ugrid_dims", sx([d["dims_attr"], d["dims_attr"], d["dims_attr"], "edge_coords" in ex.aux]), "dims",
                         [ds["node_lon"].dims[0] == "n_node", ds["face_node_connectivity"].dims[0] == "n_face",
                          ds["edge_node_connectivity"].dims[0] == "n_edge"]))
    return jobs


def compare(kind, mo, payload):
    """None when model and implementation agree, else a description"""
    if isinstance(mo, list) and mo and mo[0] == "ERR":
        return "model error %s" % mo
    if kind in ("table", "table0"):
        name, it = payload
        mt = mo[0] if kind == "table0" else mo
        if it is None:
            return "%s missing in implementation" % name
        if it != mt:
            return "%s: impl %s model %s" % (name, str(it)[:300], str(mt)[:300])
    elif kind == "table_flag":
        name, it, fl = payload
        if it is None:
            return "%s missing in implementation" % name
        if it != mo[0]:
            return "%s: impl %s model %s" % (name, str(it)[:300], str(mo[0])[:300])
        if bool(mo[1]) != fl:
            return "%s: dtype standard impl %s model %s" % (name, fl, mo[1])
    elif kind == "nodes_table":
        tk, nodes, it = payload
        if it is None or nodes is None:
            return "no implementation result"
        mn = [(tk.f(a), tk.f(b)) for a, b in mo[0]]
        if len(mn) != len(nodes) or any(not pos_close(p, q) for p, q in zip(nodes, mn)):
            return "nodes: impl %s model %s" % (str(nodes)[:300], str(mn)[:300])
        if it != mo[1]:
            return "table: impl %s model %s" % (str(it)[:300], str(mo[1])[:300])
    elif kind == "geo":
        tk, lon, lat, it, tol = payload
        if it is None:
            return "no implementation result"
        ml = [tk.f(a) for a in mo[0]]
        mb = [tk.f(a) for a in mo[1]]
        if tol > TOL:        # projected source: the reader's to_crs against the harness's own inverse projection
            same = len(ml) == len(lon) and all(abs(a - b) <= tol for a, b in zip(ml + mb, lon + lat))
        else:
            same = ml == lon and mb == lat
        if not same:
            return "node lists: impl %s / %s model %s / %s" % (str(lon)[:200], str(lat)[:200], str(ml)[:200], str(mb)[:200])
        if it != mo[2]:
            return "table: impl %s model %s" % (str(it)[:300], str(mo[2])[:300])
    elif kind == "faces_of":
        if mo[0] != payload:
            return "faces_of(implementation table) %s, source faces %s" % (str(mo[0])[:300], str(payload)[:300])
        if mo[1] != 1:
            return "generated mesh does not satisfy c01_wf_facesb"
    elif kind == "same":
        name, want = payload
        if mo != want:
            return "model encoder vs harness builder (%s): %s vs %s" % (name, str(mo)[:300], str(want)[:300])
    elif kind == "dims":
        if [bool(x) for x in mo] != payload:
            return "dimension renaming: model %s implementation %s" % (mo, payload)
    elif kind == "exo_coords":
        want = [[x[0]] for x in mo]           # which source axis the model reads for x, y, z
        for ax, (sel, w) in enumerate(zip(payload, want)):
            if w[0] not in sel:
                return "node_%s read from source axis %s, model says %s" % ("xyz"[ax], sel, w)
    return None


def wrap_jobs(c, src, ex, g):
    """longitude wrap: the Q model on the exact rational image of the source longitudes"""
    fmt, d = c["fmt"], c["dialect"]
    pairs = []
    try:
        if fmt == "ugrid":
            top = [v for v in src.data_vars if src[v].attrs.get("cf_role") == "mesh_topology"][0]
            pairs.append((src[src[top].attrs["node_coordinates"].split()[0]].values, "node_lon"))
        elif fmt == "topo":
            pairs.append((src["node_lon"], "node_lon"))
            if "face_lon" in src:
                pairs.append((src["face_lon"], "face_lon"))
        elif fmt == "mpas":
            a, b = ("lonVertex", "lonCell") if not d["dual"] else ("lonCell", "lonVertex")
            pairs.append((np.rad2deg(src[a].values), "node_lon"))
            pairs.append((np.rad2deg(src[b].values), "face_lon"))
        elif fmt == "esmf":
            pairs.append((src["nodeCoords"].values[:, 0], "node_lon"))
            if "centerCoords" in src:
                pairs.append((src["centerCoords"].values[:, 0], "face_lon"))
        elif fmt == "geos":
            pairs.append((src["corner_lons"].values.ravel(), "node_lon"))
        elif fmt == "scrip":
            pairs.append((src["grid_center_lon"].values, "face_lon"))
    except Exception:
        return []
    out = []
    for arr, name in pairs:
        arr = [float(x) for x in np.asarray(arr, dtype=float).tolist()]
        if g is None or name not in g._ds:
            continue
        got = np.asarray(g._ds[name].values, dtype=float).tolist()
        line = sx([list(float(x).as_integer_ratio()) for x in arr])
        out.append(("wrap", line, (name, got)))
    return out


def compare_wrap(mo, payload):
    from fractions import Fraction
    name, got = payload
    if isinstance(mo, list) and mo and mo[0] == "ERR":
        return "model error %s" % mo
    if len(mo) != len(got):
        return "%s length" % name
    for (n, dd), x in zip(mo, got):
        df = abs(Fraction(n, dd) - Fraction(x))
        if min(df, abs(df - 360)) > Fraction(1, 10 ** 9):        # equal as directions (float rounding at the +-180 seam)
            return "%s: model %s impl %r" % (name, float(Fraction(n, dd)), x)
    return None


SNIFF = {"exodus": 0, "scrip": 1, "ugrid": 2, "mpas": 3, "esmf": 4, "geos": 5, "icon": 6}


def sniff_keys(ds):
    from uxarray.io._ugrid import _is_ugrid
    return [("coord" in ds), ("coordx" in ds), ("grid_center_lon" in ds), bool(_is_ugrid(ds)), ("verticesOnCell" in ds),
            ("maxNodePElement" in ds.dims), all(k in ds.sizes for k in ["nf", "YCdim", "XCdim"]), ("vertex_of_cell" in ds)]


# ---------------------------------------------------------------------------------------------

def run_case(ck, c, stats, collect):
    """build the source, run the real reader, evaluate the clauses, queue the model jobs"""
    import io
    import contextlib
    fmt, d = c["fmt"], c["dialect"]
    seed = ck.rng.randrange(1 << 30) if "seed" not in c else c["seed"]
    c["seed"] = seed
    import random
    rng = random.Random(seed)
    src, ex, image = build_case(c, rng)
    path = None
    if c.get("via_file") and fmt in FILE_FORMATS:
        # thorough tier: the same source written as NetCDF and reopened by ux.open_grid(path)
        os.makedirs(SCR, exist_ok=True)
        path = os.path.join(SCR, "s%d.nc" % c.get("idx", 0))
        try:
            with warnings.catch_warnings():
                warnings.simplefilter("ignore")
                src.to_netcdf(path)
        except Exception as e:
            stats["file_write_skipped"] = stats.get("file_write_skipped", 0) + 1
            path = None
            c["via_file"] = False
    else:
        c["via_file"] = False
    fl = input_flags(c, ex, image)
    case = {"fmt": fmt, "dialect": d, "mesh": c.get("mesh"), "seed": seed, "idx": c.get("idx", 0),
            "via_file": bool(c.get("via_file"))}
    if "order" in c:
        case["order"] = c["order"]
    if path:
        stats["via_file"] = stats.get("via_file", 0) + 1
        collect = None                       # the model is tied on the in-memory image; files add the I/O layer
    g = None
    fails = []
    repeat = path is None and fmt not in ("geo", "exodus_fixture")
    snap0 = snapshot(src) if repeat else None
    fp1 = None
    lazy = []
    try:
        with contextlib.redirect_stdout(io.StringIO()), warnings.catch_warnings():
            warnings.simplefilter("ignore")
            g = run_impl(fmt, src, d, path)
            fp1 = fingerprint(g)
            order = c.get("order", c.get("idx", 0) % len(ORDERS))
            case["order"] = order
            touch(g, ORDERS[order])          # which attribute is read first is part of the quantifier
            if collect is not None and fmt in ("mpas", "scrip", "esmf", "ugrid", "geos") and "node_lon" in fp1:
                lazy.append(lazy_job(g, ORDERS[order], [], ex.aux.get("areas"), lon0=fp1["node_lon"][0].tolist()))
            if collect is not None and fmt == "fv" and d["coords"] == "xyz" and all(k in g._ds for k in ("node_x", "node_y", "node_z")):
                xs, ys, zs = (np.asarray(g._ds[k].values, dtype=float) for k in ("node_x", "node_y", "node_z"))
                nr = np.sqrt(xs * xs + ys * ys + zs * zs)
                dl = [0.0 if abs(z / n) > 1.0 - 1e-8 else math.degrees(math.atan2(y, x)) % 360.0
                      for x, y, z, n in zip(xs.tolist(), ys.tolist(), zs.tolist(), nr.tolist())]
                lazy.append(lazy_job(g, ORDERS[order], dl, None))
            fails = spec_check(ex, g)
            structural = any(cl in ("shape", "n_face", "n_node") for cl, _ in fails)
            seen = {cl for cl, _ in fails}
            if not structural:
                for cl, det, k in aux_check(ex, g):
                    fails.append((cl, "%s: %s" % (k, det)))
                    seen.add(("aux", k))
                # everything else the grid can derive is read, then the clauses and every supplied variable are
                # compared with the source again: only failures that were not there before are reported here
                if ("order" in c or c.get("kind") in ("corpus", "replay") or seed % 5 == 0 or (fmt == "mpas" and seed % 2 == 0)
                        or ck.tier == "thorough" and c.get("kind") == "sweep"):
                    derive_all(g, seed, ck.tier == "thorough")
                    stats["derived_all"] = stats.get("derived_all", 0) + 1
                    if collect is not None and fmt in ("mpas", "scrip", "esmf") and "node_lon" in fp1:
                        # longitudes come from the source here: they must stay what the freshly built grid held;
                        # supplied areas stay, absent ones are derived by the first face_areas / face_jacobian read
                        lazy.append(lazy_job(g, ORDERS[order] + DERIVED, [], ex.aux.get("areas"), lon0=fp1["node_lon"][0].tolist()))
                    for cl, det in spec_check(ex, g):
                        if cl not in seen:
                            fails.append(("after_reads_" + cl, det))
                    for cl, det, k in aux_check(ex, g):
                        if ("aux", k) not in seen:        # items already wrong before are not reported twice
                            fails.append(("after_reads_" + cl, "%s: %s" % (k, det)))
    except Exception as e:
        import traceback
        fails.append(("raises", repr(e)[:300] + " @ " + traceback.format_exc()[-400:]))
    if repeat and fp1 is not None:
        # the SAME source object again: same answer; MPAS additionally in the other (primal/dual) mode;
        # afterwards the source is bit-identical to what was handed in
        try:
            with contextlib.redirect_stdout(io.StringIO()), warnings.catch_warnings():
                warnings.simplefilter("ignore")
                g2 = run_impl(fmt, src, d, None)
                bad = fingerprint_diff(fp1, fingerprint(g2))
                if bad:
                    fails.append(("second_open_differs", bad))
                if fmt == "mpas":
                    other = not d["dual"]
                    cov = snap0["vars"]["cellsOnVertex"][0]
                    if not other or (cov != 0).all():
                        ex3 = mpas_expect_from_snapshot(snap0, other)
                        g3 = run_impl(fmt, src, d, None, dual=other)
                        for cl, det in spec_check(ex3, g3):
                            fails.append(("other_mode_" + cl, "opened %s after %s: %s" % (
                                "dual" if other else "primal", "primal" if other else "dual", det)))
                stats["reopened"] = stats.get("reopened", 0) + 1
        except Exception as e:
            import traceback
            fails.append(("second_open_raises", repr(e)[:300] + " @ " + traceback.format_exc()[-400:]))
        bad = snapshot_diff(snap0, snapshot(src))
        if bad:
            fails.append(("source_mutated", bad))
    for cl, det in fails:
        ck.fail(cl, case, fl, detail=det)
        stats["fail"][(fmt, cl)] = stats["fail"].get((fmt, cl), 0) + 1
    if not fails:
        stats["ok"][fmt] = stats["ok"].get(fmt, 0) + 1
    if collect is not None:
        c["_spec_failed"] = bool(fails)
        try:
            for lz in (lazy if fp1 is not None else []):
                collect.setdefault("lazy", []).append((lz[0], "lazy", lz[1], case))
            for cmd, line, kind, payload in model_jobs(c, src, ex, image, g):
                collect.setdefault(cmd, []).append((line, kind, payload, case))
            for cmd, line, payload in wrap_jobs(c, src, ex, g):
                collect.setdefault(cmd, []).append((line, "wrap", payload, case))
            if fmt in SNIFF and src is not None:
                from uxarray.io.utils import _parse_grid_type
                collect.setdefault("sniff", []).append((sx(sniff_keys(src)), "sniff", (SNIFF[fmt], _parse_grid_type(src)), case))
        except Exception as e:
            import traceback
            ck.corr_failures.append({"case": case, "error": "model job construction: " + traceback.format_exc()[-600:]})
    if fmt == "exodus_fixture":
        src = None                           # a file of the repository: never removed
    for pth in ([src] if fmt == "geo" else []) + ([path] if path else []):
        try:
            os.remove(pth)
        except OSError:
            pass
    return fails, ex, image, g


SNIFF_NAME = {0: "Exodus", 1: "Scrip", 2: "UGRID", 3: "MPAS", 4: "ESMF", 5: "GEOS-CS", 6: "ICON"}


def main(ck):
    ck.check_props()
    ok = ck.build_driver()
    cases = gen_cases(ck)
    ck.cov["rule"] = ("corpus + dialect sweep (every dialect axis of every format: start_index 0/1/absent, fill "
                      "std/int/NaN/NaN-attr/absent/0, int16..int64/uint32/float storage, renamed variables and "
                      "dimensions, 0..360 / -180..180 longitudes, Exodus one/several blocks and coord/coordx, ESMF "
                      "start_index attr, MPAS zero/repeat/junk padding primal+dual, SCRIP repeated-corner padding, "
                      "containers and entry points) on hand-made meshes (single 3..8-gons, mixed rows with 0/1/many "
                      "padding cells, polar fan, antimeridian, tetrahedron n_node=n_face) + random sphere tilings "
                      "(9 seed polyhedra, split/subdivide/stellate/dual, partial, renumbered, rotated, nodes on poles "
                      "and on lon=180/0, 6 % with an unreferenced node 0) x random dialect; thorough: + the same sources through "
                      "NetCDF files and shapefiles; non-trivial = at least two faces (or a GEOS-CS lattice); distinct = "
                      "distinct (format, dialect, mesh, in-memory/file)")
    stats = {"ok": {}, "fail": {}}
    collect = {} if ok else None
    hist = {}
    sizes = {}
    for c in cases:
        hist[(c["fmt"], c["kind"])] = hist.get((c["fmt"], c["kind"]), 0) + 1
        key = (c["fmt"], json.dumps(c["dialect"], sort_keys=True, default=str), json.dumps(c["mesh"], sort_keys=True) if c["mesh"] else "")
        nontrivial = c["mesh"] is None or len(c["mesh"]["faces"]) >= 2
        ck.note_case(key + (bool(c.get("via_file")),), nontrivial)
        if c.get("mesh"):
            for f in c["mesh"]["faces"]:
                sizes[len(f)] = sizes.get(len(f), 0) + 1
        fails, ex, image, g = run_case(ck, c, stats, collect)
        if len(ck.cov["samples"]) < 4 and c["kind"] == "random":
            ck.sample({"format": c["fmt"], "dialect": c["dialect"], "n_face": len(ex.face_pos),
                       "first_face_source": [list(p) for p in ex.face_pos[0]],
                       "impl_row0": (np.asarray(g.face_node_connectivity.values)[0].tolist() if g is not None else None),
                       "violated": [f[0] for f in fails]})
    n_cmp = 0
    if collect:
        for cmd, items in collect.items():
            res = ck.run_model(cmd, [it[0] for it in items])
            if len(res) != len(items):
                ck.corr_failures.append({"cmd": cmd, "error": "model returned %d results for %d cases" % (len(res), len(items))})
                continue
            for mo, (line, kind, payload, case) in zip(res, items):
                n_cmp += 1
                if kind == "wrap":
                    bad = compare_wrap(mo, payload)
                elif kind == "lazy":
                    bad = compare_lazy(mo, payload)
                elif kind == "sniff":
                    want, got = payload
                    bad = None
                    if mo != want or SNIFF_NAME.get(mo) != got:
                        bad = "sniff: model %s, source format %s, implementation %s" % (mo, want, got)
                else:
                    bad = compare(kind, mo, payload)
                if bad:
                    ck.corr_failures.append({"cmd": cmd, "case": case, "diff": bad})
    audit_n = audit(ck, collect) if collect else 0
    if os.environ.get("C01_DEBUG"):
        sys.stderr.write("TIMES " + json.dumps({k: round(v, 1) for k, v in sorted(TIMES.items(), key=lambda kv: -kv[1])[:12]}) + "\n")
        for cf in ck.corr_failures[:12]:
            sys.stderr.write("CORR " + json.dumps({k: (v if k != "case" else {"fmt": v["fmt"], "dialect": v["dialect"], "idx": v["idx"]})
                                                   for k, v in cf.items()}, default=str)[:1500] + "\n")
    ck.extra.update({
        "case_kinds": {"%s/%s" % k: v for k, v in sorted(hist.items())},
        "face_size_histogram": {str(k): v for k, v in sorted(sizes.items())},
        "impl_ok_by_format": stats["ok"],
        "impl_clause_failures_by_format (all matched by known findings unless a VIOLATION is printed)":
            {"%s/%s" % k: v for k, v in sorted(stats["fail"].items())},
        "model_comparisons": n_cmp, "extraction_audit_cases": audit_n,
        "sources_opened_again (same object, same result, source untouched; MPAS also primal<->dual)": stats.get("reopened", 0),
        "cases_through_netcdf_file": stats.get("via_file", 0), "file_write_skipped": stats.get("file_write_skipped", 0),
        "grids_with_everything_derived_then_rechecked": stats.get("derived_all", 0),
        "tolerance_deg": TOL, "access_orders": {str(k): v for k, v in ORDERS.items()},
        "clauses_checked_on_impl": ["n_face", "dtype", "padding_trailing", "index_range", "lon_range", "lat_range",
                                    "face_size", "face_corners (cyclic order, rotation free)", "n_node", "aux_rows",
                                    "aux_index_range", "aux_coords", "aux_lon_range", "aux_areas", "aux_npf", "aux_dims",
                                    "aux_missing", "aux_distances", "aux_xyz", "ds_vs_property", "raises",
                                    "face_corners_generated (GeoJSON/shapefile: decoded corners = the lon/lat the polygons were "
                                    "generated at, 1e-6 deg through a projected CRS)",
                                    "after_reads_<clause> (every clause again after all derivable attributes were read)",
                                    "second_open_differs", "second_open_raises",
                                    "other_mode_<clause> (MPAS primal after dual / dual after primal on one dataset)",
                                    "source_mutated"],
        "partial": "geopandas/shapely/pyogrio/netCDF/xarray I/O layers are external (oracle); float conversion "
                   "(rad2deg, xyz->lonlat) validated within 1e-9 deg, not proved; NaN->int cast modelled as the x86-64 result",
    })
    ck.trusted += ["numpy primitives modelled by documented semantics: unique(axis=0, return_index/inverse), reshape, "
                   "slicing, column_stack, astype (NaN -> INT64_MIN on x86-64), int64 wrap-around, fancy assignment",
                   "xarray Dataset construction/renaming, geopandas.read_file, json (independent decoding of GeoJSON), "
                   "pyogrio raw reader (independent decoding of shapefiles), netCDF4 (thorough tier round trip)"]
    ck.assumptions += ["sources are well formed: indices within [start, start+n_node), declared fill value not a valid "
                       "index, corner positions of one face pairwise distinct, MPAS dual meshes closed (every vertex has all its cells)",
                       "positions within 1e-6 of a pole are exactly polar (snap zone of _xyz_to_lonlat_rad belongs to C04)"]
    shutil.rmtree(SCR, ignore_errors=True)


def audit(ck, collect):
    """extraction audit: the same model evaluated by the kernel (vm_compute) on a sample"""
    import re
    lines, want = [], []

    def ztab(t):
        return "[" + ";".join("[" + ";".join("FILL" if x == FILL else "(%d)" % x for x in r) + "]" for r in t) + "]"
    for cmd in ("mpas_plain", "geos"):
        for (line, kind, payload, case) in (collect.get(cmd) or [])[:12]:
            a = common.parse_sx(line)
            if cmd == "mpas_plain":
                if len(a[0]) > 12:
                    continue
                lines.append("Eval vm_compute in (c01_mpas_plain %s%%Z)." % ztab(a[0]))
            else:
                lines.append("Eval vm_compute in (c01_geos %d %d %d)." % tuple(a))
            want.append((cmd, line))
    if not lines:
        return 0
    rc, out = ck.audit_vm(lines, "From Verif Require Import Base C01.\nOpen Scope Z_scope.")
    if rc != 0:
        ck.proof["errors"].append("in-kernel audit failed: " + out[-800:])
        return 0
    blocks = re.split(r"(?m)^\s*= ", out)[1:]
    n = 0
    for b, (cmd, line) in zip(blocks, want):
        body = b.split("\n     :")[0].replace("-9223372036854775808", "F")
        nums = re.findall(r"-?\d+|F", body)
        mo = ck.run_model(cmd, [line])[0]
        flat = []

        def fl(v):
            if isinstance(v, list):
                for q in v:
                    fl(q)
            else:
                flat.append("F" if v == FILL else str(v))
        fl(mo)
        if nums != flat:
            ck.proof["errors"].append("extraction audit mismatch (%s): kernel %s vs extracted %s" % (cmd, nums[:30], flat[:30]))
        n += 1
    return n


def replay(ck, rp):
    c = dict(rp["case"])
    c.setdefault("kind", "replay")
    ck.note_case(json.dumps(c, sort_keys=True, default=str))
    stats = {"ok": {}, "fail": {}}
    run_case(ck, c, stats, None)
    shutil.rmtree(SCR, ignore_errors=True)
