"""C06 — integration is the area-weighted sum over faces.

Proof: coq/Props/C06_props.v about coq/Model/C06.v (any rank, any sizes, exact integer arithmetic over a
common power-of-two denominator).  Tie: UxDataArray.integrate and the extracted model run on the same
grids/arrays every run; the property clauses are evaluated directly on the implementation's output
with exact rationals (areas taken from Grid.compute_face_areas of a FRESH grid with the requested
rule/order — their correctness is C05's business).
"""
import json
from fractions import Fraction

import numpy as np

import common
import meshgen
from common import FILL, sx

TRI = [1, 4, 8, 10, 12]
RULES = [("triangular", o) for o in TRI] + [("gaussian", o) for o in range(1, 11)]
DTYPES = ["float64", "float64", "float32", "int64", "int32", "bool", "uint8"]
LEAD_NAMES = ["time", "lev", "ens"]
REL = 1e-12
CODE = {"n_face": 0, "n_node": 1, "n_edge": 2, "time": 3, "lev": 4, "ens": 5}


# ---------------------------------------------------------------------------------------------
# grids

def lonlat_of(nodes):
    import math
    return ([math.degrees(math.atan2(p[1], p[0])) for p in nodes],
            [math.degrees(math.atan2(p[2], math.hypot(p[0], p[1]))) for p in nodes])


def pyramid(rng, n):
    """apex + n-gon base closed to a sphere tiling: n triangles + the base face; n_node = n_face = n + 1"""
    import math
    ph = rng.uniform(0, 2 * math.pi)
    z = rng.uniform(-0.5, -0.2)
    r = math.sqrt(1 - z * z)
    nodes = [(r * math.cos(ph + 2 * math.pi * i / n), r * math.sin(ph + 2 * math.pi * i / n), z) for i in range(n)]
    nodes.append((0.0, 0.0, 1.0))
    faces = [[i, (i + 1) % n, n] for i in range(n)] + [list(reversed(range(n)))]
    m = meshgen.Mesh(nodes, faces, True, "pyramid%d" % n)
    meshgen.rotate(m, meshgen.rotation_matrix(rng))
    meshgen.renumber(m, rng)
    meshgen.rotate_starts(m, rng)
    return m


def overlapping(rng, variant):
    """tables whose faces overlap so that n_edge = n_face (combinatorially legal input of from_topology)"""
    import math
    base = [(math.cos(a) * 0.5, math.sin(a) * 0.5, math.sqrt(0.75)) for a in (0.2, 1.7, 3.3, 4.9)]
    if variant == 0:      # three copies of one triangle: n_face = n_edge = n_node = 3
        m = meshgen.Mesh(base[:3], [[0, 1, 2], [1, 2, 0], [2, 0, 1]], False, "triple-triangle")
    else:                 # all 4 triangles + 2 quads on 4 nodes: 6 faces, 6 edges
        m = meshgen.Mesh(base, [[0, 1, 2], [0, 2, 3], [0, 1, 3], [1, 2, 3], [0, 1, 2, 3], [0, 1, 3, 2]], False, "k4-overlap")
    meshgen.rotate(m, meshgen.rotation_matrix(rng))
    return m


def gen_grid(rng):
    r = rng.random()
    if r < 0.25:
        m = pyramid(rng, rng.choice([3, 3, 4, 5, 6, 7]))
        kind = "pyramid(V=F)"
    elif r < 0.40:
        m = overlapping(rng, rng.choice([0, 1]))
        kind = "overlap(E=F)"
    elif r < 0.5:
        m = meshgen.gen_mesh(rng, max_ops=0, partial=True)
        kind = "partial-seed"
    else:
        m = meshgen.gen_mesh(rng, max_ops=rng.choice([0, 2, 5]))
        kind = "mesh"
    w = m.width() + rng.choice([0, 0, 1])
    lon, lat = lonlat_of(m.nodes)
    return {"gkind": kind, "name": m.name, "lon": lon, "lat": lat, "table": m.table(w)}


R_MPAS = 6371229.0     # MPAS-Atmosphere sphere radius in metres


def mpas_dataset(c):
    """the grid written the MPAS way, in memory: radians, 1-based verticesOnCell padded with 0,
    coordinates on a sphere of radius R_MPAS and areaCell in m^2 (NOT unit-sphere areas)"""
    import math
    import xarray as xr
    lon = np.deg2rad(np.array(c["lon"], dtype=float))
    lat = np.deg2rad(np.array(c["lat"], dtype=float))
    rows = [[i for i in r if i != FILL] for r in c["table"]]
    w = len(c["table"][0])
    voc = np.array([[i + 1 for i in r] + [0] * (w - len(r)) for r in rows], dtype=np.int32)
    nv = len(c["lon"])
    cov = [[f + 1 for f, r in enumerate(rows) if v in r] for v in range(nv)]
    deg = max(3, max(len(x) for x in cov))
    cov = np.array([x + [0] * (deg - len(x)) for x in cov], dtype=np.int32)
    x = np.cos(lon) * np.cos(lat)
    y = np.sin(lon) * np.cos(lat)
    z = np.sin(lat)
    area = np.array([(0.3 + 0.1 * ((7 * f) % 5)) * R_MPAS ** 2 for f in range(len(rows))])
    return xr.Dataset(
        {"latVertex": (("nVertices",), lat), "lonVertex": (("nVertices",), lon),
         "xVertex": (("nVertices",), R_MPAS * x), "yVertex": (("nVertices",), R_MPAS * y), "zVertex": (("nVertices",), R_MPAS * z),
         "verticesOnCell": (("nCells", "maxEdges"), voc),
         "nEdgesOnCell": (("nCells",), np.array([len(r) for r in rows], dtype=np.int32)),
         "cellsOnVertex": (("nVertices", "vertexDegree"), cov),
         "areaCell": (("nCells",), area)},
        attrs={"sphere_radius": R_MPAS, "on_a_sphere": "YES"})


def build_grid(c, shifted=False):
    """a fresh Grid of the case's source kind; shifted = the coordinate replacement of the history
    applied through the public setters (so that the reference is built exactly like the object under test)"""
    import uxarray as ux
    import xarray as xr
    src = c.get("source", "topology")
    if src == "mpas":
        g = ux.Grid.from_dataset(mpas_dataset(c))
    else:
        g = ux.Grid.from_topology(np.array(c["lon"], dtype=float), np.array(c["lat"], dtype=float),
                                  np.array(c["table"], dtype=np.intp), fill_value=FILL)
        if src == "assigned_face_areas":
            nf = len(c["table"])
            g.face_areas = xr.DataArray(np.array([(2.0 + f) * 1.0e6 for f in range(nf)]), dims=["n_face"])
    if shifted:
        set_coords(g)
    return g


def set_coords(g):
    """replace the node coordinates through the public setters (another, still valid geometry)"""
    import xarray as xr
    lon = np.asarray(g.node_lon.values, dtype=float)
    lat = np.asarray(g.node_lat.values, dtype=float)
    g.node_lon = xr.DataArray(((lon + 11.0 + 180.0) % 360.0) - 180.0, dims=["n_node"])
    g.node_lat = xr.DataArray(lat * 0.96, dims=["n_node"])


# ---------------------------------------------------------------------------------------------
# data

def gen_values(rng, shape, dtype, integral=False):
    n = int(np.prod(shape)) if shape else 1
    if dtype == "bool":
        v = [rng.random() < 0.5 for _ in range(n)]
    elif dtype == "uint8":
        v = [rng.randrange(0, 256) for _ in range(n)]
    elif dtype in ("int64", "int32") or integral:
        v = [rng.randrange(-1000, 1001) for _ in range(n)]
    else:
        v = [rng.gauss(0, 1) * 10 ** rng.uniform(-3, 5) for _ in range(n)]
    return np.array(v, dtype=dtype).reshape(shape)


def lead_shape(rng, counts):
    rank = rng.choice([0, 0, 1, 1, 2, 3])
    pool = [1, 2, 3, 4, counts[0], counts[1], counts[2]]
    shape = []
    for _ in range(rank):
        shape.append(min(rng.choice(pool), 12))
    while shape and int(np.prod(shape)) * counts[0] > 4000:
        shape[rng.randrange(len(shape))] = 1
    return shape


PRE_OPS = ["integrate_same", "integrate_other", "integrate_default", "compute_mut_same", "compute_mut_other",
           "compute_mut_default", "face_areas_mut", "set_coords"]
PRE_TEMPLATES = [[], [], ["face_areas_mut"], ["compute_mut_same"], ["compute_mut_default"],
                 ["integrate_same", "set_coords"], ["compute_mut_same", "set_coords"],
                 ["compute_mut_other", "compute_mut_same", "face_areas_mut"], ["integrate_default", "face_areas_mut", "compute_mut_default"]]


def gen_case(rng):
    g = gen_grid(rng)
    # half of the cases use the default rule/order (where a shortcut through cached areas would hide)
    rule = ("triangular", 4) if rng.random() < 0.4 else rng.choice(RULES)
    r = rng.random()
    if g["gkind"] in ("mesh", "partial-seed", "pyramid(V=F)"):
        g["source"] = "mpas" if r < 0.25 else ("assigned_face_areas" if r < 0.45 else "topology")
    else:
        g["source"] = "assigned_face_areas" if r < 0.3 else "topology"
    pre = list(rng.choice(PRE_TEMPLATES))
    for _ in range(rng.randrange(0, 3)):
        pre.insert(rng.randrange(len(pre) + 1), rng.choice(PRE_OPS))
    return {"kind": "case", "grid": g, "rule": list(rule), "seed": rng.randrange(1 << 30), "pre": pre}


def run_pre_history(g, case, rule, nf):
    """what happened on the grid object before the integrate calls under test: earlier integrate /
    compute_face_areas / face_areas calls with the same and other (rule, order), in-place edits of
    every array they returned, coordinate replacement through the setters; returns whether the
    coordinates were replaced"""
    import uxarray as ux
    other = ("gaussian", 3) if rule != ("gaussian", 3) else ("triangular", 8)
    shifted = False
    for op in case.get("pre", []):
        if op.startswith("integrate"):
            rr = rule if op.endswith("same") else (other if op.endswith("other") else None)
            da = ux.UxDataArray(np.arange(nf, dtype=float), dims=("n_face",), uxgrid=g, name="w")
            res = da.integrate(*rr) if rr else da.integrate()
            try:
                res.values[...] = -1.0
            except Exception:
                pass
        elif op.startswith("compute_mut"):
            rr = rule if op.endswith("same") else (other if op.endswith("other") else None)
            a, j = g.compute_face_areas(*rr) if rr else g.compute_face_areas()
            a[...] = a / np.sum(a)              # "normalise my areas" -- the caller's own array
            j[...] = 0.0
        elif op == "face_areas_mut":
            v = g.face_areas.values
            v[...] = v * 6371.0 ** 2
        elif op == "set_coords":
            set_coords(g)
            shifted = True
    return shifted


# ---------------------------------------------------------------------------------------------
# exact helpers

def dyadic_scale(vals):
    """floats -> (integers, K) with v = n / 2^K exactly"""
    fr = [Fraction(float(v)) for v in vals]
    K = 0
    for f in fr:
        K = max(K, f.denominator.bit_length() - 1)
    return [int(f * (1 << K)) for f in fr], K


def exact_integral(areas, arr):
    """sum_f areas[f] * arr[..., f] in exact rationals, plus the magnitude sum_f |a d| per entry"""
    nf = len(areas)
    flat = np.asarray(arr).reshape(-1, nf) if nf else np.asarray(arr).reshape(0, 0)
    A = [Fraction(float(a)) for a in areas]
    out, mag = [], []
    for row in flat:
        vals = [Fraction(float(x)) for x in row]
        out.append(sum(a * v for a, v in zip(A, vals)))
        mag.append(sum(abs(a * v) for a, v in zip(A, vals)))
    return out, mag


def close(got, want, mag):
    return abs(Fraction(float(got)) - want) <= Fraction(REL) * mag + Fraction(1, 10 ** 300)


# ---------------------------------------------------------------------------------------------

class Ctx:
    def __init__(self):
        self.hist = {}
        self.model_lines = []
        self.model_meta = []
        self.mask_lines, self.mask_meta = [], []
        self.hist_lines, self.hist_meta = [], []
        self.worst = 0.0

    def count(self, name, key):
        d = self.hist.setdefault(name, {})
        d[str(key)] = d.get(str(key), 0) + 1


def mk_da(g, vals, dims, name):
    import uxarray as ux
    return ux.UxDataArray(vals, dims=dims, uxgrid=g, name=name)


def run_case(ck, case, ctx):
    import random
    import uxarray as ux
    rng = random.Random(case["seed"])
    gc = case["grid"]
    rule = tuple(case["rule"])
    info0 = {"gkind": gc["gkind"]}
    info0["source"] = gc.get("source", "topology")
    try:
        g = build_grid(gc)
        counts = (int(g.n_face), int(g.n_node), int(g.n_edge))
    except Exception as ex:
        ck.fail("raises", case, dict(info0, call="grid construction"), detail=repr(ex))
        return
    nf, nn, ne = counts
    ctx.count("grid", gc["gkind"])
    ctx.count("source", info0["source"])
    ctx.count("coincidence", "+".join([x for x, t in (("F=V", nf == nn), ("F=E", nf == ne)) if t]) or "none")
    # previous history on the grid object
    try:
        n_shift = sum(1 for op in case.get("pre", []) if op == "set_coords")
        run_pre_history(g, case, rule, nf)
        ctx.count("pre-history", " ".join(case.get("pre", [])) or "none")
    except Exception as ex:
        ck.fail("raises", case, dict(info0, call="pre-history"), detail="%r in %r" % (ex, case.get("pre")))
        return
    # reference areas: the requested rule/order on a FRESH grid of the same source with the CURRENT coordinates
    try:
        def fresh():
            f = build_grid(gc)
            for _ in range(n_shift):
                set_coords(f)
            return f
        ref_areas = np.array(fresh().compute_face_areas(rule[0], rule[1])[0], dtype=float)
        ref_default = np.array(fresh().compute_face_areas()[0], dtype=float)
        total = float(fresh().calculate_total_face_area(rule[0], rule[1]))
    except Exception as ex:
        ck.fail("raises", case, dict(info0, call="reference compute_face_areas"), detail=repr(ex))
        return
    a_int, Ka = dyadic_scale(ref_areas)

    def add_model(dims, arr, what, impl):
        arr = np.asarray(arr)
        d_int, Kd = dyadic_scale(arr.astype(np.float64).ravel())
        mag = exact_integral(ref_areas, arr)[1] if (impl[0] == "ok" and arr.shape[-1] == nf) else None
        ctx.model_lines.append(sx([list(counts), a_int, [list(arr.shape), [CODE[d] for d in dims], 7, 11, d_int]]))
        ctx.model_meta.append((what, case, Ka + Kd, impl, dims, mag))

    # ---- face-centred data: value, dims, name, grid ----
    for rep in range(2):
        lead = lead_shape(rng, counts)
        dims = tuple(LEAD_NAMES[:len(lead)]) + ("n_face",)
        dtype = rng.choice(DTYPES)
        vals = gen_values(rng, lead + [nf], dtype)
        name = rng.choice(["psi", "t2m", "v"])
        ctx.count("rank(leading dims)", len(lead))
        ctx.count("dtype", dtype)
        ck.note_case((gc["table"], gc["lon"][:3], rule, lead, dtype, vals.ravel()[:8].tolist()), True)
        info = dict(info0, centre="face", rank=len(lead), dtype=dtype)
        try:
            da = mk_da(g, vals, dims, name)
            res = da.integrate(rule[0], rule[1])
        except Exception as ex:
            ck.fail("raises", case, info, detail="face-centred data %r %s: %r" % (dims, vals.shape, ex))
            add_model(dims, vals, "face", ("raise", repr(ex)))
            continue
        want, mag = exact_integral(ref_areas, vals)
        got = np.asarray(res.values, dtype=float).ravel()
        if list(np.asarray(res.values).shape) != lead:
            ck.fail("dims", case, info, detail="result shape %r, expected %r" % (np.asarray(res.values).shape, lead))
        elif tuple(res.dims) != dims[:-1]:
            ck.fail("dims", case, info, detail="result dims %r, expected %r" % (res.dims, dims[:-1]))
        else:
            bad = [i for i in range(len(want)) if not close(got[i], want[i], mag[i])]
            if bad:
                i = bad[0]
                ck.fail("value", case, dict(info, rule=rule[0], order=rule[1], pre=" ".join(case.get("pre", [])) or "none"),
                        detail="entry %d: got %r, expected %r (sum|a d| = %r)" % (i, got[i], float(want[i]), float(mag[i])))
            for i in range(len(want)):
                if mag[i] > 0:
                    ctx.worst = max(ctx.worst, float(abs(Fraction(float(got[i])) - want[i]) / mag[i]))
        if res.name != name:
            ck.fail("name", case, info, detail="name %r -> %r" % (name, res.name))
        if not isinstance(res, ux.UxDataArray) or getattr(res, "uxgrid", None) is None or \
                not (res.uxgrid is g or res.uxgrid == g):
            ck.fail("grid", case, info, detail="type %s, uxgrid %r" % (type(res).__name__, getattr(res, "uxgrid", None) is not None))
        add_model(dims, vals, "face", ("ok", list(np.asarray(res.values).shape), [CODE.get(d, 9) for d in res.dims], got.tolist()))
    # ---- linearity (integer-valued data so that alpha a + beta b is exact in floating point) ----
    try:
        lead = lead_shape(rng, counts)
        dims = tuple(LEAD_NAMES[:len(lead)]) + ("n_face",)
        a = gen_values(rng, lead + [nf], "float64", integral=True)
        b = gen_values(rng, lead + [nf], "float64", integral=True)
        al, be = rng.randrange(-9, 10), rng.randrange(-9, 10)
        ia = np.asarray(mk_da(g, a, dims, "a").integrate(rule[0], rule[1]).values, dtype=float).ravel()
        ib = np.asarray(mk_da(g, b, dims, "b").integrate(rule[0], rule[1]).values, dtype=float).ravel()
        ic = np.asarray(mk_da(g, al * a + be * b, dims, "c").integrate(rule[0], rule[1]).values, dtype=float).ravel()
        _, ma = exact_integral(ref_areas, np.abs(a) * abs(al) + np.abs(b) * abs(be))
        for i in range(len(ic)):
            lhs = Fraction(float(ic[i]))
            rhs = al * Fraction(float(ia[i])) + be * Fraction(float(ib[i]))
            if abs(lhs - rhs) > 4 * Fraction(REL) * ma[i] + Fraction(1, 10 ** 300):
                ck.fail("linear", case, dict(info0, centre="face"), detail="entry %d: I(%d a + %d b) = %r, %d I(a) + %d I(b) = %r"
                        % (i, al, be, ic[i], al, be, float(rhs)))
                break
    except Exception as ex:
        ck.fail("raises", case, dict(info0, centre="face", what="linearity"), detail=repr(ex))
    # ---- the constant 1 gives the total area ----
    try:
        one = mk_da(g, np.ones(nf, dtype=rng.choice(["float64", "int64", "bool"])), ("n_face",), "one")
        r1 = float(one.integrate(rule[0], rule[1]).values)
        if abs(r1 - total) > 1e-12 * abs(total):
            ck.fail("one", case, dict(info0, rule=rule[0], order=rule[1], pre=" ".join(case.get("pre", [])) or "none"),
                    detail="integrate(1) = %r, total area = %r" % (r1, total))
    except Exception as ex:
        ck.fail("raises", case, dict(info0, centre="face", what="constant one"), detail=repr(ex))
    # ---- integrate() (defaults) = integrate("triangular", 4) = sum value * computed default areas ----
    try:
        v = gen_values(rng, [nf], "float64")
        da = mk_da(g, v, ("n_face",), "d")
        r_def = float(da.integrate().values)
        r_exp = float(da.integrate("triangular", 4).values)
        want, mag = exact_integral(ref_default, v)
        # model tie: integrate on a grid object that stores areas / has a history (c06_integrate_grid)
        try:
            stored = g._ds["face_areas"].values if "face_areas" in g._ds else None
            st_sx = "N" if stored is None else [int(min(max(float(x), -1e18), 1e18)) for x in np.asarray(stored, dtype=float)]
            ops = []
            if gc.get("source") == "assigned_face_areas":
                ops.append([1, [2000000 + f for f in range(nf)]])
            for op in case.get("pre", []):
                ops.append(0 if op == "face_areas_mut" else [2])
            ad_int, Kad = dyadic_scale(ref_default)
            v_int, Kv = dyadic_scale(v)
            ctx.hist_lines.append(sx([st_sx, ops, list(counts), ad_int, [[nf], [0], 7, 11, v_int]]))
            ctx.hist_meta.append((case, Kad + Kv, r_def, mag[0]))
            # boolean data: the area of the selected faces (c06_mask_sum)
            mask = np.array([rng.random() < 0.5 for _ in range(nf)])
            r_mask = float(mk_da(g, mask, ("n_face",), "m").integrate().values)
            ctx.mask_lines.append(sx([ad_int, [int(b) for b in mask]]))
            ctx.mask_meta.append((case, Kad, r_mask, float(np.sum(np.abs(ref_default)))))
            if r_mask != float(mk_da(g, mask.astype(float), ("n_face",), "m").integrate().values):
                ck.fail("value", case, dict(info0, centre="face", rule="default", what="bool vs float mask"), detail="bool data integrate differently from the same 0/1 floats")
        except Exception as ex:
            ck.fail("raises", case, dict(info0, centre="face", what="mask / history tie"), detail=repr(ex))
        if r_def != r_exp or not close(r_def, want[0], mag[0]):
            ck.fail("value", case, dict(info0, centre="face", rule="default", pre=" ".join(case.get("pre", [])) or "none"),
                    detail="integrate() = %r, integrate('triangular', 4) = %r, sum value*area(triangular 4, fresh grid) = %r"
                    % (r_def, r_exp, float(want[0])))
    except Exception as ex:
        ck.fail("raises", case, dict(info0, centre="face", what="default rule"), detail=repr(ex))
    # ---- node- and edge-centred data must be rejected ----
    for centre, size in (("node", nn), ("edge", ne)):
        lead = lead_shape(rng, counts)[:2]
        dims = tuple(LEAD_NAMES[:len(lead)]) + ("n_" + centre,)
        vals = gen_values(rng, lead + [size], rng.choice(["float64", "int64"]))
        ck.note_case((gc["table"], centre, lead, vals.ravel()[:6].tolist()), True)
        ctx.count("non-face data", centre + ("(size = n_face)" if size == nf else ""))
        try:
            res = mk_da(g, vals, dims, "x").integrate(rule[0], rule[1])
            ck.fail("reject", case, dict(info0, centre=centre, size_equals_n_face=bool(size == nf)),
                    detail="%s-centred data %r of shape %r was integrated: %r (n_face=%d n_node=%d n_edge=%d)"
                    % (centre, dims, vals.shape, np.asarray(res.values).ravel()[:3].tolist(), nf, nn, ne))
            add_model(dims, vals, centre, ("ok", list(np.asarray(res.values).shape), [CODE.get(d, 9) for d in res.dims],
                                            np.asarray(res.values, dtype=float).ravel().tolist()))
        except Exception as ex:
            add_model(dims, vals, centre, ("raise", repr(ex)))


def compare_models(ck, ctx):
    """the implementation has to agree with the model of the current tree (c06_integrate_cur: dimension
    names n_node / n_edge rejected first, then size dispatch) on every case: same accept/reject
    decision, same result shape and dims, values equal to the model's exact sums"""
    res = ck.run_model("c06_cur", ctx.model_lines)
    n = 0
    for (what, case, K, impl, dims, mag), r in zip(ctx.model_meta, res):
        n += 1
        why = None
        if r[0] == "ERR":
            why = "model driver error %r" % (r,)
        elif r[0] == "err":
            if impl[0] != "raise":
                why = "model rejects (code %s), implementation integrates" % r[1]
        elif impl[0] == "raise":
            why = "model integrates, implementation raises " + impl[1][:80]
        else:
            _, shape, mdims, _, _, data = r
            if shape != impl[1] or mdims != impl[2] or len(data) != len(impl[3]):
                why = "shape/dims: model %r %r, implementation %r %r" % (shape, mdims, impl[1], impl[2])
            else:
                for i, (mv, iv) in enumerate(zip(data, impl[3])):
                    if mag is not None and not close(iv, Fraction(mv, 1 << K), mag[i]):
                        why = "value %d: model %r, implementation %r" % (i, float(Fraction(mv, 1 << K)), iv)
                        break
        if why and len(ck.corr_failures) < 5:
            ck.corr_failures.append({"what": why, "centre": what, "dims": dims, "case": case["grid"]["name"]})
    # integrate on a grid with stored areas / a history (c06_integrate_grid) and boolean data (c06_mask_sum)
    if ctx.hist_lines:
        for (case, K, impl, mag), r in zip(ctx.hist_meta, ck.run_model("c06_hist", ctx.hist_lines)):
            n += 1
            if r[0] != "ok" or len(r[5]) != 1 or not close(impl, Fraction(r[5][0], 1 << K), mag):
                if len(ck.corr_failures) < 5:
                    ck.corr_failures.append({"what": "c06_integrate_grid differs from integrate() on a grid with stored areas/history",
                                             "model": str(r)[:120], "impl": impl, "case": case["grid"]["name"]})
    if ctx.mask_lines:
        for (case, K, impl, mag), r in zip(ctx.mask_meta, ck.run_model("c06_mask", ctx.mask_lines)):
            n += 1
            if not close(impl, Fraction(r, 1 << K), mag):
                if len(ck.corr_failures) < 5:
                    ck.corr_failures.append({"what": "c06_mask_sum differs from integrate() of boolean data",
                                             "model": float(Fraction(r, 1 << K)), "impl": impl, "case": case["grid"]["name"]})
    return n, "dimension names n_node / n_edge rejected first, then size dispatch (c06_integrate_cur, fix 3b40859b)"


def main(ck):
    ck.check_props()
    ok = ck.build_driver()
    rng = ck.rng
    ctx = Ctx()
    cases = []
    import os
    cdir = os.path.join(common.VERIF, "corpus", "C06")
    if os.path.isdir(cdir):
        for fn in sorted(os.listdir(cdir)):
            cases.append(json.load(open(os.path.join(cdir, fn))))
    # the tetrahedron of DESIGN section 8 first
    tet = meshgen._poly("tetra")
    lon, lat = lonlat_of(tet.nodes)
    cases.append({"kind": "case", "grid": {"gkind": "pyramid(V=F)", "name": "tetra", "lon": lon, "lat": lat,
                                           "table": tet.table()}, "rule": ["triangular", 4], "seed": 1, "pre": []})
    for _ in range(320 if ck.tier == "quick" else 6000):
        cases.append(gen_case(rng))
    ck.cov["rule"] = ("corpus + tetrahedron + random grids (sphere tilings and partial grids from 9 polyhedra, pyramids "
                      "with n_node = n_face, overlapping-face tables with n_edge = n_face, renumbered, padded) x a random "
                      "rule/order of the 15 x a previous history on the grid (none / face_areas cached / another rule "
                      "computed); per grid: 2 face-centred arrays (0..3 leading dims with sizes incl. 1 and the element "
                      "counts, dtypes float64/float32/int64/int32/bool/uint8), a linearity triple, the constant 1, one "
                      "node- and one edge-centred array; non-trivial = every array; distinct = distinct (grid, data)")
    for idx, c in enumerate(cases):
        run_case(ck, c, ctx)
        if idx in (0, 5, 17):
            ck.sample({"grid": c["grid"]["name"], "gkind": c["grid"]["gkind"], "n_face": len(c["grid"]["table"]),
                       "rule": c["rule"], "source": c["grid"].get("source"), "pre": c.get("pre")})
    n_model, variant = 0, None
    if ok:
        try:
            n_model, variant = compare_models(ck, ctx)
            # extraction audit: a few small cases evaluated by the kernel
            small = [(l, m) for l, m in zip(ctx.model_lines, ctx.model_meta) if len(l) < 400][:12]
            exprs = []
            for l, m in small:
                v = common.parse_sx(l)

                def zl(xs):
                    return "[" + "; ".join("(%d)" % x for x in xs) + "]"
                exprs.append("Eval vm_compute in (match c06_integrate_cur {| c06_nface := %d; c06_nnode := %d; c06_nedge := %d |} %s "
                             "{| c06_shape := %s; c06_dims := %s; c06_name := 7; c06_grid := 11; c06_data := %s |} with "
                             "C06_ok r => (1, c06_data r) | C06_index_error => (0, [0]) | C06_node_error => (0, [1]) "
                             "| C06_edge_error => (0, [2]) | C06_size_error => (0, [3]) end)."
                             % (v[0][0], v[0][1], v[0][2], zl(v[1]), zl(v[2][0]), zl(v[2][1]), zl(v[2][4])))
            rc, out = ck.audit_vm(exprs, "From Verif Require Import Base C06.\nOpen Scope Z_scope.")
            audit_n = 0
            if rc != 0:
                ck.proof["errors"].append("in-kernel audit failed: " + out[-800:])
            else:
                import re
                blocks = re.split(r"(?m)^\s*= ", out)[1:]
                ext = ck.run_model("c06_cur", [l for l, _ in small])
                for b, e in zip(blocks, ext):
                    nums = [int(x) for x in re.findall(r"-?\d+", b.split("\n     :")[0])]
                    want = [1] + e[5] if e[0] == "ok" else [0, int(e[1])]
                    if nums != want:
                        ck.proof["errors"].append("extraction audit mismatch: kernel %s vs extracted %s" % (nums[:10], want[:10]))
                    audit_n += 1
                if len(blocks) != len(small):
                    ck.proof["errors"].append("extraction audit: %d answers for %d cases" % (len(blocks), len(small)))
            ck.extra["extraction_audit_cases"] = audit_n
        except Exception as ex:
            ck.proof["errors"].append("model run failed: %r" % (ex,))
    ck.extra.update({
        "distribution": ctx.hist, "model_vs_impl_cases": n_model, "model_variant_of_the_current_tree": variant,
        "worst_error_relative_to_sum_abs": float("%.3g" % ctx.worst),
        "tolerances": {"value/linear/one": "1e-12 * sum_f |area_f * value_f| (exact rationals)"},
        "clauses_checked_on_impl": ["value", "dims", "name", "grid", "linear", "one", "reject", "raises"],
        "partial": "float summation order/rounding of np.einsum is bounded empirically (1e-12 relative to sum|a d|); "
                   "UxDataset.integrate cannot be exercised (UxDataset cannot be constructed with the installed xarray)",
    })
    ck.trusted += ["np.einsum('i,...i') modelled by its documented semantics (row-major rows dotted with the areas)",
                   "Grid.compute_face_areas(rule, order) of a fresh grid of the same source with the current coordinates as the reference areas (C05 owns their correctness)"]
    ck.assumptions += ["reading of 'face area': the property text says 'areas as computed with the requested rule and order' and "
                       "'integrating the constant 1 gives the grid's total area', so the weights are Grid.compute_face_areas(rule, order) "
                       "on the grid's current coordinates also when the source ships its own areas (MPAS areaCell) or the user assigned "
                       "face_areas; the stored face_areas variable itself is not used as the reference",
                       "face-centred arrays carry the face dimension last (the property's 'leading dimensions')",
                       "every float is a dyadic rational: areas and data are passed to the model exactly, scaled to integers"]


def replay(ck, rp):
    ctx = Ctx()
    ck.note_case("replay")
    run_case(ck, rp["case"], ctx)
