"""C02 — derived edges are exactly the boundary segments of the faces.

Proof: coq/Props/C02_props.v (about coq/Model/C02.v, for every standard-form table).
Tie: the model (extracted to OCaml, audited in-kernel by vm_compute on a sample) and the real
builders + Grid properties run on the same tables; the property clauses are additionally
checked directly on the implementation's output.
"""
import itertools
import math
import json
import os

import numpy as np

import common
import meshgen
from common import FILL, sx


def spec_check(table, edges, face_edge, npf, n_edge):
    """The clauses of C02 evaluated on an output (edges: list of pairs, face_edge: table)."""
    rows = [[x for x in r if x != FILL] for r in table]
    want = set()
    for c in rows:
        for j in range(len(c)):
            a, b = c[j], c[(j + 1) % len(c)]
            want.add((min(a, b), max(a, b)))
    got = [(min(a, b), max(a, b)) for a, b in edges]
    if any(FILL in e for e in edges):
        return "edges_no_padding"
    if len(set(got)) != len(got):
        return "edges_once"
    if set(got) != want:
        return "edges_exact"
    if n_edge != len(want):
        return "n_edge"
    if list(npf) != [len(c) for c in rows]:
        return "n_nodes_per_face"
    if len(face_edge) != len(table):
        return "face_edge_shape"
    for f, c in enumerate(rows):
        fe = face_edge[f]
        if len(fe) != len(table[f]):
            return "face_edge_shape"
        for j in range(len(fe)):
            if j < len(c):
                e = fe[j]
                if e == FILL or not (0 <= e < len(got)):
                    return "face_edge"
                a, b = c[j], c[(j + 1) % len(c)]
                if got[e] != (min(a, b), max(a, b)):
                    return "face_edge"
            elif fe[j] != FILL:
                return "face_edge_padding"
    return None


def canon(edges, face_edge, npf):
    es = [(min(a, b), max(a, b)) for a, b in edges]
    fe = [[(es[e] if (e != FILL and 0 <= e < len(es)) else None) for e in row] for row in face_edge]
    return (sorted(es), fe, list(npf))


def layout(t, kind):
    """memory layouts of the same table: C-contiguous, Fortran-contiguous, strided view"""
    if kind == 1:
        return np.asfortranarray(t)
    if kind == 2:
        big = np.full((t.shape[0] * 2, t.shape[1] + 1), 7, dtype=t.dtype)
        big[::2, :-1] = t
        return big[::2, :-1]
    return np.ascontiguousarray(t)


def impl_builders(table, lay=0):
    from uxarray.grid.connectivity import (_build_edge_node_connectivity, _build_face_edge_connectivity,
                                           _build_n_nodes_per_face)
    t = layout(np.array(table, dtype=np.intp), lay)
    nf, m = t.shape
    e, inv, mask = _build_edge_node_connectivity(t, nf, m)
    fe = _build_face_edge_connectivity(inv, nf, m)
    npf = _build_n_nodes_per_face(t, nf, m)
    return e.tolist(), np.asarray(fe).tolist(), np.asarray(npf).tolist(), int(e.shape[0])


def make_supplied(table, idx):
    """an edge table as a source would ship it: arbitrary order / orientation.  idx % 25 == 7: a table that does NOT
    describe the faces' edges (one row replaced), which the code must replace by the derived one."""
    rows = [[x for x in r if x != FILL] for r in table]
    pairs = sorted({(min(a, b), max(a, b)) for c in rows for a, b in zip(c, c[1:] + c[:1])})
    pairs = [list(p) if (i + idx) % 2 else [p[1], p[0]] for i, p in enumerate(pairs)]
    k = idx % len(pairs)
    pairs = pairs[k:] + pairs[:k]
    if idx % 4 == 2:
        pairs.reverse()
    if idx % 3 == 0:
        import random
        random.Random(idx).shuffle(pairs)      # generic permutation (rotations and reversals alone are too regular)
    if idx % 25 == 7:
        pairs[idx % len(pairs)] = list(pairs[(idx + 1) % len(pairs)]) if len(pairs) > 1 else [0, 0]
    return pairs


def impl_grid(table, lon=None, lat=None, order=0, lay=0, supplied=None, dt=0):
    import uxarray as ux
    t = layout(np.array(table, dtype=np.intp), lay)
    fill = FILL
    if dt:
        # the same faces handed over as int32 / int64 with -1 padding, or one-based (the derived tables must not care)
        fill = -1
        t = np.where(t == FILL, -1, t).astype(np.int32 if dt == 1 else np.int64)
    kw = {}
    if supplied:
        # the source ships its own edge table: face_edge must index THAT table
        kw["edge_node_connectivity"] = np.array(supplied, dtype=np.intp)
    n = int(max(x for r in table for x in r if x != FILL)) + 1
    if lon is None:
        lon = np.linspace(-170, 170, n)
        lat = np.linspace(-80, 80, n)
    g = ux.Grid.from_topology(np.array(lon, dtype=float), np.array(lat, dtype=float), t, fill_value=fill, **kw)
    # order of first access is part of the quantifier ("any history"): three orders
    if order == 0:
        e = g.edge_node_connectivity.values
        fe = g.face_edge_connectivity.values
        npf = g.n_nodes_per_face.values
    elif order == 1:
        fe = g.face_edge_connectivity.values
        npf = g.n_nodes_per_face.values
        e = g.edge_node_connectivity.values
    else:
        npf = g.n_nodes_per_face.values
        ne = g.n_edge
        fe = g.face_edge_connectivity.values
        e = g.edge_node_connectivity.values
    assert e.dtype == np.intp and fe.dtype == np.intp, "dtype"
    return e.tolist(), fe.tolist(), npf.tolist(), int(g.n_edge), g


def small_exhaustive():
    """every standard-form table with 1..2 faces over <=4 nodes, sizes 3..4, every padding layout"""
    out = []
    faces = []
    for s in (3, 4):
        for p in itertools.permutations(range(4), s):
            faces.append(list(p))
    for f in faces:
        for w in (len(f), len(f) + 1):
            out.append([f + [FILL] * (w - len(f))])
    for f, g in itertools.product(faces, faces):
        w = max(len(f), len(g))
        out.append([f + [FILL] * (w - len(f)), g + [FILL] * (w - len(g))])
    return out


def gen_cases(ck):
    rng = ck.rng
    cases = []
    cdir = os.path.join(common.VERIF, "corpus", "C02")
    if os.path.isdir(cdir):
        for fn in sorted(os.listdir(cdir)):
            c = json.load(open(os.path.join(cdir, fn)))
            cases.append({"kind": "corpus", "table": c["table"]})
    ex = small_exhaustive()
    if ck.tier == "quick":
        ex = ex[:72] + rng.sample(ex[72:], 400)
    for t in ex:
        cases.append({"kind": "exhaustive", "table": t})
    n_rand = 500 if ck.tier == "quick" else 10000
    for _ in range(n_rand):
        n, t = meshgen.gen_table(rng)
        cases.append({"kind": "random_table", "table": t})
    # one large structured mesh (> 4096 edges): array-wide shortcuts and blocked loops only trigger on large inputs
    for bi in range(1 if ck.tier == "quick" else 3):
        nlon, nlat = 64 + 7 * bi, 33 + bi
        nodes_b, faces_b = [], []
        for j in range(nlat + 1):
            for i in range(nlon):
                la = math.radians(-80 + 160.0 * j / nlat); lo = math.radians(-180 + 360.0 * (i + 0.5) / nlon)
                nodes_b.append((math.cos(la) * math.cos(lo), math.cos(la) * math.sin(lo), math.sin(la)))
        for j in range(nlat):
            for i in range(nlon):
                q = [j * nlon + i, j * nlon + (i + 1) % nlon, (j + 1) * nlon + (i + 1) % nlon, (j + 1) * nlon + i]
                faces_b.append(q if (i + j) % 5 else q[:3])          # mixed sizes: every fifth cell is a triangle
                if not (i + j) % 5:
                    faces_b.append([q[0], q[2], q[3]])
        mb = meshgen.Mesh(nodes_b, faces_b, closed=False, name="band%dx%d" % (nlon, nlat))
        cases.append({"kind": "mesh", "table": mb.table(4), "closed": False, "lonlat": mb.lonlat(), "n_node": len(mb.nodes), "name": mb.name})
    n_mesh = 150 if ck.tier == "quick" else 3000
    for i in range(n_mesh):
        big = ck.tier == "thorough" and i % 50 == 0
        m = meshgen.gen_mesh(rng, max_ops=60 if big else 12)
        extra = rng.choice([0, 0, 1])
        cases.append({"kind": "mesh", "table": m.table(m.width() + extra), "closed": m.closed,
                      "lonlat": m.lonlat(), "n_node": len(m.nodes), "name": m.name})
    return cases


def run_case_impl(ck, c, idx):
    """returns canonical impl outputs; reports spec failures on the implementation"""
    t = c["table"]
    res = {}
    try:
        e, fe, npf, ne = impl_builders(t, (idx // 3) % 3)
        bad = spec_check(t, e, fe, npf, ne)
        if bad:
            ck.fail(bad, {"table": t, "level": "builders", "layout": (idx // 3) % 3}, {"level": "builders"},
                    detail=json.dumps({"edges": e, "face_edge": fe, "npf": npf}))
        res["builders"] = canon(e, fe, npf)
        res["raw"] = (e, fe, npf)
    except Exception as ex:
        ck.fail("raises", {"table": t, "level": "builders"}, {"level": "builders"}, detail=repr(ex))
    try:
        ll = c.get("lonlat")
        rp = c.get("replay") or {}
        sup = None
        if (idx % 5 == 2) and all(len(set(x for x in r if x != FILL)) == sum(1 for x in r if x != FILL) for r in t):
            sup = make_supplied(t, idx)
        sup = rp.get("supplied_edges", sup) or None
        e, fe, npf, ne, g = impl_grid(t, ll[0] if ll else None, ll[1] if ll else None, order=rp.get("order", idx % 3),
                                      lay=rp.get("layout", (idx // 3) % 3), supplied=sup, dt=rp.get("dtype", (idx // 7) % 3))
        sup_good = True
        if sup:
            rows_ = [[x for x in r if x != FILL] for r in t]
            want_ = sorted({(min(a, b), max(a, b)) for c_ in rows_ for a, b in zip(c_, c_[1:] + c_[:1])})
            sup_good = sorted((min(a, b), max(a, b)) for a, b in sup) == want_
            if not sup_good:
                # a source table that does not describe the faces' edges is source data, not a derived result: only
                # what the grid reports once face_edge_connectivity exists is judged
                e = [list(map(int, r)) for r in np.asarray(g.edge_node_connectivity.values)]
                ne = int(g.n_edge)
        bad = spec_check(t, e, fe, npf, ne)
        if bad:
            ck.fail(bad, {"table": t, "level": "grid", "order": idx % 3, "layout": (idx // 3) % 3, "supplied_edges": sup, "dtype": (idx // 7) % 3}, {"level": "grid", "supplied_edges": bool(sup)},
                    detail=json.dumps({"edges": e, "face_edge": fe, "npf": npf}))
        res["grid"] = canon(e, fe, npf)
        if sup:
            res["sup"] = (sup, e, fe)
            # history: the edge table read again after every derivation is the one read first
            e2 = [list(map(int, r)) for r in np.asarray(g.edge_node_connectivity.values)]
            if e2 != [list(r) for r in e]:
                ck.fail("edge_table_changes_between_reads", {"table": t, "level": "grid", "supplied_edges": sup, "order": idx % 3},
                        {"level": "grid", "supplied_edges": True}, detail=json.dumps({"first": e, "second": e2}))
        if c.get("closed") and c.get("n_node") is not None:
            used = len({x for r in t for x in r if x != FILL})
            if g.n_node - ne + g.n_face != 2 or used != g.n_node:
                ck.fail("euler", {"table": t, "name": c.get("name")}, {"level": "grid"},
                        detail="n_node=%d n_edge=%d n_face=%d" % (g.n_node, ne, g.n_face))
        if ll and len(t) >= 2 and (idx % 4 == 1 or rp.get("faces")):
            # a grid obtained from this one by isel is a grid too: its edge tables must describe ITS face table
            rng = ck.rng
            k = rng.randint(1, len(t))
            sel = rp.get("faces") or rng.sample(range(len(t)), k)
            try:
                sub = g.isel(n_face=sel)
                st = [[int(x) for x in r] for r in np.asarray(sub.face_node_connectivity.values)]
                se = [tuple(int(x) for x in r) for r in np.asarray(sub.edge_node_connectivity.values)]
                sfe = [[int(x) for x in r] for r in np.asarray(sub.face_edge_connectivity.values)]
                snpf = [int(x) for x in np.asarray(sub.n_nodes_per_face.values)]
                bad = spec_check(st, se, sfe, snpf, int(sub.n_edge))
                if bad:
                    ck.fail(bad, {"table": t, "level": "isel", "order": idx % 3, "layout": (idx // 3) % 3, "supplied_edges": sup,
                                  "faces": sel, "lonlat": ll}, {"level": "isel", "supplied_edges": bool(sup)},
                            detail=json.dumps({"sub_table": st, "edges": se, "face_edge": sfe, "npf": snpf}))
                ck.extra["isel_grids_checked"] = ck.extra.get("isel_grids_checked", 0) + 1
            except Exception as ex:
                ck.fail("raises", {"table": t, "level": "isel", "order": idx % 3, "layout": (idx // 3) % 3, "supplied_edges": sup,
                                  "faces": sel, "lonlat": ll}, {"level": "isel", "supplied_edges": bool(sup)}, detail=repr(ex))
    except Exception as ex:
        ck.fail("raises", {"table": t, "level": "grid"}, {"level": "grid"}, detail=repr(ex))
    if c.get("lonlat") and (idx % 6 == 4 or (c.get("replay") or {}).get("level") == "ugrid_reopen"):
        # a grid whose edges were derived, exported to UGRID and opened again is a grid too — in particular when node 0 is
        # not a corner of any face (regional cut-outs keep global node arrays): its edge tables must describe ITS faces
        try:
            import uxarray as ux
            lon0, lat0 = c["lonlat"]
            t1 = [[(x + 1 if x != FILL else FILL) for x in r] for r in t]
            g1 = ux.Grid.from_topology(np.array([3.25] + list(lon0), dtype=float), np.array([-7.5] + list(lat0), dtype=float),
                                       np.array(t1, dtype=np.intp), fill_value=FILL)
            g1.edge_node_connectivity
            if idx % 12 == 4:
                g1.face_edge_connectivity
            g2 = ux.Grid.from_dataset(g1.to_xarray("ugrid"))
            e2 = [tuple(int(x) for x in r) for r in np.asarray(g2.edge_node_connectivity.values)]
            fe2 = [[int(x) for x in r] for r in np.asarray(g2.face_edge_connectivity.values)]
            npf2 = [int(x) for x in np.asarray(g2.n_nodes_per_face.values)]
            t2 = [[int(x) for x in r] for r in np.asarray(g2.face_node_connectivity.values)]
            bad = "reopened_faces_differ" if t2 != t1 else spec_check(t1, e2, fe2, npf2, int(g2.n_edge))
            if bad:
                ck.fail(bad, {"table": t, "level": "ugrid_reopen", "lonlat": c["lonlat"]}, {"level": "ugrid_reopen"},
                        detail=json.dumps({"edges": e2[:12], "face_edge": fe2[:6]}))
            ck.extra["ugrid_reopened_grids"] = ck.extra.get("ugrid_reopened_grids", 0) + 1
        except Exception as ex:
            ck.fail("raises", {"table": t, "level": "ugrid_reopen", "lonlat": c["lonlat"]}, {"level": "ugrid_reopen"}, detail=repr(ex))
    return res


def model_lines(cases):
    return [sx([len(c["table"][0]), c["table"]]) for c in cases]


def main(ck):
    ck.check_props()
    ok = ck.build_driver()
    cases = gen_cases(ck)
    ck.cov["rule"] = ("corpus + all tables with 1-2 faces on <=4 nodes (sizes 3-4, both padding widths; quick: "
                      "sampled pairs) + random combinatorial tables (<=12 nodes, <=8 faces, sizes 3..8, shared "
                      "edges of any multiplicity) + sphere tilings grown from 9 polyhedra by split/subdivide/"
                      "stellate/dual, partial by face deletion, renumbered, random start corner; non-trivial = "
                      ">=2 faces or padding present; distinct = distinct table")
    model = ck.run_model("c02", model_lines(cases)) if ok else [None] * len(cases)
    hist = {}
    sizes = {}
    impl_raw = {}
    sup_cases = []
    for idx, c in enumerate(cases):
        t = c["table"]
        nontrivial = len(t) >= 2 or any(x == FILL for r in t for x in r)
        ck.note_case(t, nontrivial)
        hist[c["kind"]] = hist.get(c["kind"], 0) + 1
        for r in t:
            k = sum(1 for x in r if x != FILL)
            sizes[k] = sizes.get(k, 0) + 1
        res = run_case_impl(ck, c, idx)
        if "raw" in res:
            impl_raw[idx] = res["raw"]
        if "sup" in res:
            sup_cases.append((t, res["sup"]))
        mo = model[idx]
        if mo is not None:
            if isinstance(mo, list) and mo and mo[0] == "ERR":
                ck.corr_failures.append({"case": t, "model": mo})
                continue
            me = [tuple(p) for p in mo[0]]
            mcanon = canon(me, mo[1], mo[2])
            # the proved model must itself satisfy the clauses (sanity of the spec transcription)
            mbad = spec_check(t, me, mo[1], mo[2], len(me))
            if mbad:
                ck.corr_failures.append({"case": t, "model_violates": mbad})
            for lvl in ("builders", "grid"):
                if lvl in res and res[lvl] != mcanon:
                    ck.corr_failures.append({"case": t, "level": lvl, "impl": res[lvl], "model": mcanon})
        if idx < 3 or (c["kind"] == "mesh" and len(ck.cov["samples"]) < 4):
            ck.sample({"kind": c["kind"], "table": [["F" if x == FILL else x for x in r] for r in t][:6],
                       "edges_impl": res.get("raw", ([],))[0][:8]})
    # source-supplied edge tables: the model of _populate_face_edge_connectivity's keep-or-replace branch
    # (Coq: C02_supplied_*) must agree EXACTLY (row order, orientation, numbering) with the grid
    if ok and sup_cases:
        mo = ck.run_model("c02_sup", [sx([len(t[0]), t, sup]) for t, (sup, e, fe) in sup_cases])
        kept = 0
        for (t, (sup, e, fe)), r in zip(sup_cases, mo):
            if isinstance(r, list) and r and r[0] == "ERR":
                ck.corr_failures.append({"case": t, "supplied": sup, "model": r})
                continue
            kept += int(r[0])
            if [list(p) for p in r[1]] != [list(p) for p in e] or r[2] != fe:
                ck.corr_failures.append({"case": t, "supplied": sup, "level": "supplied", "impl": [e, fe], "model": r})
            if r[0] == 1 and [list(p) for p in e] != [list(p) for p in sup]:
                ck.fail("supplied_table_not_kept", {"table": t, "level": "grid", "supplied_edges": sup}, {"level": "grid", "supplied_edges": True},
                        detail=json.dumps({"reported": e}))
        ck.extra["supplied_edge_tables"] = {"cases": len(sup_cases), "kept_by_model": kept, "replaced_by_model": len(sup_cases) - kept}
    # the certified checker (Coq: C02_checker_decides_spec), extracted, on the IMPLEMENTATION's outputs
    certified = 0
    if ok:
        lines, owners = [], []
        for idx, c in enumerate(cases):
            raw = impl_raw.get(idx)
            if raw is None:
                continue
            lines.append(sx([c["table"], raw[0], raw[1], raw[2]]))
            owners.append((idx, raw))
        verdicts = ck.run_model("c02_check", lines)
        for (idx, raw), v in zip(owners, verdicts):
            certified += 1
            py = spec_check(cases[idx]["table"], raw[0], raw[1], raw[2], len(raw[0]))
            if v != 1:
                ck.fail("certified_checker_rejects", {"table": cases[idx]["table"], "level": "builders"}, {"level": "builders"},
                        detail=json.dumps({"edges": raw[0], "face_edge": raw[1], "npf": raw[2], "python_clause": py}))
            elif py is not None:
                ck.corr_failures.append({"case": cases[idx]["table"], "python_checker": py, "certified_checker": "accepts"})
    # extraction audit: the same model evaluated by the kernel (vm_compute) on a sample
    audit_n = 0
    if ok:
        sample = [c for c in cases if len(c["table"]) <= 6][:40]
        lines = []
        for c in sample:
            tt = "[" + ";".join("[" + ";".join("FILL" if x == FILL else "%d" % x for x in r) + "]" for r in c["table"]) + "]"
            lines.append("Eval vm_compute in (edges %s%%Z, face_edges %s%%Z %d%%nat)." % (tt, tt, len(c["table"][0])))
        rc, out = ck.audit_vm(lines, "From Verif Require Import Base C02.\nOpen Scope Z_scope.")
        if rc != 0:
            ck.proof["errors"].append("in-kernel audit failed: " + out[-800:])
        else:
            import re
            blocks = re.split(r"(?m)^\s*= ", out)[1:]
            ml = ck.run_model("c02", model_lines(sample))
            for b, mo in zip(blocks, ml):
                body = b.split("\n     :")[0]
                txt = body.replace("-9223372036854775808", "F")
                nums = re.findall(r"-?\d+|F", txt)
                flat = []

                def fl(v):
                    if isinstance(v, list):
                        for q in v:
                            fl(q)
                    else:
                        flat.append("F" if v == FILL else str(v))
                fl([mo[0], mo[1]])
                if nums != flat:
                    ck.proof["errors"].append("extraction audit mismatch: kernel %s vs extracted %s" % (nums[:30], flat[:30]))
                audit_n += 1
    ck.extra.update({"case_kinds": hist, "face_size_histogram": {str(k): v for k, v in sorted(sizes.items())},
                     "extraction_audit_cases": audit_n, "impl_outputs_decided_by_certified_checker": certified,
                     "clauses_checked_on_impl": ["edges_exact", "edges_once", "edges_no_padding", "n_edge",
                                                 "face_edge", "face_edge_padding", "n_nodes_per_face", "euler (closed tilings)"],
                     "partial": "Euler's formula is checked on every generated closed tiling (not proved in Coq: no "
                                "combinatorial-map library); all other clauses are theorems"})
    ck.trusted += ["numpy primitives modelled by documented semantics: np.unique(axis=0,return_inverse), sort(axis=1), "
                   "argmax, put, searchsorted(side=right), isin, reshape"]
    ck.assumptions += ["tables are in standard form (C01 owns that)"]


def replay(ck, rp):
    c = {"kind": "replay", "table": rp["case"]["table"], "replay": rp["case"], "lonlat": rp["case"].get("lonlat")}
    ck.note_case(c["table"])
    ck.note_case("replay")
    run_case_impl(ck, c, rp["case"].get("order", 0))
