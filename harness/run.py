"""Dispatcher: ./check Cxx quick|thorough  |  ./check Cxx --replay file"""
import importlib
import json
import os
import sys
import traceback

sys.path.insert(0, os.path.dirname(os.path.abspath(__file__)))
import common


def main():
    if len(sys.argv) < 3:
        print("usage: check Cxx quick|thorough | check Cxx --replay file")
        return 2
    pid = sys.argv[1]
    seed = int(os.environ.get("VERIF_SEED", "20260930"))
    if sys.argv[2] == "--replay":
        tier = "quick"
        replay = json.load(open(sys.argv[3]))
    else:
        tier = os.environ.get("VERIF_TIER") or sys.argv[2]
        if tier not in ("quick", "thorough"):
            tier = "quick"
        replay = None
    ck = common.Check(pid, tier, seed)
    mod = importlib.import_module(pid.lower())
    try:
        if replay is not None:
            mod.replay(ck, replay)
        else:
            mod.main(ck)
    except Exception:
        tb = traceback.format_exc()
        sys.stderr.write(tb)
        ck.proof["errors"].append("harness crashed: " + tb[-1500:])
    return ck.finish()


if __name__ == "__main__":
    sys.exit(main())
