"""C08 — reading from a grid never changes what any grid reports.

Proof: coq/Props/C08_props.v (invariant over histories of the lazy-variable machine; generic cache
transparency theorem instantiated with key sets regenerated from grid.py by
harness/translators/c08_caches.py).  Tie: random histories of public read-only operations over one
or two grids; after EVERY operation the harness compares (a) the set of variables in Grid._ds with
the model's state, (b) every stored variable with its canonical (fresh-grid) value, (c) the module
level constants with their import-time snapshot, (d) the operation's result with a fresh grid's.
"""
import copy
import json
import os
import subprocess
import sys

import numpy as np

import common
import meshgen
from common import FILL, sx

GROUPS = {
    "NPF": ["n_nodes_per_face"], "EN": ["edge_node_connectivity"], "FE": ["face_edge_connectivity"],
    "EF": ["edge_face_connectivity"], "NF": ["node_face_connectivity"], "FF": ["face_face_connectivity"],
    "HOLE": ["hole_edge_indices"], "NXYZ": ["node_x", "node_y", "node_z"],
    "FCEN": ["face_lon", "face_lat", "face_x", "face_y", "face_z"],
    "ECEN": ["edge_lon", "edge_lat", "edge_x", "edge_y", "edge_z"], "AREAS": ["face_areas"],
    "END": ["edge_node_distances"], "EFD": ["edge_face_distances"], "ENZ": ["edge_node_z"], "BOUNDS": ["bounds"],
    "TOPO": ["grid_topology"],
}
VAR2GROUP = {v: g for g, vs in GROUPS.items() for v in vs}
SOURCE_VARS = {"node_lon", "node_lat", "face_node_connectivity"}

ATTR_OPS = {  # attribute -> model gets
    "n_nodes_per_face": ["NPF"], "edge_node_connectivity": ["EN"], "face_edge_connectivity": ["FE"],
    "edge_face_connectivity": ["EF"], "node_face_connectivity": ["NF"], "face_face_connectivity": ["FF"],
    "hole_edge_indices": ["HOLE"], "node_x": ["NXYZ"], "node_y": ["NXYZ"], "node_z": ["NXYZ"],
    "face_lon": ["FCEN"], "face_lat": ["FCEN"], "face_x": ["FCEN"], "face_z": ["FCEN"],
    "edge_lon": ["ECEN"], "edge_lat": ["ECEN"], "edge_y": ["ECEN"], "face_areas": ["AREAS"],
    "edge_node_distances": ["END"], "edge_face_distances": ["EFD"], "edge_node_z": ["ENZ"], "bounds": ["BOUNDS"],
    "n_edge": ["EN"], "n_max_face_edges": ["FE"], "n_max_node_faces": ["NF"], "n_max_face_faces": ["FF"],
    "antimeridian_face_indices": ["NPF"], "face_jacobian": ["AREAS"], "node_lon": [], "node_lat": [],
    "face_node_connectivity": [], "n_face": [], "n_node": [], "n_max_face_nodes": [], "sizes": [], "dims": [],
}

# operations returning a NEW grid: its lon/lat may have been derived before slicing (on the source's arrays) or after
# (on the subset's arrays); numpy's vectorised arctan2/arcsin may differ in the last bit between the two array shapes,
# so coordinates of derived grids are compared to 1e-12 (degrees) instead of bit-for-bit
DERIVED_GRID_OPS = ("isel", "subset", "lat", "dual", "copy")

_proj_cache = {}


def proj(name):
    import cartopy.crs as ccrs
    if name is None:
        return None
    if name not in _proj_cache:
        _proj_cache[name] = {"robinson": lambda: ccrs.Robinson(), "platecarree": lambda: ccrs.PlateCarree(),
                             "robinson120": lambda: ccrs.Robinson(central_longitude=120),
                             "platecarree-75": lambda: ccrs.PlateCarree(central_longitude=-75)}[name]()
    return _proj_cache[name]


def gen_op(rng):
    """(op tuple, model gets)"""
    k = rng.choice(["attr"] * 8 + ["areas", "total", "xr", "gdf", "poly", "line", "ball", "kd", "chunk", "isel", "subset",
                                  "lat", "dual", "copy", "repr", "query", "data", "data"])
    if k == "data":
        # operations on a UxDataArray living on the grid: they read (and lazily derive) grid variables
        what = rng.choice(["topo_face", "topo_edge", "integrate", "gradient", "difference_node", "difference_face", "data_isel"])
        gets = {"topo_face": ["NPF"], "topo_edge": ["EN"], "integrate": ["NPF"], "gradient": ["EFD"], "difference_node": ["EN"],
                "difference_face": ["EF"], "data_isel": ["FE"]}[what]
        return ("data", what, rng.choice(["mean", "max", "sum", "median"])), gets
    if k == "attr":
        a = rng.choice(sorted(ATTR_OPS))
        return ("attr", a), ATTR_OPS[a]
    if k == "areas":
        # every rule with the DEFAULT order (4) and with other orders: a cache keyed on one of the two arguments only must show
        rule, order = rng.choice([("triangular", 4), ("triangular", 1), ("gaussian", 3), ("triangular", 8), ("gaussian", 5),
                                  ("gaussian", 4), ("gaussian", 4), ("triangular", 10), ("gaussian", 6)])
        latlon = rng.random() < 0.6
        return ("areas", rule, order, latlon), ["NPF"] + ([] if latlon else ["NXYZ"])
    if k == "total":
        rule, order = rng.choice([("triangular", 4), ("gaussian", 4)])
        return ("total", rule, order), ["NPF"]
    if k == "xr":
        f = rng.choice(["ugrid", "ugrid", "exodus", "scrip"])
        return ("xr", f), {"ugrid": ["@encode_ugrid"], "exodus": [], "scrip": ["AREAS"]}[f]
    if k in ("gdf", "poly", "line"):
        pe = rng.choice(["exclude", "split", "ignore"])
        pj = rng.choice([None, None, None, "robinson", "platecarree", "robinson120", "platecarree-75"])
        if pe == "split" and pj is not None and k == "gdf":
            pj = None
        cache = rng.random() < 0.8
        override = rng.random() < 0.15
        gets = [] if pe == "ignore" else ["NPF"]      # the antimeridian faces are not needed for "ignore"
        if k == "gdf":
            eng = rng.choice(["spatialpandas", "geopandas"])
            return ("gdf", pe, pj, eng, cache, override), gets
        return (k, pe, pj, cache, override), gets
    if k in ("ball", "kd", "query"):
        coords = rng.choice(["nodes", "face centers", "edge centers"])
        if k == "ball" or (k == "query" and rng.random() < 0.5):
            system, metric = rng.choice([("spherical", "haversine"), ("spherical", "haversine"), ("cartesian", "minkowski")])
            tree = "ball"
        else:
            system, metric = rng.choice([("cartesian", "minkowski"), ("cartesian", "minkowski"), ("spherical", "minkowski")])
            tree = "kd"
        recon = rng.random() < 0.1
        g = {"nodes": ["NXYZ"] if system == "cartesian" else [], "face centers": ["FCEN"], "edge centers": ["ECEN"]}[coords]
        return (tree, coords, system, metric, recon), g
    if k == "chunk":
        return ("chunk", rng.choice([1, 2, 5])), []
    if k == "isel":
        dim = rng.choice(["n_face", "n_node", "n_edge"])
        return ("isel", dim, rng.randrange(0, 3)), {"n_face": ["FE"], "n_node": ["NF", "FE"], "n_edge": ["EF"]}[dim]
    if k == "subset":
        el = rng.choice(["nodes", "face centers", "edge centers"])
        kind = rng.choice(["bbox", "circle", "knn"])
        sel = {"nodes": ["NF", "FE"], "face centers": ["FCEN", "FE"], "edge centers": ["ECEN", "EF"]}[el]
        return ("subset", kind, el), sel
    if k == "lat":
        return ("lat", rng.choice([0.0, 10.5, -33.25])), ["ENZ", "EF"]
    if k == "dual":
        return ("dual",), ["NF", "FCEN"]
    if k == "copy":
        return ("copy",), []
    return ("repr",), ["NPF"]


PROBE_LL = [[10.0, 20.0], [-170.0, -45.0], [179.5, 0.5]]
PROBE_XYZ = [[1.0, 0.0, 0.0], [0.0, 0.6, 0.8], [-0.48, -0.6, 0.64]]


def apply_op(g, op):
    k = op[0]
    if k == "attr":
        return getattr(g, op[1])
    if k == "areas":
        return g.compute_face_areas(quadrature_rule=op[1], order=op[2], latlon=op[3])
    if k == "total":
        return g.calculate_total_face_area(op[1], op[2])
    if k == "xr":
        return g.to_xarray(op[1])
    if k == "gdf":
        return g.to_geodataframe(periodic_elements=op[1], projection=proj(op[2]), engine=op[3], cache=op[4], override=op[5])
    if k == "poly":
        return g.to_polycollection(periodic_elements=op[1], projection=proj(op[2]), cache=op[3], override=op[4])
    if k == "line":
        return g.to_linecollection(periodic_elements=op[1], projection=proj(op[2]), cache=op[3], override=op[4])
    if k in ("ball", "kd"):
        get = g.get_ball_tree if k == "ball" else g.get_kd_tree
        t = get(coordinates=op[1], coordinate_system=op[2], distance_metric=op[3], reconstruct=op[4])
        n = g.n_node if op[1] == "nodes" else (g.n_face if op[1] == "face centers" else g.n_edge)
        kk = min(3, n)
        probe = PROBE_LL if op[2] == "spherical" else PROBE_XYZ
        d, i = t.query(np.array(probe), k=kk)
        # also ask for ALL elements of the requested kind (k = n is admissible for that kind whatever was requested before)
        d2, i2 = t.query(np.array(probe), k=n)
        return ("tuple2", ("treequery", type(t).__name__, np.asarray(d), np.asarray(i)),
                ("treequery", type(t).__name__, np.asarray(d2), np.asarray(i2)))
    if k == "chunk":
        return g.chunk(n_node=op[1], n_face=op[1], n_edge=op[1])
    if k == "isel":
        return g.isel(**{op[1]: [op[2]]})
    if k == "subset":
        if op[1] == "bbox":
            return g.subset.bounding_box((-120.123, 151.377), (-61.219, 77.731), element=op[2])
        if op[1] == "circle":
            return g.subset.bounding_circle((12.345, -6.789), 97.531, element=op[2])
        return g.subset.nearest_neighbor((-44.4, 33.3), 2, element=op[2])
    if k == "lat":
        return g.cross_section.constant_latitude(op[1])
    if k == "dual":
        return g.get_dual()
    if k == "copy":
        return g.copy()
    if k == "repr":
        return repr(g)
    if k == "data":
        import uxarray as ux
        what = op[1]
        if what in ("topo_face", "topo_edge", "difference_node"):
            da = ux.UxDataArray(np.arange(2.0 * g.n_node).reshape(2, g.n_node) % 7, dims=["t", "n_node"], uxgrid=g, name="v")
        else:
            da = ux.UxDataArray(np.arange(2.0 * g.n_face).reshape(2, g.n_face) % 5, dims=["t", "n_face"], uxgrid=g, name="v")
        if what == "topo_face":
            return getattr(da, "topological_" + op[2])(destination="face")
        if what == "topo_edge":
            return getattr(da, "topological_" + op[2])(destination="edge")
        if what == "integrate":
            return da.integrate()
        if what == "gradient":
            return da.gradient()
        if what in ("difference_node", "difference_face"):
            return da.difference("edge")
        return da.isel(n_face=[0])
    raise ValueError(op)


def arr(x):
    a = np.asarray(x)
    return ("arr", a.dtype.kind, tuple(a.shape), a)


def canon(r):
    import xarray as xr
    if r is None or isinstance(r, (bool, int, float, str, np.integer, np.floating, np.bool_)):
        return ("scalar", r if not isinstance(r, (np.floating, float)) else float(r))
    if isinstance(r, (set, frozenset)):
        return ("set", sorted(map(str, r)))
    if isinstance(r, dict):
        return ("dict", sorted((str(k), repr(v)) for k, v in r.items()))
    if isinstance(r, tuple) and r and r[0] == "tuple2":
        return ("tuple", [canon(r[1]), canon(r[2])])
    if isinstance(r, tuple) and r and r[0] == "treequery":
        return ("tree", r[1], arr(r[2]), arr(r[3]))
    if isinstance(r, (tuple, list)):
        return ("tuple", [canon(x) for x in r])
    if isinstance(r, xr.DataArray):
        return arr(r.values)
    if isinstance(r, np.ndarray):
        return arr(r)
    if isinstance(r, xr.Dataset):
        return ("dataset", {str(k): arr(v.values) for k, v in r.variables.items()},
                {str(k): repr(v) for k, v in r.attrs.items()})
    name = type(r).__name__
    if name == "Grid":
        d = {"fn": arr(r.face_node_connectivity.values), "lon": arr(r.node_lon.values), "lat": arr(r.node_lat.values),
             "spec": r.source_grid_spec}
        for kk in ("subgrid_face_indices", "subgrid_node_indices", "subgrid_edge_indices"):
            if kk in r._ds:
                d[kk] = arr(r._ds[kk].values)
        return ("grid", d)
    if name == "GeoDataFrame":
        geom = r["geometry"] if "geometry" in r else r.geometry
        vals = geom.values
        if hasattr(vals, "buffer_values"):
            return ("gdf", arr(np.asarray(vals.buffer_values)), [arr(np.asarray(o)) for o in vals.buffer_offsets])
        out = []
        for p in geom:
            parts = list(p.geoms) if hasattr(p, "geoms") else [p]
            out.append([np.asarray(q.exterior.coords) for q in parts])
        return ("gdf_geo", [[arr(a) for a in ps] for ps in out])
    if name == "PolyCollection":
        return ("poly", [arr(p.vertices) for p in r.get_paths()])
    if name == "LineCollection":
        return ("line", [arr(s) for s in r.get_segments()])
    return ("other", name)


def same(a, b, tol=0.0):
    if type(a) is not type(b):
        return False
    if isinstance(a, tuple) and a and a[0] == "arr":
        if a[1] != b[1] or a[2] != b[2]:
            return False
        x, y = a[3], b[3]
        if x.dtype.kind in "fc":
            if tol:
                return bool(np.allclose(x, y, rtol=tol, atol=tol, equal_nan=True))
            return bool(np.array_equal(x, y, equal_nan=True))
        if x.dtype.kind == "O":
            return repr(x.tolist()) == repr(y.tolist())
        return bool(np.array_equal(x, y))
    if isinstance(a, tuple):
        if a and a[0] == "scalar" and isinstance(a[1], float) and isinstance(b[1], float):
            return a[1] == b[1] or (a[1] != a[1] and b[1] != b[1]) or (tol and abs(a[1] - b[1]) <= tol * max(1.0, abs(a[1])))
        return len(a) == len(b) and all(same(x, y, tol) for x, y in zip(a, b))
    if isinstance(a, list):
        return len(a) == len(b) and all(same(x, y, tol) for x, y in zip(a, b))
    if isinstance(a, dict):
        return a.keys() == b.keys() and all(same(a[k], b[k], tol) for k in a)
    return a == b


def fold180(g):
    """a canonicalised Grid with every node longitude of -180 written as +180"""
    d = dict(g[1])
    a = d["lon"]
    x = np.array(a[3], dtype=float, copy=True)
    x[x == -180.0] = 180.0
    d["lon"] = (a[0], a[1], a[2], x)
    return (g[0], d)


def same_export(hist, fresh, canon_vars):
    """exports differ from a fresh grid's export only by extra derived variables holding the canonical value"""
    if hist[0] != "dataset" or fresh[0] != "dataset":
        return same(hist, fresh)
    hv, fv = hist[1], fresh[1]
    for k in fv:
        if k == "qa_records":
            continue                       # holds the wall-clock date and time of the export
        if k not in hv or not same(hv[k], fv[k]):
            return "export_var_" + k
    for k in hv:
        if k in fv:
            continue
        if k not in canon_vars:
            return "export_extra_unknown_" + k
        if not same(hv[k], canon_vars[k]):
            return "export_extra_stale_" + k
    return True


def snapshot_globals():
    import uxarray.constants as c
    import uxarray.conventions.descriptors as d
    import uxarray.conventions.ugrid as u
    out = {}
    for mod in (u, d, c):
        for k, v in vars(mod).items():
            if k.isupper():
                out[mod.__name__ + "." + k] = repr(v)
    return out


def mk_grid(m, kind):
    import uxarray as ux
    lon, lat = m.lonlat()
    t = np.array(m.table(), dtype=np.intp)
    if kind == "lonlat":
        return ux.Grid.from_topology(np.array(lon), np.array(lat), t, fill_value=FILL)
    x = np.array([p[0] for p in m.nodes]); y = np.array([p[1] for p in m.nodes]); z = np.array([p[2] for p in m.nodes])
    if kind == "edges":
        # a source that ships its own edge table in arbitrary order and orientation
        pairs = sorted({(min(a, b), max(a, b)) for f in m.faces for a, b in zip(f, f[1:] + f[:1])})
        pairs = [list(p) if i % 2 else [p[1], p[0]] for i, p in enumerate(pairs)]
        import random
        random.Random(len(pairs)).shuffle(pairs)       # a generic permutation (not an involution)
        return ux.Grid.from_topology(np.array(lon), np.array(lat), t, fill_value=FILL,
                                     edge_node_connectivity=np.array(pairs, dtype=np.intp))
    if kind == "aux":
        # a source that ships its own face areas (in its own units: nothing the library would compute), the way MPAS
        # areaCell / SCRIP grid_area / a user assignment do: no read may ever replace them
        import xarray as xr
        ds = xr.Dataset()
        ds["node_lon"] = xr.DataArray(np.array(lon), dims=["n_node"])
        ds["node_lat"] = xr.DataArray(np.array(lat), dims=["n_node"])
        ds["face_node_connectivity"] = xr.DataArray(t, dims=["n_face", "n_max_face_nodes"])
        ds["face_areas"] = xr.DataArray(1.0e6 * (3.0 + np.arange(len(m.faces), dtype=float)), dims=["n_face"])
        return ux.Grid.from_dataset(ds, source_grid_spec="Areas Source")
    if kind == "cart":
        # a source that ships Cartesian node coordinates only, on a sphere of radius 2.5
        import xarray as xr
        ds = xr.Dataset()
        for nm, v in (("node_x", x), ("node_y", y), ("node_z", z)):
            ds[nm] = xr.DataArray(2.5 * v, dims=["n_node"])
        ds["face_node_connectivity"] = xr.DataArray(t, dims=["n_face", "n_max_face_nodes"])
        return ux.Grid.from_dataset(ds, source_grid_spec="Cartesian Source")
    return ux.Grid.from_topology(np.array(lon), np.array(lat), t, fill_value=FILL, node_x=x, node_y=y, node_z=z)


class Ref:
    """fresh-grid answers, computed lazily and memoised per (mesh, source kind)"""

    def __init__(self, m, kind):
        self.m, self.kind = m, kind
        self.results = {}
        self.vars = {}

    def result(self, op):
        key = repr(op)
        if key not in self.results:
            g = mk_grid(self.m, self.kind)
            try:
                self.results[key] = canon(apply_op(g, op))
            except Exception as ex:
                self.results[key] = ("raises", type(ex).__name__)
        return self.results[key]

    def var(self, name):
        if name not in self.vars:
            g = mk_grid(self.m, self.kind)
            if name == "grid_topology":
                g.to_xarray("ugrid")
                self.vars[name] = arr(g._ds[name].values)
            else:
                self.vars[name] = arr(getattr(g, name).values)
        return self.vars[name]


def ds_groups(g, source_extra):
    names = set(map(str, g._ds.variables)) - SOURCE_VARS - source_extra
    groups = set()
    unknown = []
    for n in names:
        if n in VAR2GROUP:
            groups.add(VAR2GROUP[n])
        else:
            unknown.append(n)
    partial = [gr for gr in groups if not all(v in names for v in GROUPS[gr])]
    return groups, unknown, partial


def model_line(gets_per_op):
    ops = []
    for gets in gets_per_op:
        if not gets:
            ops.append("pure")
        for x in gets:
            ops.append("encode_ugrid" if x == "@encode_ugrid" else ["get", x])
    return ops


def run_history(ck, meshes, kinds, hist, refs, g0, known_set, stats):
    """hist: list of (target index, op, gets). Returns list of per-op expected model positions."""
    grids = [mk_grid(m, k) for m, k in zip(meshes, kinds)]
    extra = [({"node_x", "node_y", "node_z"} if k in ("xyz", "cart") else
              ({"edge_node_connectivity"} if k == "edges" else ({"face_areas"} if k == "aux" else set())))
             for k in kinds]
    case = {"meshes": [{"nodes": m.nodes, "faces": m.faces} for m in meshes], "kinds": kinds,
            "history": [[t, list(op)] for t, op, _ in hist]}
    impl_sets = [[] for _ in grids]
    raised = [False for _ in grids]
    refs = list(refs)
    kinds = list(kinds)
    for step, (t, op, gets) in enumerate(hist):
        g = grids[t]
        if op[0] == "spawn_copy":
            # Grid.copy() kept alive as a further grid of the world (model: WCopy): it starts from what the original holds
            # now, and from here on neither may affect the other
            try:
                grids.append(g.copy())
            except Exception as ex:
                ck.fail("raises", dict(case, failing_step=step), {"op": "spawn_copy", "step": step}, detail=repr(ex))
                grids.append(mk_grid(refs[t].m, kinds[t]))
            refs.append(refs[t]); kinds.append(kinds[t]); extra.append(set(extra[t]))
            impl_sets.append([None] * step); raised.append(True)      # (variable sets of spawned grids are not sent to the model)
            case["kinds"] = list(kinds)
        try:
            r = canon(apply_op(g, op)) if op[0] != "spawn_copy" else ("scalar", None)
        except Exception as ex:
            r = ("raises", type(ex).__name__)
        stats["ops"][op[0]] = stats["ops"].get(op[0], 0) + 1
        if r[0] == "raises":
            raised[t] = True        # a raising operation may have derived only part of what the model assumes
        fresh = refs[t].result(op) if op[0] != "spawn_copy" else ("scalar", None)
        info = {"op": op[0], "arg": str(op[1]) if len(op) > 1 else "", "step": step}
        if op[0] == "xr":
            cv = {}
            if r[0] == "dataset":
                for kname in r[1]:
                    if kname not in fresh[1] if fresh[0] == "dataset" else True:
                        try:
                            cv[kname] = refs[t].var(kname)
                        except Exception:
                            pass
            ok = same_export(r, fresh, cv)
            if ok is not True:
                ck.fail("export_differs", dict(case, failing_step=step), dict(info, what=str(ok)))
        elif op[0] == "repr" or (op[0] == "attr" and op[1] in ("sizes", "dims")):
            # introspection of what is materialised: may only grow with the history
            if op[0] == "attr" and r[0] == fresh[0] and r[0] in ("set", "dict") and not set(map(str, fresh[1])) <= set(map(str, r[1])):
                ck.fail("introspection_lost_entries", dict(case, failing_step=step), info)
        elif not same(r, fresh, tol=(1e-12 if op[0] in DERIVED_GRID_OPS else 0.0)):
            if r[0] == "grid" and fresh[0] == "grid" and same(fold180(r), fold180(fresh), tol=1e-12):
                # the two grids differ only in a node longitude reported as -180 by one and +180 by the other (same point)
                info = dict(info, differs_only_in="sign_of_180_degree_node_longitude",
                            source_supplies_lonlat=kinds[t] not in ("cart",))
            ck.fail("result_differs_from_fresh", dict(case, failing_step=step), info,
                    detail="history result %s vs fresh %s" % (str(r)[:300], str(fresh)[:300]))
        # (c) module-level constants
        now = snapshot_globals()
        if now != g0:
            changed = sorted(k for k in now if now[k] != g0.get(k))
            ck.fail("globals_changed", dict(case, failing_step=step), dict(info, names=",".join(changed)),
                    detail=json.dumps({k: [g0.get(k), now[k]] for k in changed})[:1500])
            # restore so that one leak is reported once
            g0.clear(); g0.update(now)
        # (a)+(b) state of EVERY grid after this op
        for gi, gg in enumerate(grids):
            groups, unknown, partial = ds_groups(gg, extra[gi])
            if kinds[gi] == "xyz":
                groups.discard("NXYZ")
            if kinds[gi] == "edges":
                groups.discard("EN")
                if "edge_node_connectivity" in gg._ds and \
                        not same(arr(gg._ds["edge_node_connectivity"].values), refs[gi].var("edge_node_connectivity")):
                    ck.fail("source_variable_changed", dict(case, failing_step=step), dict(info, var="edge_node_connectivity", grid=gi))
            impl_sets[gi].append(None if (raised[gi] or kinds[gi] in ("cart", "aux")) else sorted(groups))
            if kinds[gi] == "aux":
                if "face_areas" not in gg._ds or not same(arr(gg._ds["face_areas"].values), refs[gi].var("face_areas")):
                    ck.fail("source_variable_changed", dict(case, failing_step=step), dict(info, var="face_areas", grid=gi))
            if unknown or partial:
                ck.fail("unexpected_variables", dict(case, failing_step=step), dict(info, names=",".join(unknown + partial)))
            for name in map(str, gg._ds.variables):
                if name in SOURCE_VARS or name in extra[gi] or name not in VAR2GROUP:
                    continue
                try:
                    cur = arr(gg._ds[name].values)
                    if not same(cur, refs[gi].var(name)):
                        ck.fail("stored_variable_changed", dict(case, failing_step=step), dict(info, var=name, grid=gi))
                except Exception as ex:
                    ck.fail("stored_variable_unreadable", dict(case, failing_step=step), dict(info, var=name), detail=repr(ex))
            # source variables must never change either
            srcnames = ("node_x", "node_y", "node_z", "face_node_connectivity") if kinds[gi] == "cart" else \
                       ("node_lon", "node_lat", "face_node_connectivity")
            for name in srcnames:
                want = refs[gi].var(name)
                if name not in gg._ds or not same(arr(gg._ds[name].values), want):
                    ck.fail("source_variable_changed", dict(case, failing_step=step), dict(info, var=name, grid=gi))
    return case, impl_sets


def jit_off_reference(meshes_json, ops_json, jit_off=True):
    """canonical values computed in a subprocess (one fresh grid per operation) with the JIT disabled, or (jit_off=False) in a
    fresh interpreter in which nothing else ever happened: the reference for state shared BETWEEN grids"""
    code = r'''
import sys, json, warnings
warnings.filterwarnings("ignore")
sys.path.insert(0, %r)
import numpy as np, meshgen, c08
data = json.load(sys.stdin)
out = []
for mj, ops in zip(data["meshes"], data["ops"]):
    m = meshgen.Mesh(mj["nodes"], mj["faces"])
    row = []
    for op in ops:
        g = c08.mk_grid(m, "lonlat")
        try:
            r = c08.canon(c08.apply_op(g, tuple(op)))
            row.append(c08.to_jsonable(r))
        except Exception as ex:
            row.append(["raises", type(ex).__name__])
    out.append(row)
print("RESULT" + json.dumps(out))
''' % os.path.join(common.VERIF, "harness")
    env = common.impl_env({"NUMBA_DISABLE_JIT": "1"} if jit_off else {})
    p = subprocess.run([sys.executable, "-W", "ignore", "-c", code], input=json.dumps({"meshes": meshes_json, "ops": ops_json}),
                       text=True, stdout=subprocess.PIPE, stderr=subprocess.PIPE, env=env, timeout=3000)
    for line in p.stdout.splitlines():
        if line.startswith("RESULT"):
            return json.loads(line[6:])
    raise RuntimeError("jit-off subprocess failed: " + p.stderr[-1500:])


def to_jsonable(c):
    if isinstance(c, tuple) and c and c[0] == "arr":
        a = c[3]
        return ["arr", c[1], list(c[2]), (a.astype(float).tolist() if a.dtype.kind in "fiub" else repr(a.tolist()))]
    if isinstance(c, (tuple, list)):
        return [to_jsonable(x) for x in c]
    if isinstance(c, dict):
        return {k: to_jsonable(v) for k, v in c.items()}
    return c


def close_json(a, b, tol=1e-11):
    if isinstance(a, list) and a and a[0] == "arr" and isinstance(b, list) and b and b[0] == "arr":
        if a[1:3] != b[1:3]:
            return False
        if isinstance(a[3], str) or isinstance(b[3], str):
            return a[3] == b[3]
        return bool(np.allclose(np.array(a[3], dtype=float), np.array(b[3], dtype=float), rtol=tol, atol=tol, equal_nan=True))
    if isinstance(a, list) and isinstance(b, list):
        return len(a) == len(b) and all(close_json(x, y, tol) for x, y in zip(a, b))
    if isinstance(a, dict) and isinstance(b, dict):
        return a.keys() == b.keys() and all(close_json(a[k], b[k], tol) for k in a)
    if isinstance(a, float) and isinstance(b, float):
        return abs(a - b) <= tol * max(1.0, abs(a)) or (a != a and b != b)
    return a == b


def main(ck):
    ck.check_props()
    ok = ck.build_driver()
    rng = ck.rng
    g0 = snapshot_globals()
    stats = {"ops": {}}
    n_hist = 60 if ck.tier == "quick" else 700
    lines, keep = [], []
    lens = {}
    for hi in range(n_hist):
        two = rng.random() < 0.35
        meshes = [meshgen.gen_mesh(rng, max_ops=rng.choice([3, 6, 10]), partial=rng.random() < 0.3) for _ in range(2 if two else 1)]
        kinds = [rng.choice(["lonlat", "lonlat", "xyz", "cart", "edges", "aux"]) for _ in meshes]
        refs = [Ref(m, k) for m, k in zip(meshes, kinds)]
        n = rng.choice([1, 2, 3, 3, 5, 8, 14]) if ck.tier == "quick" else rng.choice([1, 2, 3, 5, 8, 14, 30])
        hist = []
        ngr = len(meshes)
        for _ in range(n):
            op, gets = gen_op(rng)
            t = rng.randrange(ngr)
            if rng.random() < 0.07 and ngr < 5:
                op, gets = ("spawn_copy",), []
                ngr += 1
            hist.append((t, op, gets))
            if op[0] in ("areas", "total") and rng.random() < 0.5:
                a = rng.choice(["face_jacobian", "face_areas"])
                hist.append((t, ("attr", a), ATTR_OPS[a]))
        lens[n] = lens.get(n, 0) + 1
        ck.note_case(([m.faces for m in meshes], kinds, [(t, op) for t, op, _ in hist]), nontrivial=n >= 2)
        case, impl_sets = run_history(ck, meshes, kinds, hist, refs, g0, None, stats)
        for gi in range(len(meshes)):
            # ops on the other grid are no-ops for this grid.  Reads that depend on cache hits / early errors
            # (conversions read n_nodes_per_face only on a miss; face_jacobian reads face_areas only when no
            # compute_face_areas call preceded) are resolved from the implementation's own state.
            ml = []
            for step, (t, op, gets) in enumerate(hist):
                if t != gi:
                    ml.append([])
                    continue
                gg = list(gets)
                cur = impl_sets[gi][step] or []
                if op[0] in ("gdf", "poly", "line"):
                    gg = ["NPF"] if "NPF" in cur else []
                if op == ("attr", "face_jacobian"):
                    gg = ["AREAS"] if "AREAS" in cur else ["NPF"]
                if kinds[gi] == "xyz":
                    gg = [x for x in gg]
                ml.append(gg)
            lines.append(sx(model_line(ml)))
            keep.append((case, gi, ml, impl_sets[gi], kinds[gi]))
        if hi < 3:
            ck.sample({"kinds": kinds, "history": [[t, list(map(str, op))] for t, op, _ in hist][:8], "n_faces": [len(m.faces) for m in meshes]})
    if ok:
        mod = ck.run_model("c08", lines)
        for (case, gi, ml, isets, kind), mo in zip(keep, mod):
            # model emits one state per model-op; fold back to one per impl-op
            pos = 0
            for step, gets in enumerate(ml):
                nops = max(1, len(gets))
                pos += nops
                mset = sorted(set(mo[pos - 1]) - ({"NXYZ"} if kind == "xyz" else ({"EN"} if kind == "edges" else set()))) if mo else []
                if isets[step] is None:
                    break                       # an operation raised on this grid: variable sets no longer comparable
                iset = sorted(isets[step])
                if mset != iset:
                    if os.environ.get("C08_DEBUG"):
                        print("CORR", case["history"][step], "impl", iset, "model", mset)
                    ck.corr_failures.append({"grid": gi, "step": step, "op": case["history"][step], "impl_vars": iset,
                                             "model_vars": mset})
                    break
    # directed cache probe: every ordered pair of differently parameterised calls of each cached conversion
    pair_count = 0
    pm = meshgen.gen_mesh(rng, max_ops=5, partial=False)
    pref = Ref(pm, "lonlat")
    combos = {
        "poly": [("poly", pe, pj, True, False) for pe in ("exclude", "split", "ignore") for pj in (None, "robinson", "platecarree")
                 if not (pe == "split" and pj)],
        "line": [("line", pe, pj, True, False) for pe in ("exclude", "split", "ignore") for pj in (None, "robinson", "platecarree")],
        "gdf": [("gdf", pe, pj, eng, True, False) for pe in ("exclude", "split", "ignore") for pj in (None, "robinson")
                for eng in ("spatialpandas", "geopandas") if not (pe == "split" and pj)],
        "ball": [("ball", c, sy, me, False) for c in ("nodes", "face centers", "edge centers")
                 for sy, me in (("spherical", "haversine"), ("cartesian", "minkowski"))],
        "kd": [("kd", c, sy, me, False) for c in ("nodes", "face centers", "edge centers")
               for sy, me in (("cartesian", "minkowski"), ("spherical", "minkowski"), ("cartesian", "manhattan"))],
    }
    for fam, ops_ in combos.items():
        if ck.tier == "quick" and len(ops_) > 7:
            ops_ = rng.sample(ops_, 7)
        for a in ops_:
            for b in ops_:
                if a == b:
                    continue
                pair_count += 1
                run_history(ck, [pm], ["lonlat"], [(0, a, []), (0, b, []), (0, a, [])], [pref], g0, None, stats)
    # the same call on ANOTHER grid in the same process: grid B's answer must be B's, whatever grid A cached for the very same
    # arguments (state shared between grids: class-level or module-level caches)
    pm2 = meshgen.gen_mesh(rng, max_ops=7, partial=True)
    pref2 = Ref(pm2, "lonlat")
    cross_count = 0
    cross_ops = []
    for fam, ops_ in combos.items():
        for a in (ops_ if ck.tier == "thorough" else rng.sample(ops_, min(4, len(ops_)))):
            cross_count += 1
            cross_ops.append(a)
            run_history(ck, [pm, pm2], ["lonlat", "lonlat"], [(0, a, []), (1, a, []), (0, a, []), (1, a, [])], [pref, pref2], g0, None, stats)
    pair_count += cross_count
    # ... judged against a FRESH INTERPRETER (a cache shared by all grids would also poison the in-process reference grids):
    # every operation there runs once, on its own new grid, with arguments no earlier call in that process used
    try:
        fresh_b = jit_off_reference([{"nodes": pm2.nodes, "faces": pm2.faces}], [[list(o) for o in cross_ops]], jit_off=False)[0]
        for a, want in zip(cross_ops, fresh_b):
            ga, gb = mk_grid(pm, "lonlat"), mk_grid(pm2, "lonlat")
            try:
                apply_op(ga, a)
                got = to_jsonable(canon(apply_op(gb, a)))
            except Exception as ex:
                got = ["raises", type(ex).__name__]
            if not close_json(json.loads(json.dumps(got)), want):
                ck.fail("result_differs_from_fresh_process", {"meshes": [{"nodes": pm.nodes, "faces": pm.faces}, {"nodes": pm2.nodes, "faces": pm2.faces}],
                                                              "kinds": ["lonlat", "lonlat"], "cross_op": list(a)},
                        {"op": a[0], "arg": str(a[1:])}, detail="other grid first, then this grid: %s vs fresh interpreter %s" % (str(got)[:300], str(want)[:300]))
    except Exception as ex:
        ck.proof["errors"].append("fresh-interpreter reference run failed: " + repr(ex)[-500:])
    # ordered triples of element kinds for each tree type / system (a switch must not clobber another kind's tree)
    import itertools
    triple_count = 0
    for tree, sy, me in (("ball", "spherical", "haversine"), ("ball", "cartesian", "minkowski"),
                         ("kd", "cartesian", "minkowski"), ("kd", "spherical", "minkowski")):
        for perm in itertools.permutations(["nodes", "face centers", "edge centers"]):
            triple_count += 1
            hist3 = [(0, (tree, c, sy, me, False), []) for c in perm] + [(0, (tree, perm[0], sy, me, False), []),
                                                                      (0, (tree, perm[1], sy, me, False), [])]
            run_history(ck, [pm], ["lonlat"], hist3, [pref], g0, None, stats)
    # a parameterised computation as the FIRST call on a grid, then the attributes it might have left behind outside _ds
    # (face_jacobian and face_areas are answered from private slots): a slot filled under other arguments must not be served
    first_call_count = 0
    for rule, order in (("triangular", 4), ("gaussian", 4), ("gaussian", 3), ("triangular", 8), ("triangular", 1), ("gaussian", 6)):
        for latlon in (True, False):
            for a in ("face_jacobian", "face_areas"):
                first_call_count += 1
                run_history(ck, [pm], ["lonlat"], [(0, ("areas", rule, order, latlon), []), (0, ("attr", a), []),
                                                   (0, ("total", "gaussian", 4), []), (0, ("attr", "face_jacobian"), [])],
                            [pref], g0, None, stats)
    # everything derived, then chunk(), then every observation again
    obs = [("attr", a) for a in sorted(ATTR_OPS) if a not in ("sizes", "dims")] + \
          [("areas", "triangular", 4, True), ("areas", "gaussian", 3, False), ("total", "triangular", 4), ("xr", "ugrid"), ("xr", "exodus"),
           ("lat", 10.5), ("dual",), ("isel", "n_face", 0), ("isel", "n_edge", 1), ("isel", "n_node", 0), ("subset", "bbox", "nodes"),
           ("poly", "exclude", None, False, False), ("line", "split", None, False, False), ("gdf", "exclude", None, "spatialpandas", False, False),
           ("ball", "edge centers", "spherical", "haversine", False), ("kd", "face centers", "cartesian", "minkowski", False),
           ("data", "topo_face", "mean"), ("data", "gradient", "mean"), ("data", "integrate", "mean"), ("data", "difference_node", "mean")]
    derive_all = [(0, ("attr", a), []) for a in ("face_face_connectivity", "node_face_connectivity", "hole_edge_indices", "face_lon", "edge_lon",
                                                  "face_areas", "edge_node_distances", "edge_face_distances", "edge_node_z", "bounds")]
    derive_conn = [(0, ("attr", a), []) for a in ("face_edge_connectivity", "edge_face_connectivity", "node_face_connectivity", "node_x")]
    chunk_count = 0
    # (a) everything derived before chunk(): later reads come from the chunked variables (sampled in quick)
    # (b) only connectivity derived before chunk(): later derivations compute FROM chunked variables (all)
    for o in (obs if ck.tier == "thorough" else rng.sample(obs, 12)):
        chunk_count += 1
        run_history(ck, [pm], ["lonlat"], derive_all + [(0, ("chunk", 2), []), (0, o, [])], [pref], g0, None, stats)
    for o in obs:
        chunk_count += 1
        run_history(ck, [pm], ["lonlat"], derive_conn + [(0, ("chunk", 2), []), (0, o, [])], [pref], g0, None, stats)
    # conversions with a shifted central longitude must not leak into grid-level state
    shifted = 0
    for fam in ("gdf", "poly", "line"):
        for pj in ("robinson120", "platecarree-75"):
            for pe in ("exclude", "ignore"):
                shifted += 1
                op = (fam, pe, pj, "spatialpandas", True, False) if fam == "gdf" else (fam, pe, pj, True, False)
                after = [(0, ("attr", "antimeridian_face_indices"), []), (0, ("gdf", "exclude", None, "spatialpandas", True, False), []),
                         (0, ("poly", "split", None, True, False), []), (0, ("line", "exclude", None, True, False), [])]
                run_history(ck, [pm], ["lonlat"], [(0, op, [])] + after, [pref], g0, None, stats)
                # ... and the other way round: grid-level state read (and cached) BEFORE must not be what the conversion uses
                before = [(0, ("attr", "antimeridian_face_indices"), []), (0, ("attr", "face_areas"), []), (0, ("attr", "bounds"), [])]
                run_history(ck, [pm], ["lonlat"], before + [(0, op, []), (0, op, [])], [pref], g0, None, stats)
    chunk_count += 2 * shifted
    ck.cov["evaluations"] += pair_count + triple_count + chunk_count + first_call_count
    # the correspondence broke: look for a concrete observable difference harder (longer histories)
    if ck.corr_failures and not ck.violations:
        for extra in range(40):
            meshes = [meshgen.gen_mesh(rng, max_ops=5)]
            refs = [Ref(meshes[0], "lonlat")]
            hist = []
            for _ in range(25):
                op, gets = gen_op(rng)
                hist.append((0, op, gets))
            run_history(ck, meshes, ["lonlat"], hist, refs, g0, None, stats)
            if ck.violations:
                break
    # JIT off: canonical values must agree (tolerance 1e-11: compiled and interpreted loops may round differently)
    jit_cases = 0
    try:
        ms = [meshgen.gen_mesh(rng, max_ops=4) for _ in range(2 if ck.tier == "quick" else 8)]
        ops = [("attr", "face_areas"), ("attr", "edge_face_connectivity"), ("attr", "face_lon"), ("attr", "edge_node_distances"),
               ("attr", "node_face_connectivity"), ("attr", "n_nodes_per_face"), ("areas", "gaussian", 3, True), ("lat", 10.5),
               ("attr", "face_face_connectivity"), ("attr", "bounds")]
        mj = [{"nodes": m.nodes, "faces": m.faces} for m in ms]
        off = jit_off_reference(mj, [[list(o) for o in ops]] * len(ms))
        for m, row in zip(ms, off):
            ref = Ref(m, "lonlat")
            for op, r_off in zip(ops, row):
                r_on = to_jsonable(ref.result(op))
                jit_cases += 1
                if not close_json(json.loads(json.dumps(r_on)), r_off):
                    ck.fail("jit_on_off_differ", {"meshes": [{"nodes": m.nodes, "faces": m.faces}], "op": list(op)}, {"op": op[0]},
                            detail="on=%s off=%s" % (str(r_on)[:300], str(r_off)[:300]))
    except Exception as ex:
        ck.proof["errors"].append("jit-off reference run failed: " + repr(ex)[-500:])
    ck.cov["rule"] = ("random histories (length 1..14 quick / ..30 thorough) of public read-only operations over one grid or two "
                      "interleaved grids (sources with lon/lat only or lon/lat+xyz): every lazily computed attribute, "
                      "compute_face_areas/calculate_total_face_area with several rules, to_xarray x3, to_geodataframe/"
                      "to_polycollection/to_linecollection with periodic_elements x projection x engine x cache/override, "
                      "get_ball_tree/get_kd_tree x coordinates x system x metric x reconstruct (+query), chunk, isel, subset x3, "
                      "cross_section, get_dual, copy, repr; after every op: variable set vs model, every stored variable vs its "
                      "fresh value, module constants vs import-time snapshot, result vs fresh result; non-trivial = length >= 2")
    ck.extra.update({"op_histogram": stats["ops"], "history_lengths": {str(k): v for k, v in sorted(lens.items())},
                     "model_histories_compared": len(keep), "ordered_cache_call_pairs": pair_count, "tree_kind_triples": triple_count, "first_call_then_private_slot_histories": first_call_count, "post_chunk_observations": chunk_count, "jit_off_values_compared": jit_cases,
                     "translator": "harness/translators/c08_caches.py -> Gen/C08_caches.v (compared/stored key sets of 5 caches)"})
    ck.trusted += ["translator c08_caches.py (fail-closed)", "dependency table c08_deps (hand-written from the populators; checked "
                   "against the variable sets observed after every operation)",
                   "JIT on/off and dask are exercised at run time, not modelled"]
    ck.assumptions += ["results are compared bit-for-bit with a fresh grid's in the same process (1e-11 between JIT on/off)"]


def replay(ck, rp):
    case = rp["case"]
    ck.note_case("replay")
    ck.note_case(json.dumps(case, default=str)[:2000])
    meshes = [meshgen.Mesh(mj["nodes"], mj["faces"]) for mj in case["meshes"]]
    if "cross_op" in case:
        a = tuple(case["cross_op"])
        want = jit_off_reference([case["meshes"][1]], [[list(a)]], jit_off=False)[0][0]
        ga, gb = mk_grid(meshes[0], "lonlat"), mk_grid(meshes[1], "lonlat")
        try:
            apply_op(ga, a)
            got = to_jsonable(canon(apply_op(gb, a)))
        except Exception as ex:
            got = ["raises", type(ex).__name__]
        if not close_json(json.loads(json.dumps(got)), want):
            ck.fail("result_differs_from_fresh_process", case, {"op": a[0], "arg": str(a[1:])})
        return
    if "history" not in case:
        return
    kinds = case.get("kinds", ["lonlat"] * len(meshes))[:len(meshes)]
    refs = [Ref(m, k) for m, k in zip(meshes, kinds)]
    hist = [(t, tuple(op), []) for t, op in case["history"]]
    run_history(ck, meshes, kinds, hist, refs, snapshot_globals(), None, {"ops": {}})
