"""C14 — arc predicates and intersections agree with exact spherical geometry.

Proof: coq/Props/C14_props.v about coq/Model/C14.v (exact integer/rational sign-test geometry; the
faithful branch-by-branch model of point_within_gca / gca_gca_intersection / extreme_gca_latitude).
Tie: points are integer direction vectors (homogeneous rational points); the implementation gets the
correctly rounded unit float vectors, the extracted model and an independent Python oracle get the
integers.  Every case carries its measured margin to each decision boundary (>= 1e-6 rad, or exactly
0 for "on the great circle").  The property clauses are evaluated on the implementation's answers.
"""
import json
import math
import os
import sys
from fractions import Fraction
from math import isqrt

import numpy as np

import common
from common import sx

MARGIN = 1.0e-6          # rad, property quantifier
PT_TOL = 1.0e-9          # returned points / latitudes (DESIGN appendix B)
SNAP = 1.5e-4            # pole snap zone of _xyz_to_lonlat_rad (|z| > 1 - 1e-8)

# ---------------------------------------------------------------------------------------------
# exact integer vector algebra (oracle side; independent of the Coq model)


def dot(u, v):
    return u[0] * v[0] + u[1] * v[1] + u[2] * v[2]


def cross(u, v):
    return (u[1] * v[2] - u[2] * v[1], u[2] * v[0] - u[0] * v[2], u[0] * v[1] - u[1] * v[0])


def neg(u):
    return (-u[0], -u[1], -u[2])


def nsq(u):
    return dot(u, u)


def gcd3(v):
    return math.gcd(math.gcd(abs(v[0]), abs(v[1])), abs(v[2]))


def reduce(v):
    g = gcd3(v)
    return v if g <= 1 else (v[0] // g, v[1] // g, v[2] // g)


def matvec(m, v):
    return tuple(m[i][0] * v[0] + m[i][1] * v[1] + m[i][2] * v[2] for i in range(3))


def matmul(a, b):
    return tuple(tuple(sum(a[i][k] * b[k][j] for k in range(3)) for j in range(3)) for i in range(3))


SCALE = 10 ** 40


def norm_frac(v):
    """|v| as a Fraction accurate to 1e-40 relative"""
    return Fraction(isqrt(nsq(v) * SCALE * SCALE), SCALE)


def unitf(v):
    """correctly rounded float unit vector v/|v| (what the implementation is given)"""
    n = norm_frac(v)
    return [float(Fraction(c) / n) for c in v]


def fnorm(v):
    return float(norm_frac(v))


def _angle(u, v):
    c = cross(u, v)
    d = dot(u, v)
    nc = norm_frac(c)
    # scale both by |u||v| (positive): only the ratio matters
    s = norm_frac(u) * norm_frac(v)
    return math.atan2(float(nc / s), float(Fraction(d) / s))


def plane_dist(a, b, p):
    """angular distance of p from the great circle of a, b (exactly 0.0 when coplanar)"""
    n = cross(a, b)
    t = dot(n, p)
    if t == 0:
        return 0.0
    return math.asin(min(1.0, float(abs(Fraction(t)) / (norm_frac(n) * norm_frac(p)))))


def on_arc(a, b, p):
    n = cross(a, b)
    return dot(n, p) == 0 and dot(cross(a, p), n) >= 0 and dot(cross(p, b), n) >= 0


def arc_cross(a, b, c, d):
    x = cross(cross(a, b), cross(c, d))
    if not any(x):
        return None                     # same great circle: outside the property
    out = []
    for cand in (x, neg(x)):
        if on_arc(a, b, cand) and on_arc(c, d, cand):
            out.append(cand)
    return out


def lat_of(v):
    """latitude of the direction v, well conditioned everywhere"""
    h = norm_frac((v[0], v[1], 0))
    n = norm_frac(v)
    return math.atan2(float(Fraction(v[2]) / n), float(h / n))


def apex(n):
    return (-n[2] * n[0], -n[2] * n[1], nsq(n) - n[2] * n[2])


def extreme_oracle(a, b, is_max):
    n = cross(a, b)
    top = apex(n) if is_max else neg(apex(n))
    cands = [a, b]
    if any(top) and on_arc(a, b, top):
        cands.append(top)
    lats = [lat_of(c) for c in cands]
    return max(lats) if is_max else min(lats)


def arc_margin(a, b, p):
    """margins of the relation of p to the arc a..b: (plane distance, distance to the nearer endpoint)"""
    return plane_dist(a, b, p), min(_angle(a, p), _angle(b, p))


# ---------------------------------------------------------------------------------------------
# implementation side

_impl = {}


def impl():
    if not _impl:
        from uxarray.grid.arcs import point_within_gca, extreme_gca_latitude
        from uxarray.grid.intersections import gca_gca_intersection
        from uxarray.utils.computing import cross as jcross, dot as jdot, norm as jnorm
        from uxarray.constants import MACHINE_EPSILON, ERROR_TOLERANCE
        _impl.update(pwg=point_within_gca, ext=extreme_gca_latitude, gca=gca_gca_intersection,
                     jcross=jcross, jdot=jdot, jnorm=jnorm, eps=float(MACHINE_EPSILON), tol=float(ERROR_TOLERANCE))
    return _impl


def impl_pwg(a, b, p):
    I = impl()
    try:
        return bool(I["pwg"](np.array(unitf(p)), np.array([unitf(a), unitf(b)])))
    except ValueError as e:
        return "E"


def impl_gca(a, b, c, d):
    I = impl()
    try:
        r = I["gca"](np.array([unitf(a), unitf(b)]), np.array([unitf(c), unitf(d)]))
        r = np.asarray(r, dtype=float)
        if r.size == 0:
            return []
        return [list(map(float, row)) for row in r.reshape(-1, 3)]
    except ValueError:
        return "E"


def impl_ext(a, b, kind):
    I = impl()
    return float(I["ext"](np.array([unitf(a), unitf(b)]), kind))


def float_plane_residual(a, b, p):
    """the implementation's own plane test quantity |dot(cross(a,b), p)| on the float inputs, computed with
    the same jitted primitives the implementation uses"""
    I = impl()
    af, bf, pf = np.array(a, dtype=float), np.array(b, dtype=float), np.array(p, dtype=float)
    n = I["jcross"](af, bf)
    n = n / np.linalg.norm(n)          # unit normal since 5fda323f
    return abs(float(I["jdot"](np.asarray(n), pf)))


def ulp_sensitive_pwg(a, b, p, want, rng, tries=60):
    """is there a float point within 4 ulp (per coordinate) of the given one for which the implementation
    gives the answer `want`?  (separates rounding noise of the MACHINE_EPSILON plane test from logic)"""
    I = impl()
    arc = np.array([unitf(a), unitf(b)])
    pf = unitf(p)
    for _ in range(tries):
        q = list(pf)
        for i in range(3):
            k = rng.randint(-4, 4)
            x = q[i]
            for _j in range(abs(k)):
                x = math.nextafter(x, math.inf if k > 0 else -math.inf)
            q[i] = x
        try:
            if bool(I["pwg"](np.array(q), arc)) == want:
                return True
        except ValueError:
            pass
    return False


def point_close(rf, x):
    """float point rf within PT_TOL of the exact direction x (exact rational test)"""
    r = tuple(Fraction(t) for t in rf)
    xr = tuple(Fraction(t) for t in x)
    d = dot(r, xr)
    if d <= 0:
        return False
    c = cross(r, xr)
    # sin^2(angle) = |r x x|^2 / (|r|^2 |x|^2) <= tol^2   and  | |r| - 1 | small
    if nsq(c) > Fraction(PT_TOL) ** 2 * nsq(r) * nsq(xr):
        return False
    return abs(nsq(r) - 1) <= Fraction(4 * PT_TOL)


# ---------------------------------------------------------------------------------------------
# generators.  Configurations are laid out with floats (angles, frames), then every point is put on an
# integer lattice; the INTEGER vectors are the case (all relations and margins are measured on them
# exactly afterwards).  Exact structure (coplanarity, meridian planes, poles, equator) is built from
# integer combinations, never from rounding.

LAT = 1 << 24


def lattice(vf, scale=LAT):
    return tuple(int(round(x * scale)) for x in vf)


def frot(rng, kind):
    """float rotation matrix of the requested kind"""
    def rx(t):
        return ((1, 0, 0), (0, math.cos(t), -math.sin(t)), (0, math.sin(t), math.cos(t)))

    def ry(t):
        return ((math.cos(t), 0, math.sin(t)), (0, 1, 0), (-math.sin(t), 0, math.cos(t)))

    def rz(t):
        return ((math.cos(t), -math.sin(t), 0), (math.sin(t), math.cos(t), 0), (0, 0, 1))
    if kind == "euler":
        return matmul(rz(rng.uniform(-math.pi, math.pi)), matmul(ry(rng.uniform(-1.57, 1.57)), rx(rng.uniform(-math.pi, math.pi))))
    if kind == "lon0":       # canonical x axis stays at lon 0: the seam of the [0, 2pi) longitudes
        return matmul(ry(rng.uniform(-1.3, 1.3)), rx(rng.uniform(-math.pi, math.pi)))
    if kind == "lon180":     # ... or goes to the antimeridian
        return matmul(rz(math.pi), matmul(ry(rng.uniform(-1.3, 1.3)), rx(rng.uniform(-math.pi, math.pi))))
    raise ValueError(kind)


def fpt(M, phi, delta=0.0):
    v = (math.cos(phi) * math.cos(delta), math.sin(phi) * math.cos(delta), math.sin(delta))
    return matvec(M, v)


def pyth(rng, k=4):
    """integer (c, s, r), c^2+s^2=r^2: an exact rotation angle"""
    n = 1 << k
    while True:
        m, q = rng.randint(-n, n), rng.randint(1, n)
        c, s, r = q * q - m * m, 2 * m * q, q * q + m * m
        g = math.gcd(math.gcd(abs(c), abs(s)), r)
        if s != 0:
            return c // g, s // g, r // g


def zrot_vecs(rng, vecs, tr=None):
    c, s, r = tr if tr is not None else pyth(rng)
    return [reduce((c * v[0] - s * v[1], s * v[0] + c * v[1], r * v[2])) for v in vecs], (c, s, r)


def rand_len(rng):
    """arc length in (0, pi): short, medium, long on purpose"""
    u = rng.random()
    if u < 0.15:
        return 10 ** rng.uniform(-4, -1.5)
    if u < 0.65:
        return rng.uniform(0.05, 2.0)
    if u < 0.9:
        return rng.uniform(2.0, 3.0)
    return math.pi - 10 ** rng.uniform(-3, -1)


def rand_offset(rng, lo=MARGIN * 2, hi=1.0):
    """distance from a decision boundary: log-uniform between 2e-6 and hi"""
    if hi <= lo:
        return lo
    return 10 ** rng.uniform(math.log10(lo), math.log10(hi))


def comb(a, b, t):
    """integer direction exactly in the plane of a, b at (about) the angle t from a towards b"""
    L = _angle(a, b)
    # bring both vectors to comparable length first (positive integer factors keep the directions)
    na, nb = isqrt(nsq(a)), isqrt(nsq(b))
    ka, kb = max(1, nb // max(na, 1)), max(1, na // max(nb, 1))
    a, b = tuple(ka * x for x in a), tuple(kb * x for x in b)
    al, be = math.sin(L - t) / math.sin(L), math.sin(t) / math.sin(L)
    al, be = al / fnorm(a), be / fnorm(b)
    m = max(abs(al), abs(be))
    S = 1 << 40
    ai, bi = int(round(al / m * S)), int(round(be / m * S))
    return reduce((ai * a[0] + bi * b[0], ai * a[1] + bi * b[1], ai * a[2] + bi * b[2]))


def query_angle(rng, L):
    """angle from the arc's first endpoint (arc = [0, L]) and the kind of query"""
    u = rng.random()
    if u < 0.45:
        m = rand_offset(rng, 2 * MARGIN, L / 2) if L > 5 * MARGIN else L / 2
        t = m if rng.random() < 0.5 else L - m
        if rng.random() < 0.4:
            t = rng.uniform(min(m, L / 2), L - min(m, L / 2))
        return t, "inside"
    if u < 0.75:
        m = rand_offset(rng, 2 * MARGIN, 3.0)
        t = -m if rng.random() < 0.5 else L + m
        if rng.random() < 0.2:
            t = L / 2 + math.pi + rng.uniform(-0.3, 0.3)
        return t, "outside"
    return rng.uniform(-0.2, L + 0.2), "off_plane"


def merid_pt(u, psi):
    """integer point of the meridian plane spanned by (u,0) and e_z at the meridian angle psi (latitude on the
    +u side for |psi| <= 90 deg, continuing over the north pole to the -u side)"""
    U = math.hypot(u[0], u[1])
    h, v = int(round(LAT * math.cos(psi) / U)), int(round(LAT * math.sin(psi)))
    return reduce((h * u[0], h * u[1], v))


def rand_u(rng):
    k = rng.random()
    if k < 0.3:
        return (1, 0)
    if k < 0.5:
        return rng.choice([(0, 1), (-1, 0), (0, -1)])
    t = rng.uniform(-math.pi, math.pi)
    return (int(round(1024 * math.cos(t))), int(round(1024 * math.sin(t))))


def gen_pwg(rng, fam):
    if fam in NEAR_FAMS:
        return gen_pwg_near(rng, fam)
    L = rand_len(rng)
    c = {"fn": "pwg", "family": fam}
    if fam in ("generic", "seam"):
        M = frot(rng, "euler" if fam == "generic" else rng.choice(["lon0", "lon180"]))
        start = rng.uniform(-math.pi, math.pi) if fam == "generic" else -L * rng.uniform(0.1, 0.9)
        a, b = reduce(lattice(fpt(M, start))), reduce(lattice(fpt(M, start + L)))
        t, kind = query_angle(rng, L)
        if kind == "off_plane":
            p = reduce(lattice(fpt(M, start + t, rand_offset(rng) * rng.choice([1, -1])), 1 << 26))
        else:
            p = comb(a, b, t)
    elif fam == "equator":
        start = rng.uniform(-math.pi, math.pi)
        if rng.random() < 0.3:
            start = rng.choice([0.0, math.pi]) - L * rng.uniform(0.1, 0.9)
        a = reduce(lattice((math.cos(start), math.sin(start), 0)))
        b = reduce(lattice((math.cos(start + L), math.sin(start + L), 0)))
        t, kind = query_angle(rng, L)
        d = rand_offset(rng) * rng.choice([1, -1]) if kind == "off_plane" else 0.0
        p = reduce(lattice((math.cos(start + t) * math.cos(d), math.sin(start + t) * math.cos(d), math.sin(d)), 1 << 26))
        if kind != "off_plane":
            p = reduce((p[0], p[1], 0))
    else:
        u = rand_u(rng)
        U = math.hypot(*u)
        if fam == "meridian":          # on one meridian half, away from the poles
            L = rng.uniform(0.001, 1.0) * min(L, math.pi - 0.02)
            start = rng.uniform(-math.pi / 2 + 3 * SNAP, math.pi / 2 - 3 * SNAP - L)
        elif fam == "through_pole":    # a pole strictly inside
            pole = rng.choice([math.pi / 2, -math.pi / 2])
            L = max(L, 8 * SNAP)
            before = rng.uniform(3 * SNAP, L - 3 * SNAP)
            start = pole - before
            if rng.random() < 0.2:     # first endpoint exactly on the equator
                L = math.pi / 2 + rng.uniform(0.01, 1.5)
                start = pole - math.pi / 2
        else:                          # pole_endpoint
            start = rng.choice([math.pi / 2, -math.pi / 2])
            L = min(L, math.pi - 1e-3)
            if rng.random() < 0.2:     # the other endpoint exactly on the equator
                L = math.pi / 2
        sgnL = 1
        if fam == "pole_endpoint" and rng.random() < 0.5:
            sgnL = -1
        a, b = merid_pt(u, start), merid_pt(u, start + sgnL * L)
        if fam == "pole_endpoint":
            a = (0, 0, 1 if start > 0 else -1)
        t, kind = query_angle(rng, L)
        if kind == "off_plane":
            d = rand_offset(rng) * rng.choice([1, -1])
            psi = start + sgnL * t
            pf = (math.cos(d) * math.cos(psi) * u[0] / U - math.sin(d) * u[1] / U,
                  math.cos(d) * math.cos(psi) * u[1] / U + math.sin(d) * u[0] / U, math.cos(d) * math.sin(psi))
            p = reduce(lattice(pf, 1 << 26))
        else:
            p = merid_pt(u, start + sgnL * t)
            if fam == "through_pole" and kind == "inside" and rng.random() < 0.25:
                p = (0, 0, 1 if pole > 0 else -1)
                kind = "inside_pole"
        c["u"] = list(u)
    if rng.random() < 0.5:
        a, b = b, a
    c.update(kind=kind, a=a, b=b, p=p)
    return c


def gen_pwg_antipodal(rng):
    """exactly antipodal endpoints: outside the property (arc = 180 deg); correspondence of the ValueError branch"""
    M = frot(rng, "euler")
    a = reduce(lattice(fpt(M, 0.0)))
    p = reduce(lattice(fpt(M, rng.uniform(-3, 3))))
    return {"fn": "pwg", "family": "antipodal", "kind": "antipodal", "a": a, "b": neg(a), "p": p, "corr_only": True}


def arc_span(rng, contains):
    """(lo, hi), hi - lo < pi, relative to a node at angle 0: contains it with a margin (True), misses it by a
    margin (False), or contains the antipode ('anti')"""
    L = rand_len(rng)
    if contains is True:
        m = min(rand_offset(rng, 2 * MARGIN, 1.0), L / 2)
        lo = -m if rng.random() < 0.5 else -(L - m)
        if rng.random() < 0.5 and L - m > m:
            lo = -rng.uniform(m, L - m)
        return lo, lo + L
    if contains == "anti":
        lo, hi = arc_span(rng, True)
        return lo + math.pi, hi + math.pi
    m = rand_offset(rng, 2 * MARGIN, 1.0)
    L = min(L, math.pi - m - 1e-3)
    if rng.random() < 0.5:
        return m, m + L
    return -m - L, -m


GCA_LAT = 1 << 24


def gen_gca(rng, fam):
    if fam in NEAR_FAMS:
        return gen_gca_near(rng, fam)
    if fam in ("short_pair", "shallow"):
        return gen_gca_small(rng, fam)
    kind = rng.choice(["cross", "cross", "cross", "miss1", "miss2", "missboth", "anti"])
    c1 = kind in ("cross", "miss2", "anti")
    c2 = True if kind in ("cross", "miss1") else ("anti" if kind == "anti" else False)
    gamma = rng.choice([rng.uniform(0.05, math.pi - 0.05), rng.uniform(0.05, math.pi - 0.05), 10 ** rng.uniform(-4, -1.3),
                        math.pi - 10 ** rng.uniform(-4, -1.3)])
    out = {"fn": "gca", "family": fam, "kind": kind, "gamma": gamma}
    if fam in ("generic", "seam"):
        M = frot(rng, "euler" if fam == "generic" else rng.choice(["lon0", "lon180"]))
        l1, h1 = arc_span(rng, c1)
        l2, h2 = arc_span(rng, c2)

        def arc2(phi):      # plane tilted about the canonical x axis by gamma
            v = (math.cos(phi), math.sin(phi) * math.cos(gamma), math.sin(phi) * math.sin(gamma))
            return reduce(lattice(matvec(M, v), GCA_LAT))
        a, b = reduce(lattice(fpt(M, l1), GCA_LAT)), reduce(lattice(fpt(M, h1), GCA_LAT))
        c, d = arc2(l2), arc2(h2)
    elif fam == "polar":     # both circles pass through the poles; the node is the north (or south) pole
        u1 = rand_u(rng)
        t1 = math.atan2(u1[1], u1[0]) + gamma
        u2 = (int(round(1024 * math.cos(t1))), int(round(1024 * math.sin(t1))))
        if cross((u1[0], u1[1], 0), (u2[0], u2[1], 0))[2] == 0:
            u2 = (u2[0] + 1, u2[1] - 1)
        node = rng.choice([math.pi / 2, -math.pi / 2])
        l1, h1 = arc_span(rng, c1)
        l2, h2 = arc_span(rng, c2)
        a, b = merid_pt(u1, node + l1), merid_pt(u1, node + h1)
        c, d = merid_pt(u2, node + l2), merid_pt(u2, node + h2)
    else:                    # pole_ref: the reference arc of _pole_point_inside_polygon, pole -> equator point
        kind = rng.choice(["cross", "cross", "cross", "miss1", "miss2", "missboth"])
        u = (1, 0) if rng.random() < 0.7 else rand_u(rng)
        U = math.hypot(*u)
        s = rng.choice([1, -1])
        a, b = (0, 0, s), (u[0], u[1], 0)
        m1 = rand_offset(rng, 2 * MARGIN, 0.7)
        if kind in ("cross", "miss2"):       # node on the reference arc (latitude in (0, 90))
            phix = rng.choice([m1, math.pi / 2 - max(m1, 3 * SNAP), rng.uniform(m1, math.pi / 2 - max(m1, 3 * SNAP))])
        else:                                # node on the same meridian circle but off the arc
            phix = -m1 if rng.random() < 0.6 else math.pi / 2 + max(m1, 3 * SNAP)
        uh = (u[0] / U, u[1] / U)
        X = (math.cos(phix) * uh[0], math.cos(phix) * uh[1], s * math.sin(phix))
        T = (-math.sin(phix) * uh[0], -math.sin(phix) * uh[1], s * math.cos(phix))
        N = (-uh[1], uh[0], 0.0)
        if rng.random() < 0.3:
            gamma = math.pi / 2
        W = tuple(T[i] * math.cos(gamma) + N[i] * math.sin(gamma) for i in range(3))
        l2, h2 = arc_span(rng, kind in ("cross", "miss1"))
        c = reduce(lattice(tuple(X[i] * math.cos(l2) + W[i] * math.sin(l2) for i in range(3)), GCA_LAT))
        d = reduce(lattice(tuple(X[i] * math.cos(h2) + W[i] * math.sin(h2) for i in range(3)), GCA_LAT))
        out.update(kind=kind, gamma=gamma)
    if rng.random() < 0.5:
        a, b = b, a
    if rng.random() < 0.5:
        c, d = d, c
    if rng.random() < 0.5:
        a, b, c, d = c, d, a, b
    out.update(a=a, b=b, c=c, d=d)
    return out


# ---------------------------------------------------------------------------------------------
# neighbours of the special cases: every special-case branch of the predicates (same longitude, longitudes pi apart,
# endpoint / point at a pole, z = 0, parallel great circles) gets inputs just outside its tolerance window, i.e. arcs
# that are ALMOST meridional / through a pole / equatorial, and pairs of short or nearly parallel arcs

BIG = 1 << 62


def zrot_small(v, delta):
    """the direction v rotated about the polar axis by the tiny angle delta (exact integer direction, tan(angle) = k/2^62)"""
    k = int(round(delta * BIG)) or 1
    return reduce((v[0] * BIG - k * v[1], v[1] * BIG + k * v[0], v[2] * BIG))


def tiny(rng, lo=1e-15, hi=1e-6):
    return 10 ** rng.uniform(math.log10(lo), math.log10(hi)) * rng.choice([1, -1])


def float_comb_offplane(a, b, t, d):
    """float-built direction at angle t from a towards b, lifted off the plane by d, on the fine lattice"""
    fa, fb = np.array(unitf(a)), np.array(unitf(b))
    n = np.cross(fa, fb)
    n = n / np.linalg.norm(n)
    e2 = np.cross(n, fa)
    v = (math.cos(t) * fa + math.sin(t) * e2) * math.cos(d) + math.sin(d) * n
    return reduce(lattice(tuple(float(x) for x in v), 1 << 40))


def near_special_arc(rng, fam):
    """endpoints of an arc next to a special case"""
    u = rand_u(rng)
    if fam == "near_meridian":          # endpoint longitudes differ by 1e-15 .. 1e-6 rad
        L = rng.uniform(0.05, 1.2)
        start = rng.uniform(-math.pi / 2 + 0.05, math.pi / 2 - 0.05 - L)
        a, b = merid_pt(u, start), zrot_small(merid_pt(u, start + L), tiny(rng, 1e-15, 1e-6))
    elif fam == "near_through_pole":    # endpoint longitudes differ by pi -/+ (1e-15 .. 1e-6): the arc passes next to a pole
        pole = rng.choice([math.pi / 2, -math.pi / 2])
        before, after = rng.uniform(0.05, 1.2), rng.uniform(0.05, 1.2)
        a, b = merid_pt(u, pole - before), zrot_small(merid_pt(u, pole + after), tiny(rng, 1e-15, 1e-5))
    elif fam == "near_equator":         # |z| of both endpoints 1e-15 .. 1e-7
        L = rand_len(rng)
        t0 = rng.uniform(-math.pi, math.pi)
        D = 1 << 60
        def eq(t, z):
            return reduce((int(round(D * math.cos(t))), int(round(D * math.sin(t))), int(round(D * z)) or 1))
        a, b = eq(t0, tiny(rng, 1e-15, 1e-7)), eq(t0 + L, tiny(rng, 1e-15, 1e-7))
    else:                               # near_pole_endpoint: an endpoint 2e-4 .. 1e-2 rad from a pole (just outside the snap zone)
        pole = rng.choice([math.pi / 2, -math.pi / 2])
        d = 10 ** rng.uniform(math.log10(2 * SNAP), -2)
        a = merid_pt(u, pole - d)
        M = frot(rng, "euler")
        fa = np.array(unitf(a))
        L = rand_len(rng)
        w = np.array(fpt(M, 0.0))
        e2 = np.cross(fa, w)
        e2 = np.cross(e2 / np.linalg.norm(e2), fa)
        b = reduce(lattice(tuple(float(x) for x in (math.cos(L) * fa + math.sin(L) * e2)), 1 << 30))
    if rng.random() < 0.5:
        a, b = b, a
    return a, b


def gen_pwg_near(rng, fam):
    a, b = near_special_arc(rng, fam)
    L = _angle(a, b)
    t, kind = query_angle(rng, L)
    if kind == "off_plane":
        p = float_comb_offplane(a, b, t, rand_offset(rng) * rng.choice([1, -1]))
    else:
        p = comb(a, b, t)
    return {"fn": "pwg", "family": fam, "kind": kind, "a": a, "b": b, "p": p}


def gen_gca_near(rng, fam):
    """an ordinary arc crossing (or missing) an arc next to a special case"""
    a, b = near_special_arc(rng, fam)
    L = _angle(a, b)
    kind = rng.choice(["cross", "cross", "cross", "miss1", "miss2"])
    fa, fb = np.array(unitf(a)), np.array(unitf(b))
    n = np.cross(fa, fb)
    n = n / np.linalg.norm(n)
    e2 = np.cross(n, fa)
    m1 = min(rand_offset(rng, 2 * MARGIN, 0.3), L / 3)
    t = rng.uniform(m1, L - m1) if kind != "miss1" else rng.choice([-m1, L + m1])
    X = math.cos(t) * fa + math.sin(t) * e2               # node on (or beside) arc 1
    T = -math.sin(t) * fa + math.cos(t) * e2
    gamma = rng.uniform(0.2, math.pi - 0.2)
    W = math.cos(gamma) * T + math.sin(gamma) * n
    lo, hi = arc_span(rng, kind != "miss2")
    c = reduce(lattice(tuple(float(x) for x in (math.cos(lo) * X + math.sin(lo) * W)), 1 << 40))
    d = reduce(lattice(tuple(float(x) for x in (math.cos(hi) * X + math.sin(hi) * W)), 1 << 40))
    if rng.random() < 0.5:
        a, b, c, d = c, d, a, b
    return {"fn": "gca", "family": fam, "kind": kind, "gamma": gamma, "a": a, "b": b, "c": c, "d": d}


def gen_gca_small(rng, fam):
    """short_pair: both arcs 4e-6 .. 1e-3 rad long, generic crossing angle; shallow: arcs 1e-3 .. 0.1 rad meeting at a
    small angle (the un-normalised (a x b) x (c x d) is tiny in both)"""
    M = frot(rng, "euler")
    if fam == "short_pair":
        L1, L2 = (10 ** rng.uniform(math.log10(4e-6), -3) for _ in range(2))
        gamma = rng.uniform(0.3, math.pi - 0.3)
    else:
        L1, L2 = (10 ** rng.uniform(-3, -1) for _ in range(2))
        gamma = 10 ** rng.uniform(-7, -2) / (L1 * L2) * rng.uniform(0.5, 2)
        gamma = min(max(gamma, 2e-5), 0.3)
        if rng.random() < 0.5:
            gamma = math.pi - gamma
    kind = rng.choice(["cross", "cross", "cross", "miss1", "miss2"])

    def span(L, contains):
        if contains:
            m = min(max(2 * MARGIN, L * rng.uniform(0.05, 0.5)), L / 2)
            lo = -m if rng.random() < 0.5 else -(L - m)
            return lo, lo + L
        m = max(2 * MARGIN, L * rng.uniform(0.05, 1.0))
        return (m, m + L) if rng.random() < 0.5 else (-m - L, -m)
    l1, h1 = span(L1, kind != "miss1")
    l2, h2 = span(L2, kind != "miss2")
    S = 1 << 44

    def arc2(phi):
        v = (math.cos(phi), math.sin(phi) * math.cos(gamma), math.sin(phi) * math.sin(gamma))
        return reduce(lattice(matvec(M, v), S))
    a, b = reduce(lattice(fpt(M, l1), S)), reduce(lattice(fpt(M, h1), S))
    c, d = arc2(l2), arc2(h2)
    if rng.random() < 0.5:
        a, b = b, a
    if rng.random() < 0.5:
        a, b, c, d = c, d, a, b
    return {"fn": "gca", "family": fam, "kind": kind, "gamma": gamma, "a": a, "b": b, "c": c, "d": d}


NEAR_FAMS = ("near_meridian", "near_through_pole", "near_equator", "near_pole_endpoint")


def stereo(u, v, w):
    """exactly unit rational point from integers: (2uw, 2vw, u^2+v^2-w^2) / (u^2+v^2+w^2)"""
    return (2 * u * w, 2 * v * w, u * u + v * v - w * w), u * u + v * v + w * w


def gen_ext(rng, fam):
    """exactly unit rational endpoints (vector, denominator)"""
    K = 1 << 10

    def rp():
        while True:
            u, v, w = rng.randint(-K, K), rng.randint(-K, K), rng.randint(1, K)
            if u or v:
                return stereo(u, v, w)
    a, da = rp()
    b, db = rp()
    if fam == "short":
        u, v, w = rng.randint(-K, K), rng.randint(-K, K), rng.randint(K // 2, K)
        a, da = stereo(u, v, w)
        e = rng.choice([1, 3, 17, 100])
        b, db = stereo(u + rng.randint(-e, e), v + e, w)
    elif fam == "long":              # nearly antipodal endpoints
        e = rng.choice([1, 5, 50, 500])
        u, v, w = rng.randint(-K, K), rng.randint(-K, K), rng.randint(K // 2, K)
        a, da = stereo(u, v, w)
        b, db = stereo(u + rng.randint(-e, e), v + rng.randint(1, e), w)
        b = neg(b)
    elif fam == "equator_sym":       # z1 + z2 = 0: the denominator of d_a_max vanishes
        b, db = (a[0] * rng.choice([1, -1]), a[1], -a[2]), da
        if rng.random() < 0.3:       # both on the equator: 0/0
            u, v = rng.randint(1, K), rng.randint(1, K)
            a, da = (2 * u * v, u * u - v * v, 0), u * u + v * v
            u, v = rng.randint(1, K), rng.randint(1, K)
            b, db = (u * u - v * v, 2 * u * v, 0), u * u + v * v
    elif fam == "meridian":          # both on the great circle lon 0 / lon 180 (through or beside a pole)
        a, da = stereo(rng.randint(-K, K), 0, rng.randint(1, K))
        b, db = stereo(rng.randint(-K, K), 0, rng.randint(1, K))
    elif fam == "pole_endpoint":
        a, da = (0, 0, rng.choice([1, -1])), 1
    elif fam == "short_near_pole":   # a very short arc 2e-4 .. 1e-2 rad from a pole with its apex strictly inside
        rho = int(round(2.0 / 10 ** rng.uniform(math.log10(2.2e-4), -2)))        # stereographic radius: distance 2/rho
        Lw = 10 ** rng.uniform(-6, -3)
        v = max(1, int(round(Lw * rho * rho / 4.0 * rng.uniform(0.7, 1.3))))
        k = rng.randint(-v // 3, v // 3)                                          # a little asymmetry keeps the apex inside
        a, da = stereo(rho, v + k, 1)
        b, db = stereo(rho, -(v - k), 1)
        if rng.random() < 0.5:
            a, b = neg(a), neg(b)
    elif fam == "high_lat":          # both endpoints at high latitude
        w = rng.randint(1, 4)
        a, da = stereo(rng.randint(-40, 40) * 50 + 1, rng.randint(-40, 40) * 50, w)
        b, db = stereo(rng.randint(-40, 40) * 50, rng.randint(-40, 40) * 50 + 1, w)
        if rng.random() < 0.5:
            a, b = neg(a), neg(b)
    if fam != "pole_endpoint" and rng.random() < 0.5:
        c, s, r = pyth(rng)
        a, da = (c * a[0] - s * a[1], s * a[0] + c * a[1], r * a[2]), r * da
        b, db = (c * b[0] - s * b[1], s * b[0] + c * b[1], r * b[2]), r * db
    ga, gb = math.gcd(gcd3(a), da), math.gcd(gcd3(b), db)
    a, da = tuple(t // ga for t in a), da // ga
    b, db = tuple(t // gb for t in b), db // gb
    return {"fn": "ext", "family": fam, "a": a, "da": da, "b": b, "db": db}


# ---------------------------------------------------------------------------------------------
# classification of a case (measured margins)


def in_snap_zone(v):
    """strictly inside the pole snap zone of the implementation but not exactly a pole"""
    if v[0] == 0 and v[1] == 0:
        return False
    return abs(lat_of(v)) > math.pi / 2 - SNAP


def pole_arc(a, b):
    """None (general plane), or for an arc in a meridian plane: "through_pole" (a pole strictly inside),
    "pole_endpoint", "meridian" (no pole on it)"""
    if cross(a, b)[2] != 0:
        return None
    for e in (a, b):
        if e[0] == 0 and e[1] == 0:
            return "pole_endpoint"
    for pole in ((0, 0, 1), (0, 0, -1)):
        if on_arc(a, b, pole):
            return "through_pole"
    return "meridian"


def exact_lon_plane(a, b):
    """arc in the plane y = 0: every longitude involved is exactly 0 or pi, also in floats"""
    return a[1] == 0 and b[1] == 0


def classify_pwg(c):
    a, b, p = c["a"], c["b"], c["p"]
    L = _angle(a, b)
    pd, ed = plane_dist(a, b, p), min(_angle(a, p), _angle(b, p))
    ok = (MARGIN < L < math.pi - MARGIN) and (pd == 0.0 or pd >= MARGIN) and (pd != 0.0 or ed >= MARGIN)
    c.update(arc_len=L, plane_dist=pd, end_dist=ed, want=on_arc(a, b, p), in_scope=bool(ok) and not c.get("corr_only"))
    return c


def classify_gca(c):
    a, b, cc, d = c["a"], c["b"], c["c"], c["d"]
    want = arc_cross(a, b, cc, d)
    ok = want is not None
    margin = None
    if ok:
        x = cross(cross(a, b), cross(cc, d))
        L1, L2 = _angle(a, b), _angle(cc, d)
        g = _angle(cross(a, b), cross(cc, d))
        ok = MARGIN < L1 < math.pi - MARGIN and MARGIN < L2 < math.pi - MARGIN and 10 * MARGIN < g < math.pi - 10 * MARGIN
        if len(want) == 1:
            margin = min(_angle(want[0], e) for e in (a, b, cc, d))
        elif len(want) == 0:
            ms = []
            for cand in (x, neg(x)):
                offs = [min(_angle(cand, e0), _angle(cand, e1)) for (e0, e1) in ((a, b), (cc, d)) if not on_arc(e0, e1, cand)]
                ms.append(max(offs))
            margin = min(ms)
        ok = ok and margin is not None and margin >= MARGIN
        # conditioning: rounding the unit inputs to floats (2^-53 per coordinate) moves the exact crossing by about
        # 2^-53 / (min arc length * sin(angle between the planes)); the comparison at PT_TOL is meaningful only
        # where that is well below PT_TOL
        cond = 1.0 / (min(L1, L2) * math.sin(g))
        c["cond"] = cond
        ok = ok and cond <= 2.0e6       # measured error of the implementation ~ 2e-17 * cond
    c.update(want=want, margin=margin, in_scope=bool(ok))
    return c


# ---------------------------------------------------------------------------------------------
# judging one evaluation of the implementation (decision + attribution of a failure to a mechanism)


def gca_float_residuals(a, b, c, d):
    """replicate gca_gca_intersection's candidates on the float inputs with the implementation's own jitted
    primitives; for +x1 and -x1 the two plane-test quantities |dot(cross(arc), cand)|"""
    I = impl()
    w0, w1, v0, v1 = (np.array(unitf(v)) for v in (a, b, c, d))
    n1, n2 = I["jcross"](w0, w1), I["jcross"](v0, v1)
    x = I["jcross"](n1, n2)
    x1 = x / I["jnorm"](x)
    n1, n2 = n1 / np.linalg.norm(n1), n2 / np.linalg.norm(n2)      # point_within_gca tests against the unit normals
    return [(cand, abs(float(I["jdot"](np.asarray(n1), np.asarray(cand)))),
             abs(float(I["jdot"](np.asarray(n2), np.asarray(cand))))) for cand in (x1, -x1)]


LON_RES = 1.0e-14      # rad: float64 longitudes in [0, 2 pi) (ulp up to 8.9e-16, atan2 of rounded inputs) cannot separate less


def lon_gap(e, p):
    """|sin(lon p - lon e)| of two directions off the polar axis (exact up to float rounding of the quotient)"""
    c = abs(e[0] * p[1] - e[1] * p[0])
    return float(Fraction(c) / (norm_frac((e[0], e[1], 0)) * norm_frac((p[0], p[1], 0))))


def lon_unresolvable(a, b, p):
    """p is on the great circle of the arc a..b (plane not through the poles), and its longitude differs from the nearer
    endpoint's by less than float64 longitudes can resolve: the longitude-interval logic of point_within_gca cannot tell
    on which side of that endpoint it lies (almost meridional arcs, arcs passing next to a pole)"""
    if cross(a, b)[2] == 0 or dot(cross(a, b), p) != 0:
        return False
    if any(v[0] == 0 and v[1] == 0 for v in (a, b, p)):
        return False
    e = a if _angle(a, p) <= _angle(b, p) else b
    return dot((e[0], e[1], 0), (p[0], p[1], 0)) > 0 and lon_gap(e, p) <= LON_RES


def judge_pwg(a, b, p, want, rng, mf=None):
    """-> (impl answer, None | info of the failure)"""
    r = impl_pwg(a, b, p)
    if r == want:
        return r, None
    pa = pole_arc(a, b)
    info = {"fn": "point_within_gca", "arc": pa or "general", "dir": "missed" if want else "false_accept",
            "equator_endpoint": a[2] == 0 or b[2] == 0}
    if mf is not None:
        info["faithful_model"] = "agrees" if mf == r else "differs"
    if pa in (None, "meridian"):
        info["cause"] = "unexplained"
        if (not want) and r is True and dot(cross(a, b), p) != 0:
            # the on-plane test compares |n.p| for the unit normal n = (a x b)/|a x b| and the unit point p (since 5fda323f;
            # before, n was not normalised): is the exact value of that quantity already within ERROR_TOLERANCE?
            resid = float(abs(Fraction(dot(cross(a, b), p))) / (norm_frac(cross(a, b)) * norm_frac(p)))
            if resid <= impl()["tol"]:
                info["cause"] = "plane_test_abs_tol"
        if (not want) and r is True and lon_unresolvable(a, b, p):
            info["cause"] = "lon_unresolvable"
        if want and r is False and lon_unresolvable(a, b, p):
            info["cause"] = "lon_unresolvable"
        elif want and r is False:
            if float_plane_residual(unitf(a), unitf(b), unitf(p)) > impl()["tol"]:      # the tolerance of the on-plane test
                info["cause"] = "plane_test_eps"
            elif ulp_sensitive_pwg(a, b, p, True, rng):
                info["cause"] = "ulp_sensitive"
    return r, info


def points_match(rs, xs):
    """float points rs vs exact directions xs: same count and each within PT_TOL (as multisets)"""
    if len(rs) != len(xs):
        return False
    xs = list(xs)
    for r in rs:
        hit = None
        for i, x in enumerate(xs):
            if point_close(r, x):
                hit = i
                break
        if hit is None:
            return False
        xs.pop(hit)
    return True


def judge_gca(a, b, c, d, want, mf=None):
    """-> (impl answer, None | (clause, info))"""
    r = impl_gca(a, b, c, d)
    if r != "E" and points_match(r, want):
        return r, None
    pas = [pole_arc(a, b), pole_arc(c, d)]
    arc = next((k for k in ("through_pole", "pole_endpoint", "meridian") if k in pas), "general")
    info = {"fn": "gca_gca_intersection", "arc": arc,
            "equator_endpoint": any(pa is not None and (e0[2] == 0 or e1[2] == 0) for pa, (e0, e1) in zip(pas, ((a, b), (c, d))))}
    if r == "E":
        clause = "crossing_raises"
    elif len(r) < len(want):
        clause = "crossing_missed"
    elif len(r) > len(want):
        clause = "crossing_spurious"
    else:
        clause = "crossing_point"
    if mf is not None and r != "E":
        info["faithful_model"] = "agrees" if (mf != "E" and points_match(r, mf)) else "differs"
    if arc in ("general", "meridian"):
        info["cause"] = "unexplained"
        if clause == "crossing_spurious" and len(want) == 0 and len(r) == 1:
            x = cross(cross(a, b), cross(c, d))
            cand = x if point_close(r[0], x) else (neg(x) if point_close(r[0], neg(x)) else None)
            if cand is not None:
                off = [(e0, e1) for (e0, e1) in ((a, b), (c, d)) if not on_arc(e0, e1, cand)]
                if off and all(lon_unresolvable(e0, e1, cand) for (e0, e1) in off):
                    info["cause"] = "lon_unresolvable"
        if clause == "crossing_missed" and len(want) == 1 and any(lon_unresolvable(e0, e1, want[0]) for (e0, e1) in ((a, b), (c, d))):
            info["cause"] = "lon_unresolvable"
        elif clause == "crossing_missed":
            eps = impl()["tol"]      # the tolerance of the on-plane test (ERROR_TOLERANCE since f96618a0)
            for cand, r1, r2 in gca_float_residuals(a, b, c, d):
                if point_close(list(map(float, cand)), want[0]) and (r1 > eps or r2 > eps):
                    info["cause"] = "plane_test_eps"
    return r, (clause, info)


def same_points(r_a, r_b):
    if r_a == "E" or r_b == "E":
        return r_a == r_b
    if len(r_a) != len(r_b):
        return False
    return all(any(max(abs(p[i] - q[i]) for i in range(3)) <= 2 * PT_TOL for q in r_b) for p in r_a)


def lat_to_float(l):
    s, q = l
    nq = Fraction(isqrt(q * SCALE * SCALE), SCALE)
    h = Fraction(isqrt((q - s * s) * SCALE * SCALE), SCALE)
    return math.atan2(float(Fraction(s) / nq), float(h / nq))


def vstr(v):
    return [str(t) for t in v]


def case_json(c):
    out = {}
    for k, v in c.items():
        if isinstance(v, tuple):
            out[k] = vstr(v)
        elif isinstance(v, list) and v and isinstance(v[0], tuple):
            out[k] = [vstr(t) for t in v]
        elif isinstance(v, int) and not isinstance(v, bool) and abs(v) > 2 ** 53:
            out[k] = str(v)
        else:
            out[k] = v
    return out


def case_from_json(c):
    out = dict(c)
    for k in ("a", "b", "c", "d", "p"):
        if k in out and isinstance(out[k], list):
            out[k] = tuple(int(t) for t in out[k])
    for k in ("da", "db"):
        if k in out:
            out[k] = int(out[k])
    if "zrot" in out:
        out["zrot"] = tuple(int(t) for t in out["zrot"])
    for k in ("want", "in_scope", "margin", "arc_len", "plane_dist", "end_dist"):
        out.pop(k, None)
    return out


class Stats:
    def __init__(self):
        self.n = {}

    def add(self, *key):
        k = "/".join(str(x) for x in key if x not in (None, ""))
        self.n[k] = self.n.get(k, 0) + 1


# ---------------------------------------------------------------------------------------------
# evaluation of one case: the property clauses on the implementation + comparison with the model


def eval_pwg(ck, c, model, st, rng):
    """model = [spec(0/1), faithful(0/1/'E')] from the extracted Coq model (or None)"""
    a, b, p, want = c["a"], c["b"], c["p"], c["want"]
    jc = case_json(c)
    mf = None
    if model is not None:
        mspec, mf = bool(model[0]), ("E" if model[1] == "E" else bool(model[1]))
        if mspec != want:
            ck.corr_failures.append({"case": jc, "what": "Coq specification c14_on_arc differs from the Python oracle",
                                     "model": mspec, "oracle": want})
    if not c["in_scope"]:
        # outside the property's quantifier: correspondence only, and only where requested
        st.add("pwg", "out_of_scope", c["family"])
        if mf is not None and c.get("corr_only"):
            # exactly antipodal endpoints (arc = 180 deg) are outside the property: informational only
            r = impl_pwg(a, b, p)
            st.add("pwg_antipodal_informational", "agree" if r == mf else "differ")
        return
    st.add("pwg", c["family"], c["kind"], "want=%s" % want)
    tag = {"family": c["family"], "kind": c["kind"]}
    # --- clause: the decision itself
    r, bad = judge_pwg(a, b, p, want, rng, mf)
    if bad:
        ck.fail("on_arc_decision", jc, dict(bad, **tag), detail="impl=%r oracle=%r faithful model=%r" % (r, want, mf))
        st.add("pwg_fail", bad["arc"], bad["dir"], bad.get("cause"))
    # --- clause: swapping the endpoints; rotation about the polar axis.  A variant is judged like a case of its
    # own (its own decision must be right); the invariance clause is reported with the info of the side that is wrong
    (ra, rb, rp), tr = zrot_vecs(rng, (a, b, p), c.get("zrot"))
    for clause, (va, vb, vp), extra in (("swap_endpoints", (b, a, p), {}), ("z_rotation", (ra, rb, rp), {"zrot": vstr(tr)})):
        r2, bad2 = judge_pwg(va, vb, vp, want, rng)
        vc = dict(jc, variant=clause, **extra)
        if bad2:
            ck.fail("on_arc_decision", dict(vc, a=vstr(va), b=vstr(vb), p=vstr(vp)), dict(bad2, **tag),
                    detail="variant %s: impl=%r oracle=%r" % (clause, r2, want))
            st.add("pwg_fail_variant", clause, bad2["arc"], bad2["dir"], bad2.get("cause"))
        if r2 != r:
            st.add("pwg_invariance_broken", clause, (bad2 or bad)["arc"], (bad2 or bad).get("cause"))
    # --- correspondence with the faithful model (since a3bf7a7f no float longitude is involved: every arc is compared)
    if mf is not None:
        st.add("pwg_corr_compared")
        if r != mf and (bad is None or bad.get("cause") == "unexplained"):
            ck.corr_failures.append({"case": jc, "impl": r, "model": mf, "oracle": want})


def eval_gca(ck, c, model, st, rng):
    a, b, cc, d, want = c["a"], c["b"], c["c"], c["d"], c["want"]
    jc = case_json(c)
    mf = None
    if model is not None:
        mspec = [tuple(v) for v in model[0]]
        mf = "E" if model[1] == "E" else [tuple(v) for v in model[1]]
        if want is not None and sorted(mspec) != sorted(want):
            ck.corr_failures.append({"case": jc, "what": "Coq specification c14_arc_cross differs from the Python oracle",
                                     "model": [vstr(v) for v in mspec]})
    if not c["in_scope"]:
        st.add("gca", "out_of_scope", c["family"])
        return
    st.add("gca", c["family"], c["kind"], "want=%d" % len(want))
    tag = {"family": c["family"], "kind": c["kind"]}
    r, bad = judge_gca(a, b, cc, d, want, mf)
    if bad:
        ck.fail(bad[0], jc, dict(bad[1], **tag), detail="impl=%r oracle=%r" % (r, [vstr(w) for w in want]))
        st.add("gca_fail", bad[0], bad[1]["arc"], bad[1].get("cause"))
    # --- invariances
    (ra, rb, rc, rd), tr = zrot_vecs(rng, (a, b, cc, d), c.get("zrot"))
    rwant, _ = zrot_vecs(rng, want, tr)
    cz, sz, rz = tr
    variants = (("swap_arcs", (cc, d, a, b), want, {}), ("swap_endpoints", (b, a, cc, d), want, {}),
                ("swap_endpoints", (a, b, d, cc), want, {"which": "second"}),
                ("z_rotation", (ra, rb, rc, rd), rwant, {"zrot": vstr(tr)}))
    for clause, vs, vwant, extra in variants:
        r2, bad2 = judge_gca(vs[0], vs[1], vs[2], vs[3], vwant)
        vc = dict(jc, variant=clause, **extra)
        if bad2:
            ck.fail(bad2[0], dict(vc, a=vstr(vs[0]), b=vstr(vs[1]), c=vstr(vs[2]), d=vstr(vs[3])), dict(bad2[1], **tag),
                    detail="variant %s: impl=%r oracle=%r" % (clause, r2, [vstr(w) for w in vwant]))
            st.add("gca_fail_variant", clause, bad2[0], bad2[1]["arc"], bad2[1].get("cause"))
        back = r2
        if clause == "z_rotation" and r2 != "E":
            back = [[(cz * q[0] + sz * q[1]) / rz, (-sz * q[0] + cz * q[1]) / rz, q[2]] for q in r2]
        if not same_points(r, back):
            w = (bad2 or bad)
            st.add("gca_invariance_broken", clause, w[1]["arc"] if w else "UNEXPLAINED", w[1].get("cause") if w else None)
            if not w:       # cannot happen when both answers are within PT_TOL of the same exact points
                ck.fail(clause, vc, dict(tag, fn="gca_gca_intersection", cause="unexplained"), detail="impl=%r variant=%r" % (r, back))
    # --- correspondence with the faithful model (every pair of arcs)
    if mf is not None:
        st.add("gca_corr_compared")
        agree = (r == "E" and mf == "E") or (r != "E" and mf != "E" and points_match(r, mf))
        if not agree and (bad is None or bad[1].get("cause") == "unexplained"):
            ck.corr_failures.append({"case": jc, "impl": r, "model": [vstr(v) for v in mf] if mf != "E" else "E"})


def eval_ext(ck, c, model, st, rng):
    a, b = c["a"], c["b"]
    jc = case_json(c)
    L = _angle(a, b)
    if not any(cross(a, b)) or not (MARGIN < L < math.pi - MARGIN):
        st.add("ext", "out_of_scope")
        return False
    snap = any(in_snap_zone(v) for v in (a, b))
    st.add("ext", c["family"], "snap_zone" if snap else "")
    if snap and c["family"] == "short_near_pole":
        # the generator aims at end points 2.2e-4 rad and more from a pole; lattice rounding can put one just inside the
        # library's documented pole snap zone, where the answer is the snapped pole by design: not this family's subject
        st.add("ext", "out_of_scope")
        return False
    info = {"fn": "extreme_gca_latitude", "family": c["family"], "arc": pole_arc(a, b) or "general", "snap_zone": snap}
    (ra, rb), tr = zrot_vecs(rng, (a, b), c.get("zrot"))
    for j, kind in enumerate(("max", "min")):
        want = extreme_oracle(a, b, kind == "max")
        try:
            r, r2, r3 = impl_ext(a, b, kind), impl_ext(b, a, kind), impl_ext(ra, rb, kind)
        except Exception as e:
            ck.fail("extreme_raises", jc, dict(info, kind=kind), detail=repr(e))
            continue
        if not abs(r - want) <= PT_TOL:
            ck.fail("extreme_value", jc, dict(info, kind=kind), detail="impl=%r oracle=%r" % (r, want))
            st.add("ext_fail", kind, c["family"])
        if not abs(r2 - want) <= PT_TOL:
            ck.fail("extreme_value", dict(jc, variant="swap_endpoints"), dict(info, kind=kind), detail="impl=%r oracle=%r" % (r2, want))
        if not abs(r3 - want) <= PT_TOL:
            ck.fail("extreme_value", dict(jc, variant="z_rotation", zrot=vstr(tr)), dict(info, kind=kind),
                    detail="impl=%r oracle=%r" % (r3, want))
        if model is not None:
            mspec, mfaith = lat_to_float(tuple(model[j])), lat_to_float(tuple(model[2 + j]))
            if abs(mspec - want) > 1e-12:
                ck.corr_failures.append({"case": jc, "what": "Coq c14_extreme_spec differs from the Python oracle",
                                         "model": mspec, "oracle": want, "kind": kind})
            if abs(mfaith - r) > PT_TOL and abs(r - want) <= PT_TOL:
                ck.corr_failures.append({"case": jc, "impl": r, "model": mfaith, "kind": kind})
            st.add("ext_corr_compared")
    return True


# ---------------------------------------------------------------------------------------------

PWG_FAMS = ["generic", "generic", "generic", "equator", "seam", "seam", "meridian", "through_pole", "pole_endpoint",
            "near_meridian", "near_meridian", "near_through_pole", "near_equator", "near_pole_endpoint"]
GCA_FAMS = ["generic", "generic", "generic", "seam", "polar", "pole_ref",
            "short_pair", "short_pair", "shallow", "near_meridian", "near_through_pole", "near_equator"]
EXT_FAMS = ["generic", "generic", "short", "equator_sym", "meridian", "pole_endpoint", "high_lat", "long", "short_near_pole",
            "short_near_pole"]
N_CASES = {"quick": (2800, 40, 1800, 600), "thorough": (45000, 400, 26000, 10000)}


def gen_cases(ck):
    rng = ck.rng
    n_pwg, n_anti, n_gca, n_ext = N_CASES[ck.tier]
    cases = []
    cdir = os.path.join(common.VERIF, "corpus", "C14")
    if os.path.isdir(cdir):
        for fn in sorted(os.listdir(cdir)):
            cases.append(case_from_json(json.load(open(os.path.join(cdir, fn)))))
    for i in range(n_pwg):
        cases.append(gen_pwg(rng, PWG_FAMS[i % len(PWG_FAMS)]))
    for i in range(n_anti):
        cases.append(gen_pwg_antipodal(rng))
    for i in range(n_gca):
        cases.append(gen_gca(rng, GCA_FAMS[i % len(GCA_FAMS)]))
    for i in range(n_ext):
        cases.append(gen_ext(rng, EXT_FAMS[i % len(EXT_FAMS)]))
    return cases


def model_line(c):
    if c["fn"] == "pwg":
        return sx([list(c["a"]), list(c["b"]), list(c["p"])])
    if c["fn"] == "gca":
        return sx([list(c["a"]), list(c["b"]), list(c["c"]), list(c["d"])])
    return sx([list(c["a"]), c["da"], list(c["b"]), c["db"]])


def run_models(ck, cases):
    out = [None] * len(cases)
    for fn in ("pwg", "gca", "ext"):
        idx = [i for i, c in enumerate(cases) if c["fn"] == fn]
        if not idx:
            continue
        res = ck.run_model(fn, [model_line(cases[i]) for i in idx])
        if len(res) != len(idx):
            raise RuntimeError("model driver returned %d lines for %d cases" % (len(res), len(idx)))
        for i, r in zip(idx, res):
            out[i] = r
    return out


def coq_vec(v):
    return "(%d, %d, %d)" % tuple(v)


def audit(ck, cases):
    """extraction audit: the same model evaluated inside Coq (vm_compute) on a sample, compared token by
    token with the extracted OCaml results"""
    import re
    sample = ([c for c in cases if c["fn"] == "pwg"][:18] + [c for c in cases if c["fn"] == "gca"][:12]
              + [c for c in cases if c["fn"] == "ext"][:10])
    lines = []
    for c in sample:
        if c["fn"] == "pwg":
            args = " ".join(coq_vec(c[k]) for k in ("a", "b", "p"))
            lines.append("Eval vm_compute in (c14_on_arc %s, c14_pwg %s)." % (args, args))
        elif c["fn"] == "gca":
            args = " ".join(coq_vec(c[k]) for k in ("a", "b", "c", "d"))
            lines.append("Eval vm_compute in (c14_arc_cross %s, c14_gca_gca %s)." % (args, args))
        else:
            va, vb = coq_vec(c["a"]), coq_vec(c["b"])
            args = "%s (%d) %s (%d)" % (va, c["da"], vb, c["db"])
            lines.append("Eval vm_compute in (c14_extreme_spec %s %s true, c14_extreme_spec %s %s false, "
                         "c14_extreme %s true, c14_extreme %s false)." % (va, vb, va, vb, args, args))
    rc, out = ck.audit_vm(lines, "From Verif Require Import Base C14.\nOpen Scope Z_scope.")
    if rc != 0:
        ck.proof["errors"].append("in-kernel audit failed: " + out[-800:])
        return 0
    blocks = re.split(r"(?m)^\s*= ", out)[1:]
    models = run_models(ck, sample)
    n = 0
    for blk, mo, c in zip(blocks, models, sample):
        body = blk.split("\n     :")[0]
        toks = re.findall(r"-?\d+|true|false|None", body)
        toks = ["1" if t == "true" else "0" if t == "false" else "E" if t == "None" else t for t in toks]
        flat = []

        def fl(v):
            if isinstance(v, list):
                for q in v:
                    fl(q)
            else:
                flat.append(str(v))
        fl(mo)
        if toks != flat:
            ck.proof["errors"].append("extraction audit mismatch (%s): kernel %s vs extracted %s" % (c["fn"], toks[:12], flat[:12]))
        n += 1
    if len(blocks) != len(sample):
        ck.proof["errors"].append("extraction audit: %d answers for %d cases" % (len(blocks), len(sample)))
    return n


def evaluate(ck, cases, models, st):
    rng = ck.rng
    for c, mo in zip(cases, models):
        if isinstance(mo, list) and mo and mo[0] == "ERR":
            ck.corr_failures.append({"case": case_json(c), "model": mo})
            mo = None
        if c["fn"] == "pwg":
            classify_pwg(c)
            ck.note_case((c["a"], c["b"], c["p"]), c["in_scope"])
            eval_pwg(ck, c, mo, st, rng)
        elif c["fn"] == "gca":
            classify_gca(c)
            ck.note_case((c["a"], c["b"], c["c"], c["d"]), c["in_scope"])
            eval_gca(ck, c, mo, st, rng)
        else:
            ck.note_case((c["a"], c["b"]), eval_ext(ck, c, mo, st, rng))


def main(ck):
    ck.check_props()
    ok = ck.build_driver()
    impl()
    cases = gen_cases(ck)
    ck.cov["rule"] = (
        "corpus + cases generated from ck.rng.  Points are integer direction vectors (homogeneous rational points): "
        "configurations are laid out with float angles/frames and put on a 2^-24 lattice, exact structure (coplanarity, "
        "meridian planes, poles, equator) comes from integer combinations; the implementation receives the correctly "
        "rounded unit float vectors and every margin is measured on the integers.  point_within_gca: arc lengths 1e-4 .. "
        "pi-1e-3, families generic / equator / across lon 0 and lon 180 / along a meridian / through a pole (incl. an "
        "endpoint on the equator) / endpoint at a pole; query inside the arc, on the circle outside it, off the plane "
        "(offsets log-uniform from 2e-6 rad).  gca_gca_intersection: circles meeting at 1e-4 .. pi-1e-4, arcs containing / "
        "missing the node by a margin / containing the antipode; families generic, seam, node at a pole, reference arc "
        "pole->equator.  extreme_gca_latitude: exactly unit rational endpoints (short, long, symmetric about the equator, "
        "meridian, pole endpoint, high latitude).  Each case is also evaluated with endpoints swapped, arcs swapped and "
        "after an exact rotation about the polar axis.  non-trivial = inside the property's quantifier (all margins >= "
        "1e-6 rad, no point strictly inside the implementation's pole snap zone); distinct = distinct integer input")
    models = run_models(ck, cases) if ok else [None] * len(cases)
    st = Stats()
    evaluate(ck, cases, models, st)
    seen = set()
    for c in cases:
        if (c["fn"], c["family"]) not in seen and c.get("in_scope", True) and len(seen) < 6 and c["fn"] not in [s.get("fn") for s in ck.cov["samples"]]:
            seen.add((c["fn"], c["family"]))
            ck.sample(case_json(c))
    audit_n = audit(ck, cases) if ok else 0
    ck.extra.update({
        "case_distribution": dict(sorted(st.n.items())),
        "extraction_audit_cases": audit_n,
        "tolerances": {"input margin (rad)": MARGIN, "returned points / latitudes": PT_TOL,
                       "pole snap zone excluded (rad)": SNAP},
        "clauses_checked_on_impl": ["on_arc_decision", "crossing_missed", "crossing_spurious", "crossing_point",
                                    "crossing_raises", "extreme_value", "extreme_raises"],
        "invariance_clauses": "swapping endpoints, swapping arcs and rotation about the polar axis are checked by judging every "
                              "variant input against the oracle, whose invariance is a theorem (C14_*_swap*, C14_*_zrot): two "
                              "answers that both agree with the oracle agree with each other; *_invariance_broken counts in "
                              "case_distribution say how often the implementation's two answers differed",
        "partial": "no floating-point error analysis: the exact-arithmetic statements are theorems, the float "
                   "implementation is compared with them on margin-controlled inputs (margin 1e-6 rad)",
    })
    ck.trusted += ["numpy/numba float primitives (cross, dot, arctan2, arcsin, norm): the margin 1e-6 rad stands in for a rounding-error analysis",
                   "harness/translators/c14_consts.py (constants.py -> Gen/C14_consts.v)"]
    ck.assumptions += ["inputs are unit vectors up to float rounding; arcs have length in (1e-6, pi - 1e-6)",
                       "is_directed=False (the default) only",
                       "extreme_gca_latitude only: endpoints strictly inside the pole snap zone (|z| > 1 - 1e-8) are not generated"]


def replay(ck, rp):
    c = case_from_json(rp["case"])
    c.pop("variant", None)
    ck.note_case(repr(c))
    ck.note_case("replay")
    ok = ck.build_driver()
    impl()
    st = Stats()
    models = run_models(ck, [c]) if ok else [None]
    evaluate(ck, [c], models, st)
