"""C19 — a grid shares no mutable state with its inputs, copies or exports.

Proof: coq/Props/C19_props.v (heap model coq/Model/C19.v: frame theorem for every mutator history,
independence of deep copies, exact characterisation of when a constructor writes into its
arguments, refutations for the code as written).
Tie: for every generated case the real constructors / copy / exports are run, the inputs are
compared bit for bit before and after, the alias graph is measured (np.shares_memory, `is`) and
mutation experiments are run on both sides of copies and on exports; the extracted model predicts
the same tables (modified inputs, alias pairs, values, changed / unchanged) and both are compared.
The property clauses are evaluated directly on the implementation (spec_check_* functions).
"""
import copy as _copy
import hashlib
import json
import os

import numpy as np

import common
import meshgen
from common import FILL, sx

F = FILL
U = 1000000  # micro-degrees

# grid variable tokens (same numbers as in coq/Model/C19.v)
GV = {"node_lon": 1, "edge_lon": 2, "face_lon": 3, "node_lat": 4, "edge_lat": 5, "face_lat": 6,
      "node_x": 7, "node_y": 8, "node_z": 9, "face_node_connectivity": 10, "edge_x": 11, "edge_y": 12,
      "edge_z": 13, "face_x": 14, "face_y": 15, "face_z": 16, "face_edge_connectivity": 17,
      "face_face_connectivity": 18, "edge_node_connectivity": 19, "edge_face_connectivity": 20,
      "node_edge_connectivity": 21, "node_face_connectivity": 22, "face_areas": 23, "n_nodes_per_face": 24,
      "edge_face_distances": 25, "edge_node_distances": 26, "bounds": 27, "hole_edge_indices": 28,
      "grid_topology": 50}
# input variable tokens of the table-driven readers
INTOK = {"lonVertex": 201, "latVertex": 202, "xVertex": 203, "yVertex": 204, "zVertex": 205, "lonCell": 206,
         "latCell": 207, "xCell": 208, "yCell": 209, "zCell": 210, "lonEdge": 211, "latEdge": 212, "xEdge": 213,
         "yEdge": 214, "zEdge": 215, "verticesOnCell": 216, "nEdgesOnCell": 217, "cellsOnVertex": 218,
         "verticesOnEdge": 219, "edgesOnCell": 220, "cellsOnEdge": 221, "dvEdge": 222, "dcEdge": 223,
         "cellsOnCell": 224, "areaCell": 225, "edgesOnVertex": 226, "areaTriangle": 227,
         "coord": 230, "coordx": 231, "coordy": 232, "coordz": 233, "connect1": 234,
         "grid_corner_lon": 240, "grid_corner_lat": 241, "grid_center_lon": 242, "grid_center_lat": 243,
         "grid_area": 244, "grid_imask": 245,
         "nodeCoords": 250, "centerCoords": 251, "elementConn": 252, "numElementConn": 253, "elementArea": 254,
         "corner_lons": 260, "corner_lats": 261, "lons": 262, "lats": 263,
         "vlon": 270, "vlat": 271, "elon": 272, "elat": 273, "clon": 274, "clat": 275, "vertex_of_cell": 276,
         "edge_of_cell": 277, "neighbor_cell_index": 278, "adjacent_cell_of_edge": 279, "edge_vertices": 280,
         "vertices": 290}
FMT_ID = {"mpas": 1, "mpas_dual": 2, "exodus": 3, "scrip": 4, "esmf": 5, "geos": 6, "icon": 7, "vertices": 8,
          "export_exodus": 9, "export_scrip": 10}
K_FILL, K_START = 100, 101


def ux():
    import uxarray
    return uxarray


def xr():
    import xarray
    return xarray


# ---------------------------------------------------------------------------------------------
# snapshots

def canon_attrs(a):
    return tuple(sorted((str(k), repr(v)) for k, v in dict(a).items()))


def arr_sig(x):
    x = np.asarray(x)
    return (str(x.dtype), tuple(x.shape), hashlib.sha1(np.ascontiguousarray(x).tobytes()).hexdigest())


def obs_ds(ds):
    """what a dataset reports: names, dims, dtype, values, attrs, global attrs, sizes"""
    out = {}
    for k in ds.variables:
        v = ds.variables[k]
        out[str(k)] = (tuple(v.dims), arr_sig(v.values), canon_attrs(v.attrs) + canon_attrs(v.encoding), repr(getattr(v, "chunks", None)))
    return (out, canon_attrs(ds.attrs), tuple(sorted((str(k), int(n)) for k, n in ds.sizes.items())),
            tuple(sorted(str(c) for c in ds.coords)))


def obs_grid(g):
    return (obs_ds(g._ds), g.source_grid_spec)


def obs_diff(a, b):
    """names of the parts that differ between two dataset observations"""
    out = []
    va, vb = a[0], b[0]
    for k in sorted(set(va) | set(vb)):
        if k not in va:
            out.append("+" + k)
        elif k not in vb:
            out.append("-" + k)
        elif va[k] != vb[k]:
            out.append("~" + k)
    if a[1] != b[1]:
        out.append("~attrs")
    if a[2] != b[2]:
        out.append("~sizes")
    return out


class DsSnap:
    """bit-level snapshot of an input dataset incl. object identities (Variable objects, buffers)"""

    def __init__(self, ds):
        self.ds = ds
        self.names = [str(k) for k in ds.variables]
        self.vars = {k: ds.variables[k] for k in ds.variables}
        self.bufs = {k: ds.variables[k].values for k in ds.variables}       # the ndarray objects
        self.sig = {k: arr_sig(self.bufs[k]) for k in self.bufs}
        self.attrs_obj = {k: ds.variables[k].attrs for k in ds.variables}
        self.attrs = {k: canon_attrs(ds.variables[k].attrs) + canon_attrs(ds.variables[k].encoding) for k in ds.variables}
        self.dims = {k: tuple(ds.variables[k].dims) for k in ds.variables}
        self.gattrs_obj = ds.attrs
        self.gattrs = canon_attrs(ds.attrs)
        self.obs = obs_ds(ds)

    def modified(self):
        """tokens: 1000+k buffer bytes, 2000+k attrs content, 3000+k Variable re-pointed / dims,
        4000 Dataset mapping (names or Variable identities), 4001 global attrs"""
        ds = self.ds
        out = []
        for k, n in enumerate(self.names):
            if arr_sig(self.bufs[n]) != self.sig[n]:
                out.append(1000 + k)
            if canon_attrs(self.attrs_obj[n]) + canon_attrs(self.vars[n].encoding) != self.attrs[n]:
                out.append(2000 + k)
            v = self.vars[n]
            if tuple(v.dims) != self.dims[n] or not (np.shares_memory(v.values, self.bufs[n]) or self.bufs[n].size == 0):
                out.append(3000 + k)
        now = [str(k) for k in ds.variables]
        if now != self.names or any(ds.variables[n] is not self.vars[n] for n in self.names if n in ds.variables):
            out.append(4000)
        if canon_attrs(self.gattrs_obj) != self.gattrs:
            out.append(4001)
        return sorted(out)

    def changed_report(self):
        return obs_diff(self.obs, obs_ds(self.ds))


def heap_of_ds(ds, tok_of, attr_tok=None, data_of=None):
    """model heap for a dataset: per variable [B, D, V], then global attrs D, then S.
    returns (cells as sx strings, root id, inputs list [(token, id)])"""
    cells, inputs, vars_ = [], [], []
    for k, n in enumerate(ds.variables):
        v = ds.variables[n]
        data = data_of(str(n), v) if data_of else [k]
        at = []
        if attr_tok:
            at = attr_tok(str(n), v)
        b = len(cells)
        cells.append(["B"] + list(data))
        cells.append(["D"] + [list(p) for p in at])
        cells.append(["V", b, b + 1])
        inputs += [(1000 + k, b), (2000 + k, b + 1), (3000 + k, b + 2)]
        vars_.append([tok_of(str(n)), b + 2])
    ga = len(cells)
    cells.append(["D", [7, 7]] if len(ds.attrs) else ["D"])
    root = len(cells)
    cells.append(["S", ga] + vars_)
    inputs += [(4001, ga), (4000, root)]
    return cells, root, inputs


# ---------------------------------------------------------------------------------------------
# dataset builders for the source formats (small, from a meshgen.Mesh)

def mesh_lonlat_u(m, lon360):
    lon, lat = m.lonlat()
    lu = [int(round(x * U)) for x in lon]
    lu = [x if x < 180 * U else x - 360 * U for x in lu]
    # keep clear of the +-180 seam so that the > 180 test is decided by a wide margin
    lu = [x if abs(abs(x) - 180 * U) > 1000 else (179 * U if x > 0 else -179 * U) for x in lu]
    if lon360:
        lu = [x % (360 * U) for x in lu]
    return lu, [int(round(x * U)) for x in lat]


def mesh_case(m, lon360=False):
    lu, la = mesh_lonlat_u(m, lon360)
    return {"faces": [list(map(int, f)) for f in m.faces], "lon_u": lu, "lat_u": la,
            "xyz": [list(map(float, p)) for p in m.nodes]}


def tbl(faces, fill, si, dtype, width=None):
    w = width or max(len(f) for f in faces)
    return np.array([[i + si for i in f] + [fill] * (w - len(f)) for f in faces], dtype=dtype)


def edges_of(faces):
    e = {}
    for f in faces:
        for j in range(len(f)):
            a, b = f[j], f[(j + 1) % len(f)]
            e.setdefault((min(a, b), max(a, b)), len(e))
    return e


def fcenters(mc):
    import math
    cl, ct = [], []
    for f in mc["faces"]:
        x = sum(mc["xyz"][i][0] for i in f)
        y = sum(mc["xyz"][i][1] for i in f)
        z = sum(mc["xyz"][i][2] for i in f)
        n = math.sqrt(x * x + y * y + z * z) or 1.0
        cl.append(math.degrees(math.atan2(y, x)))
        ct.append(math.degrees(math.asin(max(-1.0, min(1.0, z / n)))))
    return np.array(cl), np.array(ct)


def lonlat_f(mc):
    return np.array(mc["lon_u"], dtype=float) / U, np.array(mc["lat_u"], dtype=float) / U


UGRID_DIALECTS = {
    # variable and dimension names of the source: a foreign dialect, the library's own conventional names
    # (nothing to rename), and a mix
    "mesh2": {"topo": "Mesh2", "lon": "Mesh2_node_x", "lat": "Mesh2_node_y", "fnc": "Mesh2_face_nodes", "enc": "Mesh2_edge_nodes",
              "dn": "nMesh2_node", "df": "nMesh2_face", "dm": "nMaxMesh2_face_nodes", "de": "nMesh2_edge"},
    "conventional": {"topo": "grid_topology", "lon": "node_lon", "lat": "node_lat", "fnc": "face_node_connectivity",
                     "enc": "edge_node_connectivity", "dn": "n_node", "df": "n_face", "dm": "n_max_face_nodes", "de": "n_edge"},
    "mixed": {"topo": "mesh", "lon": "node_lon", "lat": "node_lat", "fnc": "face_nodes", "enc": "edge_node_connectivity",
              "dn": "n_node", "df": "nFaces", "dm": "n_max_face_nodes", "de": "nEdges"},
}


def ugrid_names(p):
    d = UGRID_DIALECTS[p.get("dialect", "mesh2")]
    return {d["topo"]: "grid_topology", d["lon"]: "node_lon", d["lat"]: "node_lat", d["fnc"]: "face_node_connectivity",
            d["enc"]: "edge_node_connectivity"}


def ds_ugrid(mc, p):
    X = xr()
    d = UGRID_DIALECTS[p.get("dialect", "mesh2")]
    dtype = np.dtype(p["dtype"]).type
    lon, lat = lonlat_f(mc)
    ds = X.Dataset()
    topo = {"cf_role": "mesh_topology", "topology_dimension": 2, "node_coordinates": d["lon"] + " " + d["lat"],
            "face_node_connectivity": d["fnc"], "face_dimension": d["df"]}
    if p.get("edge_conn"):
        topo["edge_node_connectivity"] = d["enc"]
    ds[d["topo"]] = X.DataArray(np.int32(0), attrs=topo)
    ds[d["lon"]] = X.DataArray(lon, dims=[d["dn"]], attrs={"standard_name": "longitude", "units": "degrees_east"})
    ds[d["lat"]] = X.DataArray(lat, dims=[d["dn"]], attrs={"standard_name": "latitude", "units": "degrees_north"})
    a = {"cf_role": "face_node_connectivity", "long_name": "faces"}
    fill = p["fill"]
    if fill is not None:
        a["_FillValue"] = dtype(fill)
    if p["si_attr"] is not None:
        a["start_index"] = dtype(p["si_attr"])
    ds[d["fnc"]] = X.DataArray(tbl(mc["faces"], fill if fill is not None else 0, p["si"], dtype),
                               dims=[d["df"], d["dm"]], attrs=a)
    if p.get("edge_conn"):
        ed = sorted(edges_of(mc["faces"]).items(), key=lambda kv: kv[1])
        ea = dict(a)
        ea["cf_role"] = "edge_node_connectivity"
        ds[d["enc"]] = X.DataArray(np.array([[u + p["si"], v + p["si"]] for (u, v), _ in ed], dtype=dtype),
                                   dims=[d["de"], "two"], attrs=ea)
    if p.get("gattrs", True):
        ds.attrs = {"title": "c19", "Conventions": "UGRID-1.0"}
    return ds


def ds_internal(mc):
    X = xr()
    lon, lat = lonlat_f(mc)
    ds = X.Dataset()
    ds["node_lon"] = X.DataArray(lon, dims=["n_node"], attrs={"units": "degrees_east"})
    ds["node_lat"] = X.DataArray(lat, dims=["n_node"], attrs={"units": "degrees_north"})
    ds["face_node_connectivity"] = X.DataArray(tbl(mc["faces"], F, 0, np.int64), dims=["n_face", "n_max_face_nodes"],
                                               attrs={"cf_role": "face_node_connectivity", "_FillValue": F, "start_index": 0})
    ds.attrs = {"title": "internal"}
    return ds


def ds_mpas(mc, p):
    X = xr()
    dtype = np.dtype(p["dtype"]).type
    lon, lat = lonlat_f(mc)
    cl, ct = fcenters(mc)
    faces = mc["faces"]
    nv = len(mc["lon_u"])
    cov = np.zeros((nv, 3), dtype=dtype)
    cnt = [0] * nv
    for fi, f in enumerate(faces):
        for i in f:
            if cnt[i] < 3:
                cov[i, cnt[i]] = fi + 1
                cnt[i] += 1
    xyz = np.array(mc["xyz"])
    ds = X.Dataset()
    ds["lonVertex"] = X.DataArray(np.deg2rad(lon) % (2 * np.pi), dims=["nVertices"])
    ds["latVertex"] = X.DataArray(np.deg2rad(lat), dims=["nVertices"])
    if p.get("xyz", True):
        for j, n in enumerate(("xVertex", "yVertex", "zVertex")):
            ds[n] = X.DataArray(xyz[:, j].copy(), dims=["nVertices"])
    ds["lonCell"] = X.DataArray(np.deg2rad(cl) % (2 * np.pi), dims=["nCells"])
    ds["latCell"] = X.DataArray(np.deg2rad(ct), dims=["nCells"])
    if p.get("cell_xyz"):
        cx = np.cos(np.deg2rad(ct)) * np.cos(np.deg2rad(cl))
        cy = np.cos(np.deg2rad(ct)) * np.sin(np.deg2rad(cl))
        cz = np.sin(np.deg2rad(ct))
        ds["xCell"] = X.DataArray(cx, dims=["nCells"])
        ds["yCell"] = X.DataArray(cy, dims=["nCells"])
        ds["zCell"] = X.DataArray(cz, dims=["nCells"])
    ds["verticesOnCell"] = X.DataArray(tbl(faces, 0, 1, dtype), dims=["nCells", "maxEdges"])
    ds["nEdgesOnCell"] = X.DataArray(np.array([len(f) for f in faces], dtype=dtype), dims=["nCells"])
    ds["cellsOnVertex"] = X.DataArray(cov, dims=["nVertices", "vertexDegree"])
    if p.get("edges"):
        ed = sorted(edges_of(faces).items(), key=lambda kv: kv[1])
        ds["verticesOnEdge"] = X.DataArray(np.array([[u + 1, v + 1] for (u, v), _ in ed], dtype=dtype), dims=["nEdges", "TWO"])
        ds["dvEdge"] = X.DataArray(np.full(len(ed), 0.25), dims=["nEdges"])
    ds["areaCell"] = X.DataArray(np.full(len(faces), 0.5), dims=["nCells"])
    ds.attrs = {"sphere_radius": 1.0, "mesh_spec": "1.0", "on_a_sphere": "YES"}
    return ds


def ds_exodus(mc, p):
    X = xr()
    dtype = np.dtype(p["dtype"]).type
    xyz = np.array(mc["xyz"])
    ds = X.Dataset()
    if p["variant"] == "coord":
        ds["coord"] = X.DataArray(xyz.T.copy(), dims=["num_dim", "num_nodes"])
    else:
        ds["coordx"] = X.DataArray(xyz[:, 0].copy(), dims=["num_nodes"])
        ds["coordy"] = X.DataArray(xyz[:, 1].copy(), dims=["num_nodes"])
        ds["coordz"] = X.DataArray(xyz[:, 2].copy(), dims=["num_nodes"])
        ds["coor_names"] = X.DataArray(np.zeros(3), dims=["num_dim"])
    ds["connect1"] = X.DataArray(tbl(mc["faces"], 0, 1, dtype), dims=["num_el_in_blk1", "num_nod_per_el1"],
                                 attrs={"elem_type": "SHELL4"})
    ds.attrs = {"title": "exo"}
    return ds


def ds_scrip(mc, p):
    X = xr()
    lon, lat = lonlat_f(mc)
    cl, ct = fcenters(mc)
    if p.get("lon360"):
        cl = cl % 360.0
    faces = mc["faces"]
    w = max(len(f) for f in faces)
    clon = np.array([[lon[f[min(j, len(f) - 1)]] for j in range(w)] for f in faces])
    clat = np.array([[lat[f[min(j, len(f) - 1)]] for j in range(w)] for f in faces])
    ds = X.Dataset()
    ds["grid_corner_lon"] = X.DataArray(clon, dims=["grid_size", "grid_corners"])
    ds["grid_corner_lat"] = X.DataArray(clat, dims=["grid_size", "grid_corners"])
    ds["grid_center_lon"] = X.DataArray(cl, dims=["grid_size"])
    ds["grid_center_lat"] = X.DataArray(ct, dims=["grid_size"])
    ds["grid_area"] = X.DataArray(np.array([0.05 + 0.013 * ((7 * i) % 11) for i in range(len(faces))]), dims=["grid_size"])
    ds["grid_imask"] = X.DataArray(np.ones(len(faces), dtype=np.int32), dims=["grid_size"])
    ds.attrs = {"title": "scrip"}
    return ds


def ds_esmf(mc, p):
    X = xr()
    dtype = np.dtype(p["dtype"]).type
    lon, lat = lonlat_f(mc)
    cl, ct = fcenters(mc)
    if p.get("lon360"):
        cl = cl % 360.0
    ds = X.Dataset()
    ds["nodeCoords"] = X.DataArray(np.column_stack([lon, lat]), dims=["nodeCount", "coordDim"], attrs={"units": "degrees"})
    ds["centerCoords"] = X.DataArray(np.column_stack([cl, ct]), dims=["elementCount", "coordDim"], attrs={"units": "degrees"})
    ds["elementConn"] = X.DataArray(tbl(mc["faces"], -1, 1, dtype), dims=["elementCount", "maxNodePElement"],
                                    attrs={"long_name": "conn", "_FillValue": dtype(-1)})
    ds["numElementConn"] = X.DataArray(np.array([len(f) for f in mc["faces"]], dtype=p.get("nconn_dtype", "int8")),
                                       dims=["elementCount"])
    if p.get("element_area"):
        ds["elementArea"] = X.DataArray(np.array([0.02 + 0.017 * ((5 * i) % 13) for i in range(len(mc["faces"]))]),
                                        dims=["elementCount"], attrs={"units": "radians^2"})
    ds.attrs = {"gridType": "unstructured mesh"}
    return ds


def ds_geos(p):
    X = xr()
    n = p.get("n", 2)
    off = 200.0 if p.get("lon360") else 0.0
    lons = np.array([[[(-170 + 50 * f + 10.0 * i + 0.5 * j) for j in range(n + 1)] for i in range(n + 1)] for f in range(6)])
    lons = lons + (off if off else 0.0)
    if off:
        lons = lons % 360.0
    lats = np.array([[[(-40 + 5 * f + 1.0 * i + 10.0 * j) for j in range(n + 1)] for i in range(n + 1)] for f in range(6)])
    ds = X.Dataset()
    ds["corner_lons"] = X.DataArray(lons, dims=["nf", "YCdim", "XCdim"])
    ds["corner_lats"] = X.DataArray(lats, dims=["nf", "YCdim", "XCdim"])
    ds["lons"] = X.DataArray(lons[:, :-1, :-1] * 1.0 + 0.1, dims=["nf", "Ydim", "Xdim"])
    ds["lats"] = X.DataArray(lats[:, :-1, :-1] * 1.0 + 0.1, dims=["nf", "Ydim", "Xdim"])
    ds.attrs = {"title": "geos"}
    return ds


def ds_icon(mc, p):
    X = xr()
    dtype = np.dtype(p["dtype"]).type
    lon, lat = lonlat_f(mc)
    cl, ct = fcenters(mc)
    faces = mc["faces"]
    ed = edges_of(faces)
    ne = len(ed)
    ev = np.zeros((2, ne), dtype=dtype)
    for (a, b), e in ed.items():
        ev[:, e] = (a + 1, b + 1)
    voc = np.array([[i + 1 for i in f] for f in faces], dtype=dtype).T.copy()
    eoc = np.array([[ed[(min(f[j], f[(j + 1) % 3]), max(f[j], f[(j + 1) % 3]))] + 1 for j in range(3)] for f in faces], dtype=dtype).T.copy()
    ds = X.Dataset()
    ds["vlon"] = X.DataArray(np.deg2rad(lon), dims=["vertex"])
    ds["vlat"] = X.DataArray(np.deg2rad(lat), dims=["vertex"])
    ds["elon"] = X.DataArray(np.zeros(ne), dims=["edge"])
    ds["elat"] = X.DataArray(np.zeros(ne), dims=["edge"])
    ds["clon"] = X.DataArray(np.deg2rad(cl), dims=["cell"])
    ds["clat"] = X.DataArray(np.deg2rad(ct), dims=["cell"])
    ds["vertex_of_cell"] = X.DataArray(voc, dims=["nv", "cell"])
    ds["edge_of_cell"] = X.DataArray(eoc, dims=["nv", "cell"])
    ds["neighbor_cell_index"] = X.DataArray(np.zeros((3, len(faces)), dtype=dtype), dims=["nv", "cell"])
    ds["adjacent_cell_of_edge"] = X.DataArray(np.ones((2, ne), dtype=dtype), dims=["nc", "edge"])
    ds["edge_vertices"] = X.DataArray(ev, dims=["nc", "edge"])
    ds.attrs = {"title": "icon"}
    return ds


# ---------------------------------------------------------------------------------------------
# measurements shared by the constructor experiments

def grid_alias(g, named_inputs):
    """pairs (grid variable token, input token) whose buffers share memory"""
    out = set()
    for k in g._ds.variables:
        gv = g._ds.variables[k].values
        for tok, arr in named_inputs:
            if isinstance(arr, np.ndarray) and arr.size and gv.size and np.shares_memory(gv, arr):
                out.add((GV.get(str(k), 900), tok))
    return sorted(out)


USE_BATTERY = ["n_nodes_per_face", "edge_node_connectivity", "face_lon", "node_x", "face_areas"]


def use_grid(g):
    """a fixed battery of public calls after construction (lazy derivation, mutators)"""
    for nm in USE_BATTERY:
        try:
            getattr(g, nm)
        except Exception:
            pass
    try:
        g.normalize_cartesian_coordinates()
    except Exception:
        pass
    try:
        g.attrs["c19_probe"] = 1
    except Exception:
        pass


def u_of(vals):
    return [int(round(float(v) * U)) for v in np.asarray(vals).ravel()]


# ---------------------------------------------------------------------------------------------
# experiment: from_topology / open_grid(dict)

def run_topology(ck, c):
    UX = ux()
    mc = c["mesh"]
    dtype = np.dtype(c["dtype"]).type
    fv = c["fv"]
    si = c["si"]
    faces = mc["faces"]
    lon, lat = lonlat_f(mc)
    t = tbl(faces, fv if fv is not None else 0, si, dtype)
    named = []          # (token, object) in model order
    conns = [("face_node_connectivity", t)]
    if c.get("edge_conn"):
        ed = sorted(edges_of(faces).items(), key=lambda kv: kv[1])
        conns.append(("edge_node_connectivity", np.array([[u + si, v + si] for (u, v), _ in ed], dtype=dtype)))
    coords = [("node_lon", lon), ("node_lat", lat)]
    if c.get("xyz"):
        xyz = np.array(mc["xyz"]) * 2.0
        coords += [("node_x", xyz[:, 0].copy()), ("node_y", xyz[:, 1].copy()), ("node_z", xyz[:, 2].copy())]
    as_list = c["coord_kind"] == "list"
    conn_list = c["conn_kind"] == "list"
    if as_list:
        coords = [(n, v.tolist()) for n, v in coords]
    if conn_list:
        conns = [(n, v.tolist()) for n, v in conns]
    befores = [(n, _copy.deepcopy(v)) for n, v in conns + coords]
    kw = {n: v for n, v in conns[1:] + coords[2:]}
    res = {"raises": None}
    try:
        if c["via"] == "open_grid":
            d = dict(node_lon=coords[0][1], node_lat=coords[1][1], face_node_connectivity=conns[0][1],
                     fill_value=fv, start_index=si)
            d.update(kw)
            g = UX.open_grid(d)
        else:
            g = UX.Grid.from_topology(coords[0][1], coords[1][1], conns[0][1], fill_value=fv, start_index=si, **kw)
    except Exception as ex:
        g = None
        res["raises"] = type(ex).__name__
    toks = {}
    for i, (n, v) in enumerate(conns):
        toks[n] = 1000 + i
    for i, (n, v) in enumerate(coords):
        toks[n] = 1010 + i
    modified = []
    for (n, v), (_, b) in zip(conns + coords, befores):
        same = np.array_equal(np.asarray(v), np.asarray(b)) if not isinstance(v, list) else (v == b)
        if not same:
            modified.append(toks[n])
    res["modified"] = sorted(modified)
    if g is not None:
        res["alias"] = grid_alias(g, [(toks[n], v) for n, v in conns + coords])
        vals = {}
        for n, _ in conns:
            vals[GV[n]] = [int(x) for x in g._ds[n].values.ravel()]
        vals[GV["node_lon"]] = u_of(g._ds["node_lon"].values)
        res["values"] = vals
        use_grid(g)
        mod2 = []
        for (n, v), (_, b) in zip(conns + coords, befores):
            same = np.array_equal(np.asarray(v), np.asarray(b)) if not isinstance(v, list) else (v == b)
            if not same:
                mod2.append(toks[n])
        res["modified_after_use"] = sorted(mod2)
    # ---- property clause on the implementation ----
    inplace = fv is not None and (fv == F or np.dtype(c["dtype"]) == np.dtype(np.intp)) and not conn_list
    for tk in res["modified"]:
        nm = [n for n in toks if toks[n] == tk][0]
        ck.fail("input_modified_by_build", c,
                {"constructor": "from_topology", "input": "connectivity" if tk < 1010 else nm,
                 "inplace_branch": bool(inplace)}, detail="argument %s differs after the call" % nm)
    for tk in res.get("modified_after_use", []):
        if tk not in res["modified"]:
            ck.fail("input_modified_by_use", c, {"constructor": "from_topology", "input": str(tk)})
    # ---- model ----
    cells = []
    bmap = dict(befores)
    for n, v in conns:
        cells.append(["B"] + [int(x) for x in np.asarray(bmap[n]).ravel()])
    for n, v in coords:
        if n in ("node_lon", "node_lat"):
            cells.append(["B"] + u_of(bmap[n]))
        else:
            cells.append(["B", 0])
    inputs = [(toks[n], i) for i, (n, _) in enumerate(conns + coords)]
    line = sx([cells, [[GV[n], 0 if as_list else 1, len(conns) + i] for i, (n, _) in enumerate(coords)],
               [[GV[n], i] for i, (n, _) in enumerate(conns)],
               1 if np.dtype(c["dtype"]) == np.dtype(np.intp) else 0, fv, si, [list(p) for p in inputs]])
    return res, ("topology", line)


def cmp_topology(ck, c, res, mo):
    if mo == ["RAISES"]:
        if res["raises"] is None:
            ck.corr_failures.append({"case": c, "what": "model says the call raises, implementation built a grid"})
        elif res["modified"]:
            ck.corr_failures.append({"case": c, "what": "raising call modified its input"})
        return
    if res["raises"] is not None:
        ck.corr_failures.append({"case": c, "what": "implementation raised %s, model builds a grid" % res["raises"]})
        return
    m_mod, m_alias, _, m_vals, m_wt = mo[:5]
    if sorted(m_mod) != res["modified"]:
        ck.corr_failures.append({"case": c, "what": "modified inputs", "impl": res["modified"], "model": sorted(m_mod)})
    if sorted(tuple(p) for p in m_alias) != [tuple(p) for p in res["alias"]]:
        ck.corr_failures.append({"case": c, "what": "alias table", "impl": res["alias"], "model": m_alias})
    for n, data in m_vals:
        if n in res["values"] and data is not None and list(data) != res["values"][n]:
            ck.corr_failures.append({"case": c, "what": "values of grid variable %d" % n,
                                     "impl": res["values"][n][:12], "model": list(data)[:12]})


# ---------------------------------------------------------------------------------------------
# experiment: from_dataset / open_grid on a UGRID dataset

def run_ugrid(ck, c):
    UX = ux()
    mc = c["mesh"]
    ds = ds_ugrid(mc, c)
    snap = DsSnap(ds)
    res = {"raises": None}

    UGRID_NAME = ugrid_names(c)

    def tok_of(n):
        return GV[UGRID_NAME[n]]

    def attr_tok(n, v):
        out = []
        if "_FillValue" in v.attrs:
            out.append((K_FILL, int(v.attrs["_FillValue"])))
        if "start_index" in v.attrs:
            out.append((K_START, int(v.attrs["start_index"])))
        out.append((1, 1))
        return out

    def data_of(n, v):
        if UGRID_NAME[n].endswith("connectivity"):
            return [int(x) for x in v.values.ravel()]
        if UGRID_NAME[n] == "node_lon":
            return mc["lon_u"]
        return [0]
    cells, root, inputs = heap_of_ds(ds, tok_of, attr_tok, data_of)
    try:
        g = UX.open_grid(ds) if c["via"] == "open_grid" else UX.Grid.from_dataset(ds)
    except Exception as ex:
        g = None
        res["raises"] = type(ex).__name__ + ": " + str(ex)[:100]
    res["modified"] = snap.modified()
    res["report_changed"] = snap.changed_report()
    names = snap.names
    if g is not None:
        res["adopted"] = g._ds is ds
        res["alias"] = grid_alias(g, [(1000 + k, snap.bufs[n]) for k, n in enumerate(names)])
        vals = {}
        for n in ("face_node_connectivity", "edge_node_connectivity"):
            if n in g._ds:
                vals[GV[n]] = [int(x) for x in g._ds[n].values.ravel()]
        res["values"] = vals
        res["gvars"] = sorted(GV.get(str(k), 900) for k in g._ds.variables)
        try:
            use_grid(g)
        except Exception:
            pass
        res["modified_after_use"] = snap.modified()
    dt_std = np.dtype(c["dtype"]) == np.dtype(np.intp)
    std_fv = c["fill"] is not None and c["fill"] == F
    inplace = dt_std and not std_fv
    if res["report_changed"] or [t for t in res["modified"]]:
        ck.fail("input_modified_by_build", c,
                {"constructor": "from_dataset", "format": "UGRID", "inplace_branch": bool(inplace),
                 "input": ",".join(res["report_changed"]) and "connectivity"
                 if all(ugrid_names(c).get(x.lstrip("~"), "").endswith("connectivity") for x in res["report_changed"]) else "other"},
                detail=json.dumps({"changed": res["report_changed"], "tokens": res["modified"]}))
    elif res.get("modified_after_use"):
        ck.fail("input_modified_by_use", c, {"constructor": "from_dataset", "format": "UGRID",
                                              "adopted": bool(res.get("adopted"))},
                detail=json.dumps(res["modified_after_use"]))
    # ---- model ----
    conn_names = [GV["face_node_connectivity"]] + ([GV["edge_node_connectivity"]] if c.get("edge_conn") else [])
    # the reader standardises in the order of ugrid.CONNECTIVITY_NAMES: face_node first, edge_node later
    line = sx([cells, root, conn_names, 1 if dt_std else 0, [list(p) for p in inputs]])
    return res, ("ugrid", line)


def cmp_dataset(ck, c, res, mo, check_values=True, check_vars=False):
    if res["raises"] is not None:
        ck.corr_failures.append({"case": c, "what": "implementation raised " + res["raises"]})
        return
    m_mod, m_alias, m_root_is_input, m_vals, m_wt = mo[:5]
    if sorted(m_mod) != res["modified"]:
        ck.corr_failures.append({"case": c, "what": "modified input cells", "impl": res["modified"], "model": sorted(m_mod)})
    ma = sorted((a, b) for a, b in m_alias if 1000 <= b < 2000)
    for pr in res.get("alias_confirmed", []):
        if tuple(pr) not in ma:
            # the source builds this variable as its own copy (copy point): it must not be the caller's array
            ck.fail("grid_variable_is_callers_array", c, {"constructor": "from_dataset", "format": c.get("format"),
                                                          "grid_variable": pr[0]},
                    detail="grid variable %d and input array %d are one buffer: an in-place edit of either shows in the other"
                           % (pr[0], pr[1]))
    if ma != [tuple(p) for p in res["alias"]]:
        ck.corr_failures.append({"case": c, "what": "alias table", "impl": res["alias"], "model": ma})
    if bool(m_root_is_input) != bool(res["adopted"]):
        ck.corr_failures.append({"case": c, "what": "grid dataset is the input dataset", "impl": res["adopted"],
                                 "model": m_root_is_input})
    if check_values:
        for n, data in m_vals:
            if n in res["values"] and data is not None and list(data) != res["values"][n]:
                ck.corr_failures.append({"case": c, "what": "values of grid variable %d" % n,
                                         "impl": res["values"][n][:12], "model": list(data)[:12]})
    if check_vars and len(mo) > 5:
        if sorted(mo[5]) != res["gvars"]:
            ck.corr_failures.append({"case": c, "what": "set of grid variables", "impl": res["gvars"], "model": sorted(mo[5])})


# ---------------------------------------------------------------------------------------------
# experiment: Grid(ds, spec) / from_dataset(ds, source_grid_spec=...)

def run_adopt(ck, c):
    UX = ux()
    mc = c["mesh"]
    ds = ds_internal(mc)
    snap = DsSnap(ds)
    res = {"raises": None}

    def data_of(n, v):
        return mc["lon_u"] if n == "node_lon" else [0]
    cells, root, inputs = heap_of_ds(ds, lambda n: GV[n], None, data_of)
    try:
        if c["via"] == "Grid":
            g = UX.Grid(ds, source_grid_spec="C19")
        else:
            g = UX.Grid.from_dataset(ds, source_grid_spec="C19")
    except Exception as ex:
        g = None
        res["raises"] = type(ex).__name__ + ": " + str(ex)[:100]
    res["modified"] = snap.modified()
    res["report_changed"] = snap.changed_report()
    if g is not None:
        res["adopted"] = g._ds is ds
        res["alias"] = grid_alias(g, [(1000 + k, snap.bufs[n]) for k, n in enumerate(snap.names)])
        res["values"] = {GV["node_lon"]: u_of(g._ds["node_lon"].values)}
        use_grid(g)
        res["modified_after_use"] = snap.modified()
        res["report_changed_after_use"] = snap.changed_report()
    if res["report_changed"]:
        ck.fail("input_modified_by_build", c, {"constructor": "Grid.__init__", "adopted": bool(res.get("adopted")),
                                                "input": ",".join(res["report_changed"])},
                detail="the caller's dataset reports other values after the call: %s" % res["report_changed"])
    if res.get("report_changed_after_use") and res["report_changed_after_use"] != res["report_changed"]:
        ck.fail("input_modified_by_use", c, {"constructor": "Grid.__init__", "adopted": bool(res.get("adopted"))},
                detail="later use of the grid changed the caller's dataset: %s" % res["report_changed_after_use"])
    line = sx([cells, root, [list(p) for p in inputs], [GV["node_lon"]]])
    return res, ("adopt", line)


# ---------------------------------------------------------------------------------------------
# experiment: table-driven readers

def build_format(c):
    mc = c.get("mesh")
    f = c["format"]
    if f in ("mpas", "mpas_dual"):
        return ds_mpas(mc, c)
    if f == "exodus":
        return ds_exodus(mc, c)
    if f == "scrip":
        return ds_scrip(mc, c)
    if f == "esmf":
        return ds_esmf(mc, c)
    if f == "geos":
        return ds_geos(c)
    if f == "icon":
        return ds_icon(mc, c)
    raise ValueError(f)


def confirm_aliases(g, snap, pairs):
    """for every measured alias pair: an in-place write into the caller's array shows in the grid variable
    and an in-place write into the grid variable shows in the caller's array (both undone afterwards)"""
    tok2name = {v: k for k, v in GV.items()}
    out = []
    for gt, it in pairs:
        gname, iname = tok2name.get(gt), snap.names[it - 1000]
        a, b = snap.bufs[iname], g._ds[gname].values
        if a.size == 0 or b.size == 0 or a.dtype.kind not in "fiu" or not a.flags.writeable or not b.flags.writeable:
            continue
        save_a, save_b = a.copy(), b.copy()
        a += 1
        fwd = arr_sig(b) != arr_sig(save_b)
        a[...] = save_a
        b[...] = save_b
        b += 1
        bwd = arr_sig(a) != arr_sig(save_a)
        b[...] = save_b
        a[...] = save_a
        if fwd or bwd:
            out.append([gt, it])
    return out


def run_reader(ck, c):
    UX = ux()
    ds = build_format(c)
    snap = DsSnap(ds)
    res = {"raises": None}
    cells, root, inputs = heap_of_ds(ds, lambda n: INTOK.get(n, 999))
    try:
        kw = {"use_dual": True} if c["format"] == "mpas_dual" else {}
        g = UX.open_grid(ds, **kw) if c["via"] == "open_grid" else UX.Grid.from_dataset(ds, **kw)
    except Exception as ex:
        g = None
        res["raises"] = type(ex).__name__ + ": " + str(ex)[:100]
    res["modified"] = snap.modified()
    res["report_changed"] = snap.changed_report()
    over = []
    if g is not None:
        res["adopted"] = g._ds is ds
        res["alias"] = grid_alias(g, [(1000 + k, snap.bufs[n]) for k, n in enumerate(snap.names)])
        res["values"] = {}
        res["gvars"] = sorted(GV.get(str(k), 900) for k in g._ds.variables)
        res["attrs_shared"] = g._ds.attrs is ds.attrs
        res["alias_confirmed"] = confirm_aliases(g, snap, res["alias"])
        try:
            use_grid(g)
        except Exception:
            pass
        res["modified_after_use"] = snap.modified()
    # longitude variables whose source exceeds 180 (decides _set_desired_longitude_range)
    f = c["format"]
    if f == "esmf":
        if float(np.max(ds["nodeCoords"].values[:, 0])) > 180:
            over.append(GV["node_lon"])
        if float(np.max(ds["centerCoords"].values[:, 0])) > 180:
            over.append(GV["face_lon"])
    if f == "scrip" and float(np.max(ds["grid_center_lon"].values)) > 180:
        over.append(GV["face_lon"])
    if f == "geos":
        if float(np.max(ds["corner_lons"].values)) > 180:
            over.append(GV["node_lon"])
        if float(np.max(ds["lons"].values)) > 180:
            over.append(GV["face_lon"])
    if res["report_changed"] or res["modified"]:
        ck.fail("input_modified_by_build", c, {"constructor": "from_dataset", "format": f, "input": ",".join(res["report_changed"])},
                detail=json.dumps({"changed": res["report_changed"], "tokens": res["modified"]}))
    elif res.get("modified_after_use"):
        ck.fail("input_modified_by_use", c, {"constructor": "from_dataset", "format": f, "adopted": bool(res.get("adopted"))},
                detail=json.dumps(res["modified_after_use"]))
    if res.get("attrs_shared"):
        ck.fail("input_attrs_shared", c, {"constructor": "from_dataset", "format": f})
    line = sx([cells, root, FMT_ID[f], 1 if f.startswith("mpas") else 0, over, [list(p) for p in inputs]])
    return res, ("table", line)


def run_vertices(ck, c):
    UX = ux()
    mc = c["mesh"]
    lon, lat = lonlat_f(mc)
    faces = [f for f in mc["faces"] if len(f) == c["size"]]
    verts = [[[float(lon[i]), float(lat[i])] for i in f] for f in faces]
    kind = c["container"]
    inp = np.array(verts) if kind == "ndarray" else (tuple(tuple(tuple(p) for p in f) for f in verts) if kind == "tuple" else verts)
    before = _copy.deepcopy(inp)
    res = {"raises": None}
    try:
        g = UX.open_grid(inp, latlon=True) if c["via"] == "open_grid" else UX.Grid.from_face_vertices(inp, latlon=True)
    except Exception as ex:
        g = None
        res["raises"] = type(ex).__name__ + ": " + str(ex)[:100]
    same = np.array_equal(np.asarray(inp), np.asarray(before))
    res["modified"] = [] if same else [1000]
    if g is not None:
        res["adopted"] = False
        res["alias"] = grid_alias(g, [(1000, inp)]) if isinstance(inp, np.ndarray) else []
        res["values"] = {}
        res["gvars"] = sorted(GV.get(str(k), 900) for k in g._ds.variables)
        use_grid(g)
        if not np.array_equal(np.asarray(inp), np.asarray(before)):
            ck.fail("input_modified_by_use", c, {"constructor": "from_face_vertices"})
    if not same:
        ck.fail("input_modified_by_build", c, {"constructor": "from_face_vertices", "input": kind})
    cells = [["B", 0], ["D"], ["V", 0, 1], ["D"], ["S", 3, [INTOK["vertices"], 2]]]
    inputs = [(1000, 0), (2000, 1), (3000, 2), (4001, 3), (4000, 4)]
    line = sx([cells, 4, FMT_ID["vertices"], 0, [], [list(p) for p in inputs]])
    return res, ("table", line)


# ---------------------------------------------------------------------------------------------
# experiment: copies under mutation

LAZY = ["n_nodes_per_face", "edge_node_connectivity", "face_edge_connectivity", "node_face_connectivity",
        "edge_face_connectivity", "face_face_connectivity", "face_lon", "edge_lon", "node_x", "face_areas",
        "edge_node_distances", "hole_edge_indices"]
SETTERS = ["node_lon", "node_lat", "face_areas", "n_nodes_per_face", "face_lon", "edge_node_connectivity"]


def base_grid(c):
    UX = ux()
    mc = c["mesh"]
    if c.get("cartesian"):
        # Cartesian-only grid: node_x / node_y / node_z, no node_lon / node_lat until something derives them
        size = max(set(len(f) for f in mc["faces"]), key=lambda k: sum(1 for f in mc["faces"] if len(f) == k))
        verts = np.array([[mc["xyz"][i] for i in f] for f in mc["faces"] if len(f) == size], dtype=float)
        return UX.Grid.from_face_vertices(verts, latlon=False)
    lon, lat = lonlat_f(mc)
    kw = {}
    if c.get("xyz"):
        xyz = np.array(mc["xyz"]) * 2.0
        kw = dict(node_x=xyz[:, 0].copy(), node_y=xyz[:, 1].copy(), node_z=xyz[:, 2].copy())
    g = UX.Grid.from_topology(lon, lat, tbl(mc["faces"], F, 0, np.int64), fill_value=F, **kw)
    for nm in c.get("pre", []):
        getattr(g, nm)
    return g


DEEP_COPY_ROUTES = ["Grid.copy", "copy.deepcopy", "UxDataArray.copy", "UxDataArray.copy(deep=True)",
                    "UxDataArray.copy(deep=True,data)", "copy.deepcopy(UxDataArray)"]
SHALLOW_COPY_ROUTES = ["UxDataArray.copy(deep=False)", "copy.copy(UxDataArray)"]


def make_copy(g, path):
    """the grid reached through one of the copy routes of a Grid or of a UxDataArray holding it.
    C19's clause 'copy() returns a grid that stays unchanged when the original is later modified' is read
    for every deep route (its anchor: UxDataArray._copy(deep=True) relies on Grid.copy)"""
    UX = ux()
    if path == "Grid.copy":
        return g.copy()
    if path == "copy.deepcopy":
        return _copy.deepcopy(g)
    da = UX.UxDataArray(np.arange(g.n_face, dtype=float), dims=["n_face"], uxgrid=g, name="v")
    if path == "UxDataArray.copy":
        return da.copy().uxgrid
    if path == "UxDataArray.copy(deep=True)":
        return da.copy(deep=True).uxgrid
    if path == "UxDataArray.copy(deep=True,data)":
        return da.copy(deep=True, data=np.zeros(g.n_face)).uxgrid
    if path == "copy.deepcopy(UxDataArray)":
        return _copy.deepcopy(da).uxgrid
    if path == "UxDataArray.copy(deep=False)":
        return da.copy(deep=False).uxgrid
    if path == "copy.copy(UxDataArray)":
        return _copy.copy(da).uxgrid
    raise ValueError(path)


def apply_mutator(g, mut):
    """returns the list of model ops (as sx-able lists) describing what the call does to g._ds"""
    X = xr()
    kind, arg = mut
    before = set(str(k) for k in g._ds.variables)
    if kind == "lazy":
        getattr(g, arg)
    elif kind == "setter":
        old = g._ds[arg] if arg in g._ds else getattr(g, arg)
        before = set(str(k) for k in g._ds.variables)
        new = X.DataArray(np.asarray(old.values) * 0 + 1, dims=old.dims, attrs={"c19": "set"})
        setattr(g, arg, new)
        return [["SV", GV[arg], [1], [[9, 9]]]]
    elif kind == "centers":
        g.construct_face_centers(method=arg)
        return [["SV", GV[n], [2], [[0, 0]]] for n in ("face_lon", "face_lat", "face_x", "face_y", "face_z")]
    elif kind == "normalize":
        already = all(n in g._ds for n in ("node_x", "node_y", "node_z")) and np.allclose(
            np.sqrt(g._ds["node_x"].values ** 2 + g._ds["node_y"].values ** 2 + g._ds["node_z"].values ** 2), 1.0)
        had = "node_x" in g._ds
        g.normalize_cartesian_coordinates()
        now = set(str(k) for k in g._ds.variables)
        ops = [["SV", GV[n], [3], [[0, 0]]] for n in sorted(now - before) if n in GV]
        if had and not already:
            ops += [["SD", GV[n], [4]] for n in ("node_x", "node_y", "node_z")]
        return ops
    elif kind == "chunk":
        g.chunk(n_node=arg, n_edge=arg, n_face=arg)
        names = [str(k) for k in g._ds.variables if str(k) in GV and (str(k) in g.coordinates | g.connectivity | g.descriptors)]
        return [["SV", GV[n], [5], [[0, 0]]] for n in names]
    elif kind == "inplace":
        # in-place numpy write through the array a public property returns
        v = getattr(g, arg).values
        flat = v.reshape(-1)
        flat[0] = flat[0] + 1
        return [["WB", GV[arg], [7]]]
    elif kind == "attrs":
        g.attrs[arg] = "edited"
        return [["SA", -1, 77, 1]]
    elif kind == "varattrs":
        g.node_lon.attrs[arg] = "edited"
        return [["SA", GV["node_lon"], 77, 1]]
    now = set(str(k) for k in g._ds.variables)
    return [["SV", GV[n], [6], [[0, 0]]] for n in sorted(now - before) if n in GV]


def heap_of_grid(g):
    return heap_of_ds(g._ds, lambda n: GV.get(n, 900))


def run_copy(ck, c):
    UX = ux()
    g = base_grid(c)
    cp = make_copy(g, c["path"])
    res = {"shares_ds": cp._ds is g._ds, "equal_at_copy": obs_grid(cp) == obs_grid(g)}
    cells, root, _ = heap_of_grid(g)
    mutated, observed = (g, cp) if c["side"] == 0 else (cp, g)
    before = obs_grid(observed)
    mbefore = obs_grid(mutated)
    try:
        ops = apply_mutator(mutated, tuple(c["mutator"]))
        res["raises"] = None
    except Exception as ex:
        ops = []
        res["raises"] = type(ex).__name__ + ": " + str(ex)[:80]
    if obs_grid(mutated) == mbefore:
        ops = []            # the call had no effect on its own grid (e.g. recomputation of identical centres)
    after = obs_grid(observed)
    res["changed"] = before != after
    res["diff"] = obs_diff(before[0], after[0])
    res["nops"] = len(ops)
    if not res["equal_at_copy"]:
        ck.fail("copy_differs_from_original", c, {"path": c["path"]})
    if res["changed"]:
        ck.fail("copy_not_independent", c, {"path": c["path"], "shares_ds": bool(res["shares_ds"])},
                detail="%s on the %s changed the other grid: %s" % (c["mutator"], "original" if c["side"] == 0 else "copy", res["diff"]))
    line = sx([cells, root, c["side"], ops])
    return res, ("copy", line)


def run_copyhist(ck, c):
    UX = ux()
    g = base_grid(c)
    cp = make_copy(g, c["path"])
    res = {"shares_ds": cp._ds is g._ds, "changed": False, "steps_done": 0}
    for side, mut in c["steps"]:
        mutated, observed = (g, cp) if side == 0 else (cp, g)
        before = obs_grid(observed)
        try:
            apply_mutator(mutated, tuple(mut))
        except Exception:
            continue
        res["steps_done"] += 1
        after = obs_grid(observed)
        if before != after:
            res["changed"] = True
            ck.fail("copy_not_independent", c, {"path": c["path"], "shares_ds": bool(res["shares_ds"])},
                    detail="step %s on side %d changed the other grid: %s" % (mut, side, obs_diff(before[0], after[0])))
            break
    return res, None


def cmp_copy(ck, c, res, mo):
    m_shares, m_changed, m_equal = mo
    if bool(m_shares) != bool(res["shares_ds"]):
        ck.corr_failures.append({"case": c, "what": "copy shares the dataset object", "impl": res["shares_ds"], "model": m_shares})
    if res["raises"] is None and bool(m_changed) != bool(res["changed"]):
        ck.corr_failures.append({"case": c, "what": "other side changed", "impl": res["changed"], "model": m_changed,
                                 "diff": res["diff"]})


# ---------------------------------------------------------------------------------------------
# experiment: sessions (grids, copies, exported datasets; mutations through any of them)

SESSION_EDITS = [("inplace", "node_lon"), ("inplace", "face_node_connectivity"), ("setdata", "node_lat"), ("addvar", None),
                 ("replacevar", "node_lon"), ("attrs", None), ("varattrs", "node_lon"), ("delvar", "node_lat")]


def run_session(ck, c):
    """roots = the grid, its copies, datasets returned by to_xarray('ugrid').  After every step every root
    other than the one a mutation goes through must report what it reported before"""
    g0 = base_grid(c)
    cells, root, _ = heap_of_grid(g0)
    roots = [("grid", g0)]
    res = {"raises": None, "changed": False, "impl_changed": []}
    msteps = []

    def obs_of(r):
        return obs_grid(r[1]) if r[0] == "grid" else obs_ds(r[1])
    for st in c["steps"]:
        k = st[1] % len(roots)
        before = [obs_of(r) for r in roots]
        addressed = None
        try:
            if st[0] == "copy":
                if roots[k][0] != "grid":
                    continue
                roots.append(("grid", roots[k][1].copy()))
                msteps.append(["C", k])
            elif st[0] == "export":
                if roots[k][0] != "grid":
                    continue
                roots.append(("ds", roots[k][1].to_xarray("ugrid")))
                msteps.append(["E", k])
            else:
                addressed = k
                if roots[k][0] == "grid":
                    mbefore = obs_of(roots[k])
                    ops = apply_mutator(roots[k][1], tuple(st[2]))
                    if obs_of(roots[k]) == mbefore:
                        ops = []
                else:
                    ed = tuple(SESSION_EDITS[st[3] % len(SESSION_EDITS)])
                    if ed[1] is not None and ed[1] not in roots[k][1]:
                        continue
                    ops = edit_dataset(roots[k][1], ed) or []
                msteps += [["O", k, o] for o in ops]
        except Exception as ex:
            res["raises"] = type(ex).__name__ + ": " + str(ex)[:80]
            break
        after = [obs_of(r) for r in roots[:len(before)]]
        bad = [j for j in range(len(before)) if j != addressed and before[j] != after[j]]
        res["impl_changed"].append(bad)
        if bad:
            res["changed"] = True
            j = bad[0]
            ck.fail("session_root_changed", c, {"step": st[0], "changed_root": roots[j][0],
                                                "through": None if addressed is None else roots[addressed][0]},
                    detail="step %s changed what root %d (%s) reports: %s" % (st, j, roots[j][0], obs_diff(
                        (before[j][0] if roots[j][0] == "grid" else before[j]), (after[j][0] if roots[j][0] == "grid" else after[j]))))
            break
    res["n_roots"] = len(roots)
    if res["changed"] or res["raises"]:
        return res, None
    return res, ("session", sx([cells, root, msteps]))


def cmp_session(ck, c, res, mo):
    outs, n_roots = mo
    if int(n_roots) != res["n_roots"]:
        ck.corr_failures.append({"case": c, "what": "number of live roots", "impl": res["n_roots"], "model": n_roots})
    # the model's steps are finer (one per elementary op); in both, no root other than the addressed one changes
    for o in outs:
        if len(o) > 1:
            ck.corr_failures.append({"case": c, "what": "model: a step changed more than the addressed root", "model": o})
            break


# ---------------------------------------------------------------------------------------------
# experiment: the Grid object's own containers (geometry caches, trees) after a copy

CONTAINERS = ["_gdf_cached_parameters", "_poly_collection_cached_parameters", "_line_collection_cached_parameters",
              "_ball_tree", "_kd_tree"]
OBS_KINDS = ["gdf", "gdf_geopandas", "poly", "line", "da_gdf", "da_poly", "ball_nodes", "ball_faces", "kd_nodes", "kd_faces"]


def observe_kind(g, kind, mc):
    """one cached public observation of a grid (default flags: cache=True)"""
    UX = ux()
    if kind == "gdf":
        return canon_geo(g.to_geodataframe(periodic_elements="exclude"))
    if kind == "gdf_geopandas":
        return canon_geo(g.to_geodataframe(periodic_elements="ignore", engine="geopandas"))
    if kind == "poly":
        return canon_geo(g.to_polycollection(periodic_elements="exclude"))
    if kind == "line":
        return canon_geo(g.to_linecollection(periodic_elements="ignore"))
    if kind in ("da_gdf", "da_poly"):
        da = UX.UxDataArray(np.arange(g.n_face, dtype=float) * 3 + 1, dims=["n_face"], uxgrid=g, name="w")
        return canon_geo(da.to_geodataframe(periodic_elements="exclude") if kind == "da_gdf" else da.to_polycollection(periodic_elements="exclude"))
    lon = np.array(mc["lon_u"][:4], dtype=float) / U + 0.37
    lat = np.clip(np.array(mc["lat_u"][:4], dtype=float) / U - 0.21, -89, 89)
    coords = "nodes" if kind.endswith("nodes") else "face centers"
    if kind.startswith("ball"):
        t = g.get_ball_tree(coordinates=coords, coordinate_system="spherical")
        d, i = t.query(np.column_stack([lon, lat]), k=1)
    else:
        t = g.get_kd_tree(coordinates=coords, coordinate_system="cartesian")
        x = np.cos(np.deg2rad(lat)) * np.cos(np.deg2rad(lon))
        y = np.cos(np.deg2rad(lat)) * np.sin(np.deg2rad(lon))
        z = np.sin(np.deg2rad(lat))
        d, i = t.query(np.column_stack([x, y, z]), k=1)
    return (kind, tuple(int(q) for q in np.asarray(i).ravel()), tuple(round(float(q), 9) for q in np.asarray(d).ravel()))


def geometry_mutator(g, mut, mc):
    """public mutators that change what the exports / trees of the mutated grid show"""
    X = xr()
    if mut == "set_node_lon":
        old = g.node_lon
        new = ((old.values + 7.0 + 180.0) % 360.0) - 180.0
        g.node_lon = X.DataArray(new, dims=old.dims, attrs=dict(old.attrs))
    elif mut == "set_node_lat":
        old = g.node_lat
        g.node_lat = X.DataArray(np.clip(old.values * 0.9 + 1.0, -89.5, 89.5), dims=old.dims, attrs=dict(old.attrs))
    elif mut == "set_face_lon":
        old = g.face_lon
        g.face_lon = X.DataArray(((old.values + 11.0 + 180.0) % 360.0) - 180.0, dims=old.dims, attrs=dict(old.attrs))
    elif mut == "centers_welzl":
        g.construct_face_centers(method="welzl")
    elif mut == "centers_avg":
        g.construct_face_centers(method="cartesian average")
    elif mut == "normalize":
        g.normalize_cartesian_coordinates()
    elif mut == "chunk":
        g.chunk(n_node=2, n_edge=2, n_face=2)
    else:
        raise ValueError(mut)


def run_copycache(ck, c):
    """copy; mutate one side through the public API; observe that side with caching; then observe the
    untouched side with the same arguments: it must report what a fresh grid of its own data reports"""
    UX = ux()
    mc = c["mesh"]
    g = base_grid(c)
    res = {"raises": None, "changed": False, "shared": []}
    for k in c["pre_obs"]:
        try:
            observe_kind(g, k, mc)
        except Exception:
            pass
    cp = make_copy(g, c["path"])
    res["shares_ds"] = cp._ds is g._ds
    res["same_grid_object"] = cp is g
    res["shared"] = [k for k in CONTAINERS if getattr(g, k, None) is not None and getattr(cp, k, None) is getattr(g, k)]
    res["shared_other_attributes"] = sorted(k for k, v in vars(g).items() if k not in CONTAINERS and k != "_ds"
                                            and isinstance(v, (dict, list, np.ndarray)) and vars(cp).get(k) is v)
    a, b = (g, cp) if c["side"] == 0 else (cp, g)
    try:
        geometry_mutator(a, c["mutator"], mc)
    except Exception as ex:
        res["raises"] = type(ex).__name__ + ": " + str(ex)[:80]
        return res, None
    ref = base_grid(c)            # the untouched side's data are the original data
    for k in c["obs"]:
        try:
            observe_kind(a, k, mc)
        except Exception:
            continue
        try:
            ob, orf = observe_kind(b, k, mc), observe_kind(ref, k, mc)
        except Exception:
            continue
        res["compared"] = res.get("compared", 0) + 1
        if ob != orf:
            res["changed"] = True
            ck.fail("copy_not_independent", c,
                    {"path": c["path"], "shares_ds": bool(res["shares_ds"]), "via": "export:" + k,
                     "shared_containers": bool(res["shared"])},
                    detail="after %s on the %s and its %s export, the same export of the untouched grid differs from a fresh "
                           "grid's (shared containers: %s)" % (c["mutator"], "original" if c["side"] == 0 else "copy", k, res["shared"]))
            break
    # model (theorem C19_copy_containers): every helper container of the copy is a new object
    if res["shared"]:
        ck.corr_failures.append({"case": strip(c), "what": "Grid containers shared between original and copy", "impl": res["shared"],
                                 "model": []})
    return res, None


def run_dageo(ck, c):
    """data-level exports under caller edits: after any earlier cached export, a UxDataArray export (any
    cache flag), and the caller's edit of it, the Grid and other variables export what they exported before"""
    UX = ux()
    g = base_grid(c)
    res = {"raises": None, "changed": False}
    kw = {"periodic_elements": c["periodic"]}
    if c["export"] == "to_geodataframe":
        kw["engine"] = c["engine"]
    try:
        da = UX.UxDataArray(np.arange(g.n_face, dtype=float) + 5, dims=["n_face"], uxgrid=g, name="a")
        db = UX.UxDataArray(np.arange(g.n_face, dtype=float) * 2, dims=["n_face"], uxgrid=g, name="b")
        ref = base_grid(c)
        rb = UX.UxDataArray(np.arange(ref.n_face, dtype=float) * 2, dims=["n_face"], uxgrid=ref, name="b")
        want_grid = canon_geo(getattr(ref, c["export"])(**kw))
        want_b = canon_geo(getattr(rb, c["export"])(**kw))
        r0 = None
        if c["before"] == "grid":
            r0 = getattr(g, c["export"])(**kw)
        elif c["before"] == "da":
            getattr(db, c["export"])(**kw)
        snap0 = None if r0 is None else canon_geo(r0)
        e1 = getattr(da, c["export"])(cache=c["cache"], override=c["override"], **kw)
        if c["edit"] != "none":
            edit_geo(e1, c["edit"])
        why = None
        if r0 is not None and canon_geo(r0) != snap0:
            why = "earlier_result_altered"
        elif canon_geo(getattr(g, c["export"])(**kw)) != want_grid:
            why = "grid_export"
        elif canon_geo(getattr(db, c["export"])(**kw)) != want_b:
            why = "other_variable_export"
    except Exception as ex:
        res["raises"] = type(ex).__name__ + ": " + str(ex)[:100]
        return res, None
    if why:
        res["changed"] = True
        ck.fail("export_edit_changes_grid", c,
                {"export": "UxDataArray." + c["export"], "what": why, "cache": bool(c["cache"])},
                detail="after UxDataArray.%s(cache=%s) and the caller's edit (%s): %s differs from a fresh grid's"
                       % (c["export"], c["cache"], c["edit"], why))
    return res, None


# ---------------------------------------------------------------------------------------------
# experiment: dataset exports under caller edits

def edit_dataset(out, edit):
    """apply one caller edit to an exported dataset; returns model ops"""
    X = xr()
    kind, name = edit
    tok = GV.get(name, INTOK.get(name, 900))
    if kind == "inplace":
        v = out[name].values
        if v.size == 0 or not v.flags.writeable:
            return None
        flat = v.reshape(-1)
        flat[0] = flat[0] + 1 if flat.dtype.kind in "fiu" else flat[0]
        return [["WB", tok, [8]]]
    if kind == "setdata":
        out[name].data = np.asarray(out[name].values) * 0
        return [["SD", tok, [8]]]
    if kind == "addvar":
        out["c19_new"] = X.DataArray(np.zeros(3), dims=["c19_dim"])
        return [["SV", 901, [8], [[0, 0]]]]
    if kind == "replacevar":
        old = out[name]
        out[name] = X.DataArray(np.asarray(old.values) * 0, dims=old.dims)
        return [["SV", tok, [8], [[0, 0]]]]
    if kind == "attrs":
        out.attrs["c19"] = "edited"
        return [["SA", -1, 77, 1]]
    if kind == "varattrs":
        out[name].attrs["c19"] = "edited"
        return [["SA", tok, 77, 1]]
    if kind == "delvar":
        del out[name]
        return [["DV", tok]]
    raise ValueError(kind)


def run_export(ck, c):
    g = base_grid(c)
    fmt = c["format"]
    res = {"raises": None}
    try:
        for _ in range(c["ncalls"] - 1):
            g.to_xarray(fmt)
        cells, root, _ = heap_of_grid(g)
        pre_has_topology = "grid_topology" in g._ds
        out = g.to_xarray(fmt)
        if fmt != "ugrid":
            # the table exports derive face_areas etc. on the grid first; the model is given that state
            cells, root, _ = heap_of_grid(g)
    except Exception as ex:
        res["raises"] = type(ex).__name__ + ": " + str(ex)[:80]
        return res, None
    res["is_ds"] = out is g._ds
    res["shared_vars"] = any(out.variables[k] is g._ds.variables[kk] for k in out.variables for kk in g._ds.variables)
    al = set()
    for k in out.variables:
        for kk in g._ds.variables:
            a, b = out.variables[k].values, g._ds.variables[kk].values
            if a.size and b.size and a.dtype.kind != "U" and np.shares_memory(a, b):
                al.add((GV.get(str(k), INTOK.get(str(k), 900)), GV.get(str(kk), 900)))
    res["alias"] = sorted(al)
    before = obs_grid(g)
    ops = edit_dataset(out, tuple(c["edit"]))
    if ops is None:
        return res, None
    after = obs_grid(g)
    res["changed"] = before != after
    res["diff"] = obs_diff(before[0], after[0])
    if res["changed"]:
        ck.fail("export_edit_changes_grid", c,
                {"export": "to_xarray:" + fmt, "returns_internal_dataset": bool(res["is_ds"]),
                 "shares_variable_objects": bool(res["shared_vars"]),
                 "shares_buffers": bool(res["alias"]), "edit": c["edit"][0],
                 "edited": c["edit"][1] if fmt != "ugrid" else "*"},
                detail="caller edit %s of the exported dataset changed what the Grid reports: %s" % (c["edit"], res["diff"]))
    if fmt == "ugrid":
        # the model is given the heap as it is before the last export call
        line = sx([cells, root, 1, ops])
        return res, ("export_ugrid", line)
    line = sx([cells, root, FMT_ID["export_" + fmt], ops])
    return res, ("export_table", line)


def cmp_export(ck, c, res, mo):
    if c["format"] == "ugrid":
        m_is, m_changed, m_sv, m_sb = mo
        for what, a, b in (("returned dataset is the grid's", res["is_ds"], m_is), ("grid changed by the edit", res["changed"], m_changed),
                           ("Variable objects shared", res["shared_vars"], m_sv), ("buffers shared", bool(res["alias"]), m_sb)):
            if bool(a) != bool(b):
                ck.corr_failures.append({"case": c, "what": what, "impl": a, "model": b, "diff": res.get("diff")})
    else:
        m_is, m_changed, m_alias = mo
        if not res["alias"] and not res["changed"] and not res["is_ds"]:
            return          # a fully fresh export: the repaired behaviour, nothing shared
        if bool(m_is) != bool(res["is_ds"]) or bool(m_changed) != bool(res["changed"]):
            ck.corr_failures.append({"case": c, "what": "export edit effect", "impl": [res["is_ds"], res["changed"]],
                                     "model": [m_is, m_changed], "diff": res.get("diff")})
        if sorted(tuple(p) for p in m_alias) != [tuple(p) for p in res["alias"]]:
            ck.corr_failures.append({"case": c, "what": "export alias table", "impl": res["alias"], "model": m_alias})


# ---------------------------------------------------------------------------------------------
# experiment: geometry exports under caller edits

def canon_geo(obj):
    t = type(obj).__name__
    if t == "GeoDataFrame":
        cols = [str(x) for x in obj.columns]
        geo = obj["geometry"]
        try:
            b = np.asarray(geo.bounds if hasattr(geo, "bounds") else geo.values.bounds, dtype=float)
        except Exception:
            b = np.asarray(obj["geometry"].array.bounds, dtype=float)
        return (t, tuple(cols), len(obj), arr_sig(np.round(b, 9)))
    if t == "LineCollection":
        segs = obj.get_segments()
        return (t, len(segs), hashlib.sha1(b"".join(np.ascontiguousarray(s).tobytes() for s in segs)).hexdigest(),
                tuple(np.round(np.asarray(obj.get_linewidth(), dtype=float), 6).tolist()))
    if t == "PolyCollection":
        ps = obj.get_paths()
        arr = obj.get_array()
        return (t, len(ps), hashlib.sha1(b"".join(np.ascontiguousarray(p.vertices).tobytes() for p in ps)).hexdigest(),
                None if arr is None else arr_sig(arr))
    return (t, repr(obj))


def call_geo(g, c):
    kw = {"periodic_elements": c["periodic"]}
    if c["export"] == "to_geodataframe":
        return g.to_geodataframe(engine=c["engine"], **kw)
    if c["export"] == "to_linecollection":
        return g.to_linecollection(**kw)
    return g.to_polycollection(**kw)


def edit_geo(obj, edit):
    t = type(obj).__name__
    if t == "GeoDataFrame":
        if edit == "addcol":
            obj["c19"] = np.arange(len(obj))
        else:
            obj.drop(obj.index[:1], inplace=True)
    elif t == "LineCollection":
        if edit == "addcol":
            obj.set_linewidth(7.5)
        else:
            obj.set_segments(obj.get_segments()[1:])
    else:
        if edit == "addcol":
            obj.set_array(np.arange(len(obj.get_paths()), dtype=float))
        else:
            obj.set_verts([p.vertices for p in obj.get_paths()[1:]])


def run_geo_indices(ck, c):
    """the index table returned with return_indices=True: the caller reorders it in place; the Grid must
    still report the table, and attach data through it, as a fresh grid does"""
    UX = ux()
    g = base_grid(c)
    ref = base_grid(c)
    res = {"raises": None}
    per = c["periodic"]
    try:
        want_idx = [int(x) for x in ref.to_polycollection(periodic_elements=per, return_indices=True)[1]]
        rda = UX.UxDataArray(np.arange(ref.n_face, dtype=float) * 2 + 1, dims=["n_face"], uxgrid=ref, name="w")
        want_dat = [float(x) for x in rda.to_polycollection(periodic_elements=per).get_array()]
        pc, idx = g.to_polycollection(periodic_elements=per, return_indices=True)
        if c.get("call_no", 1) == 2:
            # the table handed out on a cache hit
            pc, idx = g.to_polycollection(periodic_elements=per, return_indices=True)
        if len(idx) < 2 or len(set(int(x) for x in idx)) < 2:
            return res, None
        if isinstance(idx, list):
            idx.reverse()
        else:
            idx[:] = np.asarray(idx)[::-1].copy()
        pc2, idx2 = g.to_polycollection(periodic_elements=per, return_indices=True)
        da = UX.UxDataArray(np.arange(g.n_face, dtype=float) * 2 + 1, dims=["n_face"], uxgrid=g, name="w")
        dat = [float(x) for x in da.to_polycollection(periodic_elements=per).get_array()]
        res["same_object"] = idx2 is idx
        res["changed"] = [int(x) for x in idx2] != want_idx or dat != want_dat
    except Exception as ex:
        res["raises"] = type(ex).__name__ + ": " + str(ex)[:100]
        return res, None
    if res["changed"]:
        ck.fail("export_edit_changes_grid", c, {"export": "to_polycollection:indices", "returns_cached_object": bool(res["same_object"])},
                detail="after the caller reordered the returned index table, the Grid reports another table / attaches data to other polygons")
    return res, ("export_geo", sx([1, [["B", 1, 2, 3]], 0]))      # handed out as a copy (both return sites)


def run_geo(ck, c):
    if c["export"] == "to_polycollection_indices":
        return run_geo_indices(ck, c)
    g = base_grid(c)
    res = {"raises": None}
    try:
        e1 = call_geo(g, c)
        snap = canon_geo(e1)
        gobs = obs_grid(g)
        edit_geo(e1, c["edit"])
        if canon_geo(e1) == snap:
            return res, None        # the edit had no effect on the exported object itself (e.g. empty frame)
        e2 = call_geo(g, c)
        res["same_object"] = e2 is e1
        res["changed"] = canon_geo(e2) != snap or obs_grid(g) != gobs
    except Exception as ex:
        res["raises"] = type(ex).__name__ + ": " + str(ex)[:100]
        return res, None
    if res["changed"]:
        ck.fail("export_edit_changes_grid", c,
                {"export": c["export"], "returns_cached_object": bool(res["same_object"])},
                detail="after the caller's edit (%s) the next %s call reports other geometry" % (c["edit"], c["export"]))
    # Grid.to_geodataframe hands out the cached frame (variant 0; a copying repair = variant 1 is
    # accepted too); the two matplotlib exports return deep copies
    line = sx(["@V" if c["export"] == "to_geodataframe" else 1, [["B", 1, 2, 3]], 0])
    return res, ("export_geo", line)


def cmp_geo(ck, c, res, mo):
    if bool(mo[0]) != bool(res["same_object"]) or bool(mo[0]) != bool(res["changed"]):
        ck.corr_failures.append({"case": c, "what": "geometry export returns the cached object / edit visible",
                                 "impl": [res["same_object"], res["changed"]], "model": mo})


# ---------------------------------------------------------------------------------------------
# generation

def small_mesh(rng, uniform=None, partial=None, tri=False):
    for _ in range(50):
        if tri:
            m = meshgen.gen_mesh(rng, max_ops=rng.choice([0, 1, 2]), seeds=["tetra", "octa", "icosa"], allow_dual=False,
                                 partial=partial)
            if all(len(f) == 3 for f in m.faces) and len(m.faces) >= 2:
                return m
            m = meshgen.gen_mesh(rng, max_ops=0, seeds=["tetra", "octa", "icosa"], allow_dual=False, partial=partial)
            return m
        m = meshgen.gen_mesh(rng, max_ops=rng.choice([0, 1, 2, 4]), partial=partial)
        if len(m.faces) > 40:
            continue
        if uniform:
            sizes = {}
            for f in m.faces:
                sizes[len(f)] = sizes.get(len(f), 0) + 1
            s = max(sizes, key=lambda k: sizes[k])
            m = meshgen.Mesh(m.nodes, [f for f in m.faces if len(f) == s], False, m.name + ":uniform")
            meshgen.compact(m)
        return m
    return m


def gen_cases(ck):
    rng = ck.rng
    quick = ck.tier == "quick"
    cases = []
    cdir = os.path.join(common.VERIF, "corpus", "C19")
    if os.path.isdir(cdir):
        for fn in sorted(os.listdir(cdir)):
            cases.append(json.load(open(os.path.join(cdir, fn))))
    # --- from_topology: full grid of branch-deciding parameters, meshes vary
    reps = 1 if quick else 90
    for _ in range(reps):
        for fv in (None, F, -1, 999999):
            for dtype in ("int64", "int32"):
                if fv == F and dtype == "int32":
                    continue
                for si in (0, 1):
                    for coord_kind, conn_kind in (("array", "array"), ("list", "array"), ("array", "list")):
                        if conn_kind == "list" and rng.random() < 0.6:
                            continue
                        m = small_mesh(rng, uniform=(fv is None))
                        lon360 = rng.random() < 0.4
                        cases.append({"kind": "topology", "mesh": mesh_case(m, lon360), "fv": fv, "dtype": dtype, "si": si,
                                      "coord_kind": coord_kind, "conn_kind": conn_kind, "lon360": lon360,
                                      "edge_conn": rng.random() < 0.4, "xyz": rng.random() < 0.3,
                                      "via": rng.choice(["from_topology", "from_topology", "open_grid"])})
    # no padding present although a fill value is declared; start index 0: in-place branch that changes nothing
    for _ in range(2 if quick else 40):
        m = small_mesh(rng, uniform=True)
        cases.append({"kind": "topology", "mesh": mesh_case(m), "fv": rng.choice([-1, F]), "dtype": "int64", "si": 0,
                      "coord_kind": "array", "conn_kind": "array", "lon360": False, "edge_conn": False, "xyz": False,
                      "via": "from_topology"})
    # --- UGRID datasets
    for _ in range(reps):
        for dtype in ("int64", "int32"):
            for fill in (F, -1, None):
                if fill == F and dtype == "int32":
                    continue
                for si_attr in (0, 1, None):
                    m = small_mesh(rng, uniform=(fill is None))
                    lon360 = rng.random() < 0.3
                    si = si_attr if si_attr is not None else rng.choice([0, 1])
                    if si_attr is None and fill is not None and any(len(f) != len(m.faces[0]) for f in m.faces):
                        # new_conn.min() is the fill value here (overflowing subtraction): keep one such case per tier
                        if rng.random() < 0.7:
                            si_attr = si
                    for dialect in (("mesh2", "conventional", "mixed") if (quick or rng.random() < 0.4) else (rng.choice(["mesh2", "conventional", "mixed"]),)):
                        cases.append({"kind": "ugrid", "mesh": mesh_case(m, lon360), "dtype": dtype, "fill": fill, "si": si,
                                      "si_attr": si_attr, "lon360": lon360, "edge_conn": rng.random() < 0.4,
                                      "dialect": dialect, "via": rng.choice(["from_dataset", "open_grid"])})
    # --- adoption
    for _ in range(2 if quick else 60):
        for via in ("Grid", "from_dataset"):
            for lon360 in (False, True):
                m = small_mesh(rng)
                cases.append({"kind": "adopt", "mesh": mesh_case(m, lon360), "via": via, "lon360": lon360})
    # --- table readers
    for _ in range(1 if quick else 60):
        for dtype in ("int32", "int64"):
            for fmt in ("mpas", "mpas_dual", "exodus", "scrip", "esmf", "icon"):
                m = small_mesh(rng, tri=(fmt == "icon"), partial=False if fmt == "mpas_dual" else None)
                c = {"kind": "reader", "format": fmt, "mesh": mesh_case(m), "dtype": dtype,
                     "via": rng.choice(["from_dataset", "open_grid"])}
                if fmt.startswith("mpas"):
                    c.update({"xyz": rng.random() < 0.8, "cell_xyz": rng.random() < 0.5, "edges": rng.random() < 0.5})
                if fmt == "exodus":
                    c["variant"] = rng.choice(["coord", "coordx"])
                if fmt in ("scrip", "esmf"):
                    c["lon360"] = rng.random() < 0.5
                    if fmt == "esmf":
                        c["mesh"] = mesh_case(m, c["lon360"] and rng.random() < 0.5)
                        c["nconn_dtype"] = rng.choice(["int8", "int64"])
                        c["element_area"] = rng.random() < 0.7
                cases.append(c)
        for lon360 in (False, True):
            cases.append({"kind": "reader", "format": "geos", "n": rng.choice([1, 2, 3]), "lon360": lon360,
                          "via": "from_dataset"})
    for _ in range(1 if quick else 20):
        for container in ("list", "tuple", "ndarray"):
            m = small_mesh(rng)
            size = max(set(len(f) for f in m.faces), key=lambda s: sum(1 for f in m.faces if len(f) == s))
            cases.append({"kind": "vertices", "mesh": mesh_case(m), "container": container, "size": size,
                          "via": rng.choice(["from_face_vertices", "open_grid"])})
    # --- copies under mutation: every mutator on either side
    muts = [("lazy", n) for n in LAZY] + [("setter", n) for n in SETTERS] + \
           [("centers", "cartesian average"), ("centers", "welzl"), ("normalize", None), ("chunk", 2),
            ("attrs", "c19"), ("varattrs", "c19"), ("inplace", "node_lon"), ("inplace", "node_lat"),
            ("inplace", "face_node_connectivity")]
    if quick:
        muts = [mu for mu in muts if mu[1] not in ("hole_edge_indices", "edge_node_distances")]
    for mu in muts * (1 if quick else 15):
        for side in (0, 1):
            if quick and side == 1 and rng.random() < 0.5:
                continue
            m = small_mesh(rng)
            pre = rng.sample(["n_nodes_per_face", "edge_node_connectivity", "node_x", "face_lon"], rng.randrange(0, 3))
            path = rng.choice(DEEP_COPY_ROUTES)
            cases.append({"kind": "copy", "mesh": mesh_case(m), "mutator": list(mu), "side": side, "pre": pre,
                          "xyz": mu[0] == "normalize" or rng.random() < 0.2, "path": path})
    # --- every deep copy route of a Grid / of a UxDataArray holding it, mutations on either side
    for path in DEEP_COPY_ROUTES:
        for mu in [("setter", "node_lon"), ("lazy", "edge_node_connectivity"), ("centers", "cartesian average"), ("chunk", 2)]:
            for side in (0, 1):
                if quick and rng.random() < 0.4:
                    continue
                m = small_mesh(rng)
                cases.append({"kind": "copy", "mesh": mesh_case(m), "mutator": list(mu), "side": side, "pre": [],
                              "xyz": False, "path": path})
    # --- interleaved histories on both sides of a copy (clause evaluated after every step)
    for _ in range(6 if quick else 500):
        m = small_mesh(rng)
        steps = [[rng.randrange(2), list(rng.choice(muts))] for _ in range(rng.randrange(2, 6))]
        cases.append({"kind": "copyhist", "mesh": mesh_case(m), "steps": steps, "pre": [], "xyz": rng.random() < 0.4,
                      "path": rng.choice(DEEP_COPY_ROUTES)})
    # --- sessions: copies, exports and mutations through any live root
    smuts = [("lazy", n) for n in LAZY[:8]] + [("setter", n) for n in SETTERS] + \
            [("centers", "cartesian average"), ("normalize", None), ("chunk", 2), ("attrs", "c19"), ("varattrs", "c19"),
             ("inplace", "node_lon"), ("inplace", "face_node_connectivity")]
    for _ in range(12 if quick else 400):
        m = small_mesh(rng)
        steps = []
        for _i in range(rng.randrange(3, 9)):
            kind = rng.choice(["copy", "export", "op", "op", "op"])
            steps.append([kind, rng.randrange(6), list(rng.choice(smuts)), rng.randrange(8)])
        cases.append({"kind": "session", "mesh": mesh_case(m), "steps": steps, "pre": [], "xyz": rng.random() < 0.3})
    # --- the Grid's own containers: copy, mutate one side, export both sides with identical arguments
    gmuts = ["set_node_lon", "set_node_lat", "set_face_lon", "centers_welzl", "centers_avg", "normalize", "chunk"]
    for mu in gmuts * (1 if quick else 8):
        for side in (0, 1):
            m = small_mesh(rng)
            pre_obs = rng.sample(OBS_KINDS, rng.randrange(0, 5))
            obs = rng.sample(OBS_KINDS, 5) if quick else list(OBS_KINDS)
            if mu in ("set_node_lon", "set_node_lat"):
                obs = [k for k in OBS_KINDS if not k.endswith("faces")][:6] if quick else obs
            cases.append({"kind": "copycache", "mesh": mesh_case(m), "mutator": mu, "side": side, "pre": [],
                          "pre_obs": pre_obs, "obs": obs, "xyz": mu == "normalize" or rng.random() < 0.2,
                          "path": rng.choice(DEEP_COPY_ROUTES)})
    # --- data-level exports under caller edits, after earlier cached exports, with every flag
    for export, engines in (("to_geodataframe", ["spatialpandas", "geopandas"]), ("to_polycollection", [None])):
        for engine in engines:
            for pre in ("none", "grid", "da"):
                for cache in (True, False):
                    for edit in ("none", "addcol", "droprows"):
                        if quick and rng.random() < 0.4:
                            continue
                        for _ in range(1 if quick else 4):
                            m = small_mesh(rng)
                            cases.append({"kind": "dageo", "export": export, "engine": engine, "before": pre, "cache": cache,
                                          "override": rng.random() < 0.15, "edit": edit,
                                          "periodic": rng.choice(["exclude", "ignore", "split"]), "mesh": mesh_case(m)})
    # --- dataset exports under edits
    edits = [("inplace", "node_lon"), ("inplace", "face_node_connectivity"), ("setdata", "node_lat"), ("addvar", None),
             ("replacevar", "node_lon"), ("attrs", None), ("varattrs", "node_lon"), ("delvar", "node_lat")]
    for ncalls in (1, 2) * (1 if quick else 12):
        for ed in edits:
            m = small_mesh(rng)
            cases.append({"kind": "export", "format": "ugrid", "mesh": mesh_case(m), "ncalls": ncalls, "edit": list(ed),
                          "pre": rng.sample(["n_nodes_per_face", "face_areas", "node_x"], rng.randrange(0, 3))})
    # Cartesian-only grids whose very first use is the export
    for fmt, eds in (("ugrid", [("inplace", "node_lon"), ("inplace", "node_lat"), ("inplace", "node_x"), ("setdata", "node_lon"),
                               ("varattrs", "node_lon"), ("attrs", None), ("inplace", "face_node_connectivity")]),
                     ("exodus", [("inplace", "coord"), ("inplace", "connect1")]),
                     ("scrip", [("inplace", "grid_corner_lon"), ("inplace", "grid_area")])):
        for ed in eds * (1 if quick else 4):
            m = small_mesh(rng, uniform=True)
            cases.append({"kind": "export", "format": fmt, "mesh": mesh_case(m), "ncalls": 1, "edit": list(ed), "pre": [],
                          "cartesian": True})
    for ed in [("inplace", "grid_area"), ("inplace", "grid_corner_lon"), ("attrs", None), ("addvar", None),
               ("delvar", "grid_area"), ("setdata", "grid_area")] * (1 if quick else 4):
        m = small_mesh(rng, uniform=True)
        cases.append({"kind": "export", "format": "scrip", "mesh": mesh_case(m), "ncalls": 1, "edit": list(ed),
                      "pre": ["face_areas"] if rng.random() < 0.5 else []})
    for ed in [("inplace", "coord"), ("inplace", "connect1"), ("attrs", None), ("addvar", None)] * (1 if quick else 4):
        m = small_mesh(rng, uniform=True)
        cases.append({"kind": "export", "format": "exodus", "mesh": mesh_case(m), "ncalls": 1, "edit": list(ed),
                      "pre": ["node_x"] if rng.random() < 0.5 else []})
    # --- the index table handed out with return_indices=True
    for periodic in ("split", "exclude"):
        for _ in range(2 if quick else 20):
            m = small_mesh(rng)
            for call_no in (1, 2):
                cases.append({"kind": "geo", "export": "to_polycollection_indices", "engine": None, "edit": "reorder",
                              "periodic": periodic, "call_no": call_no, "mesh": mesh_case(m)})
    # --- geometry exports
    for export, engines in (("to_geodataframe", ["spatialpandas", "geopandas"]), ("to_linecollection", [None]),
                            ("to_polycollection", [None])):
        for engine in engines:
            for edit in ("addcol", "droprows"):
                for periodic in (["exclude"] if quick else ["exclude", "ignore", "split"] * 3):
                    m = small_mesh(rng)
                    cases.append({"kind": "geo", "export": export, "engine": engine, "edit": edit, "periodic": periodic,
                                  "mesh": mesh_case(m)})
    return cases


def coq_list(xs, f=str):
    return "[" + "; ".join(f(x) for x in xs) + "]"


def coq_z(x):
    return "FILL" if x == FILL else ("(%d)" % x)


def coq_cell(c):
    if c[0] == "B":
        return "C19Buf " + coq_list(c[1:], coq_z)
    if c[0] == "D":
        return "C19Dict " + coq_list(c[1:], lambda p: "(%s, %s)" % (coq_z(p[0]), coq_z(p[1])))
    if c[0] == "V":
        return "C19Var %d%%nat %d%%nat" % (c[1], c[2])
    return "C19Ds %s %d%%nat" % (coq_list(c[2:], lambda p: "(%s, %d%%nat)" % (coq_z(p[0]), p[1])), c[1])


def extraction_audit(ck, results):
    """the same model evaluated inside Coq (vm_compute) on a sample of the topology cases: the
    extracted OCaml answers must coincide"""
    import re
    sample = [(c, mreq[1]) for c, res, mreq in results if mreq and mreq[0] == "topology"
              and sum(len(f) for f in c["mesh"]["faces"]) < 60][:8]
    if not sample:
        return 0
    exprs = []
    for c, line in sample:
        v = common.parse_sx(line)
        cells, coords, conns, dts, fv, si, inputs = v
        h = coq_list([["B"] + (x[1:] if isinstance(x, list) else []) for x in cells], coq_cell)
        co = coq_list(coords, lambda t: "(%s, (%s, %d%%nat))" % (coq_z(t[0]), "true" if t[1] else "false", t[2]))
        cn = coq_list(conns, lambda t: "(%s, %d%%nat)" % (coq_z(t[0]), t[1]))
        inp = coq_list(inputs, lambda t: "(%s, %d%%nat)" % (coq_z(t[0]), t[1]))
        fvs = "None" if fv is None else "(Some %s)" % coq_z(fv)
        exprs.append("Eval vm_compute in (let h := %s in let '(h', g) := c19_from_topology h %s %s %s %s %s in "
                     "(c19_modified h h' %s, c19_alias_table h' g %s))."
                     % (h, co, cn, "true" if dts else "false", fvs, coq_z(si), inp, inp))
    rc, out = ck.audit_vm(exprs, "From Verif Require Import Base C19.\nOpen Scope Z_scope.")
    if rc != 0:
        ck.proof["errors"].append("in-kernel audit failed: " + out[-800:])
        return 0
    blocks = re.split(r"(?m)^\s*= ", out)[1:]
    ml = ck.run_model("topology", [l for _, l in sample])
    n = 0
    for b, mo in zip(blocks, ml):
        body = b.split("\n     :")[0]
        nums = re.findall(r"-?\d+", body)
        flat = [str(x) for x in mo[0]] + [str(x) for p in mo[1] for x in p]
        if nums != flat:
            ck.proof["errors"].append("extraction audit mismatch: kernel %s vs extracted %s" % (nums[:30], flat[:30]))
        n += 1
    return n


RUNNERS = {"session": run_session, "copycache": run_copycache, "dageo": run_dageo, "topology": run_topology, "ugrid": run_ugrid, "adopt": run_adopt, "reader": run_reader,
           "vertices": run_vertices, "copy": run_copy, "copyhist": run_copyhist, "export": run_export, "geo": run_geo}


def prep_case(c):
    return c


def compare(ck, c, res, mo):
    k = c["kind"]
    if isinstance(mo, list) and mo and mo[0] == "ERR":
        ck.corr_failures.append({"case": c, "model": mo})
        return
    if k == "topology":
        cmp_topology(ck, c, res, mo)
    elif k in ("ugrid", "adopt"):
        cmp_dataset(ck, c, res, mo)
    elif k in ("reader", "vertices"):
        cmp_dataset(ck, c, res, mo, check_values=False, check_vars=True)
    elif k == "copy":
        cmp_copy(ck, c, res, mo)
    elif k == "export":
        cmp_export(ck, c, res, mo)
    elif k == "geo":
        cmp_geo(ck, c, res, mo)
    elif k == "session":
        cmp_session(ck, c, res, mo)


def strip(c):
    return {k: v for k, v in c.items() if not k.startswith("_")}


def main(ck):
    if os.environ.get("C19_DEBUG"):
        orig = ck.fail
        seen = {}

        def fail(clause, case, info=None, **kw):
            k = (clause, json.dumps(info, sort_keys=True))
            seen[k] = seen.get(k, 0) + 1
            if seen[k] == 1:
                print("FAIL", clause, info, {a: b for a, b in case.items() if a not in ("mesh", "_conn_before")}, str(kw.get("detail"))[:200])
            return orig(clause, case, info, **kw)
        ck.fail = fail
    ck.check_props()
    ok = ck.build_driver()
    cases = gen_cases(ck)
    ck.cov["rule"] = ("corpus + every branch-deciding combination (fill None/standard/other x dtype intp/int32 x start index "
                      "x container ndarray/list x lon range) for from_topology/open_grid(dict), UGRID datasets (dtype x "
                      "_FillValue x start_index attr present/absent), Grid(ds)/from_dataset(source_grid_spec), all seven "
                      "dataset formats incl. dialects, from_face_vertices (list/tuple/ndarray); every listed mutator on "
                      "either side of Grid.copy / UxDataArray.copy / copy.deepcopy; 8 caller edits x to_xarray(ugrid, 1st "
                      "and 2nd call), scrip, exodus; 2 edits x to_geodataframe (both engines) / to_linecollection / "
                      "to_polycollection; meshes: sphere tilings grown from 9 polyhedra, partial, renumbered, rotated; "
                      "non-trivial = every case; distinct = distinct case parameters")
    kinds = {}
    pending = {}
    results = []
    for idx, c in enumerate(cases):
        prep_case(c)
        key = json.dumps(strip(c), sort_keys=True, default=str)
        ck.note_case(key, True)
        kinds[c["kind"]] = kinds.get(c["kind"], 0) + 1
        try:
            res, mreq = RUNNERS[c["kind"]](ck, c)
        except Exception as ex:
            import traceback
            ck.proof["errors"].append("harness error on case %s: %s" % (strip(c), traceback.format_exc()[-800:]))
            continue
        results.append((c, res, mreq))
        if mreq is not None:
            pending.setdefault(mreq[0], []).append((len(results) - 1, mreq[1]))
        if len(ck.cov["samples"]) < 4 and c["kind"] in ("topology", "copy", "export", "ugrid") and idx % 7 == 0:
            ck.sample({"case": {k: v for k, v in strip(c).items() if k != "mesh"}, "n_face": len(c.get("mesh", {}).get("faces", [])),
                       "impl": {k: v for k, v in res.items() if k in ("modified", "alias", "changed", "shares_ds", "is_ds", "raises")}})
    alias_hist = {}
    matched = {}
    if ok:
        for cmd, lst in pending.items():
            variants = [0, 1] if any("@V" in l for _, l in lst) else [0]
            outs = {v: ck.run_model(cmd, [l.replace("@V", str(v)) for _, l in lst]) for v in variants}
            for j, (ri, _) in enumerate(lst):
                c, res, _ = results[ri]
                fails = {}
                for v in variants:
                    keep = ck.corr_failures
                    ck.corr_failures = []
                    compare(ck, strip(c), res, outs[v][j])
                    fails[v] = ck.corr_failures
                    ck.corr_failures = keep
                # the code as written is variant 0; a repaired tree (variant 1 of the model, for which the
                # clause is proved) is accepted as well and recorded
                good = [v for v in variants if not fails[v]]
                if good:
                    tag = "both" if len(good) == 2 else ("as_written" if good[0] == 0 else "repaired")
                    matched.setdefault(c["kind"], {}).setdefault(tag, 0)
                    matched[c["kind"]][tag] += 1
                else:
                    ck.corr_failures += fails[0]
    audit_n = 0
    if ok:
        audit_n = extraction_audit(ck, results)
    if ck.tier == "thorough":
        rc, out = common.sh("timeout 900 coqchk -silent -o -Q . Verif Verif.Props.C19_props", cwd=common.COQ, timeout=1000)
        ck.extra["coqchk"] = "ok" if rc == 0 and "Axioms: <none>" in out else out[-400:]
        if rc != 0:
            ck.proof["errors"].append("coqchk failed: " + out[-600:])
    for c, res, _ in results:
        for p in res.get("alias", []) or []:
            alias_hist[str(tuple(p))] = alias_hist.get(str(tuple(p)), 0) + 1
    if os.environ.get("C19_DEBUG"):
        for cf in ck.corr_failures:
            print("CORR", json.dumps({k: (v if k != "case" else {kk: vv for kk, vv in v.items() if kk != "mesh"}) for k, v in cf.items()}, default=str)[:700])
    n_mod = sum(1 for c, res, _ in results if res.get("modified"))
    n_changed = sum(1 for c, res, _ in results if res.get("changed"))
    ck.extra.update({"case_kinds": kinds, "model_variant_matched": matched, "extraction_audit_cases": audit_n,
                     "cases_with_modified_input": n_mod, "cases_where_other_side_changed": n_changed,
                     "alias_pairs_measured (grid var token, input token) -> count": dict(sorted(alias_hist.items())[:60]),
                     "copycache_observations_compared": sum(res.get("compared", 0) for c, res, _ in results),
                     "grid_attributes_shared_by_copies (not containers of the model)": sorted({a for c, res, _ in results
                                                                                               for a in res.get("shared_other_attributes", [])}),
                     "clauses_checked_on_impl": ["input_modified_by_build", "input_modified_by_use", "input_attrs_shared",
                                                 "copy_differs_from_original", "copy_not_independent", "session_root_changed", "grid_variable_is_callers_array",
                                                 "export_edit_changes_grid"],
                     "tolerance": "booleans and integer tables exact; longitudes compared after rounding to 1e-6 degree",
                     "model_compared": ["modified input cells", "alias table (np.shares_memory)", "dataset identity (is)",
                                        "connectivity / longitude values", "set of grid variables (table readers)",
                                        "other side changed (copy / export experiments)"]})
    ck.trusted += ["xarray object model as assumed by the heap model: xr.DataArray(data=ndarray) wraps without copying, "
                   "attrs dicts are copied on construction, Dataset.rename/swap_dims/drop_vars create new Dataset objects "
                   "(rename: new Variable objects sharing buffers; drop_vars: the same Variable objects), "
                   "Dataset.attrs setter stores dict(value); each measured on every run through the alias table",
                   "numpy: astype copies, in-place fancy assignment, ravel/isel views share memory (np.shares_memory is the oracle)",
                   "reader alias tables of MPAS/Exodus/SCRIP/ESMF/GEOS-CS/ICON are hand-transcribed into coq/Model/C19.v "
                   "and compared with the measured alias graph"]
    ck.assumptions += ["'public API' mutators are those named in the property (lazy derivation, setters, construct_face_centers, "
                       "normalize_cartesian_coordinates, chunk) plus attrs edits and in-place numpy writes through the arrays "
                       "the public properties return (Grid.copy documents a deep copy)",
                       "sharing a read-only buffer with an input (np.shares_memory true) is recorded but is not by itself a "
                       "violation: the clause is 'building does not modify its inputs'"]


def replay(ck, rp):
    c = rp["case"]
    prep_case(c)
    ck.note_case(json.dumps(strip(c), sort_keys=True, default=str))
    ck.note_case("replay")
    RUNNERS[c["kind"]](ck, c)
