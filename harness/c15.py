"""C15 — exported polygons and lines correspond to faces.

Proof: coq/Props/C15_props.v (model coq/Model/C15.v; cache key lists regenerated from the source by
harness/translators/c15_keys.py into coq/Gen/C15_keys.v).
Tie: every generated conversion (grid x export x level x periodic_elements x engine x projection,
single and after histories of earlier conversions) is run on the real code; the property clauses are
evaluated on its output with an independent oracle (exact integer longitudes for the antimeridian
test, cartopy for projected corners, vertex/area tests for split pieces); the extracted model
predicts antimeridian faces, polygon->face maps, attached data, returned index tables, object
identities and written columns, which are compared exactly.
"""
import hashlib
import json
import os

import numpy as np

import common
import meshgen
import c19
from c19 import F, U, mesh_case, lonlat_f, tbl
from common import sx

H = 180 * U
MARGIN = 3000            # micro-degrees kept clear of the >= 180 decision and of the +-180 seam
EPS32 = 1.1920929e-07
PER = {"exclude": 0, "split": 1, "ignore": 2}
METH = {"gdf": 1, "poly": 2, "line": 3}

PROJS = [None, ["Robinson", 0], ["Robinson", 45], ["Robinson", -120], ["Mollweide", 0], ["Mollweide", 90],
         ["Orthographic", 30, 20], ["Orthographic", -100, -40], ["Mercator", 0], ["EqualEarth", 60]]


def ux():
    import uxarray
    return uxarray


def make_proj(p):
    if p is None:
        return None
    import cartopy.crs as ccrs
    if p[0] == "Orthographic":
        return ccrs.Orthographic(central_longitude=p[1], central_latitude=p[2])
    return getattr(ccrs, p[0])(central_longitude=p[1])


def proj_token(p):
    return 0 if p is None else 1 + PROJS.index(p)


def proj_cl_u(p):
    return 0 if p is None else int(p[1]) * U


# ---------------------------------------------------------------------------------------------
# oracle side

def shifted(lon_u, cl_u):
    if cl_u == 0:
        return list(lon_u)          # no shift: a node stored at +180 stays at +180
    return [((x - cl_u + H) % (2 * H)) - H for x in lon_u]


def exact32(x):
    """micro-degree value that float32 holds exactly (multiple of 1/8 degree, |x| <= 256 degrees)"""
    return x % 125000 == 0


def frame_ok(mc, cl_u, allow_exact=None):
    """the case is decided with a margin — or exactly: no shifted longitude near the seam and no edge span
    near 180, unless the longitudes involved are exact in float32 (then spans of exactly 180 degrees and
    nodes exactly on the seam are decided exactly; unshifted frame only)"""
    lu = shifted(mc["lon_u"], cl_u)
    if allow_exact is None:
        allow_exact = bool(mc.get("exact"))       # only the meshes built for it (no 'split' is asked of them)
    for x in lu:
        if abs(abs(x) - H) < MARGIN and not (allow_exact and cl_u == 0 and abs(x) == H):
            return False
    for f in mc["faces"]:
        for j in range(len(f)):
            a, b = lu[f[j]], lu[f[(j + 1) % len(f)]]
            d = abs(a - b)
            if abs(d - H) < MARGIN and not (allow_exact and cl_u == 0 and d == H and exact32(a) and exact32(b)):
                return False
    return True


def am_oracle(mc, cl_u):
    lu = shifted(mc["lon_u"], cl_u)
    out = []
    for i, f in enumerate(mc["faces"]):
        if any(abs(lu[f[j]] - lu[f[(j + 1) % len(f)]]) >= H for j in range(len(f))):
            out.append(i)
    return out


def expected_rings(mc, p):
    """per face: corner coordinates in the unprojected (shifted) frame and, if a projection is given,
    their images (cartopy is the oracle for the projection itself)"""
    cl_u = proj_cl_u(p)
    lu = shifted(mc["lon_u"], cl_u)
    lon = np.array(lu, dtype=float) / U
    lat = np.array(mc["lat_u"], dtype=float) / U
    plain = [np.column_stack([lon[f], lat[f]]) for f in mc["faces"]]
    projd = None
    if p is not None:
        import cartopy.crs as ccrs
        tl, tt = lonlat_f(mc)
        xy = make_proj(p).transform_points(ccrs.PlateCarree(), tl, tt)[:, :2]
        projd = [xy[f] for f in mc["faces"]]
    return plain, projd


SENT = 9e30


def dedup_ring(r):
    """remove consecutive duplicate vertices and the closing vertex (non-finite -> one sentinel value)"""
    r = np.asarray(r, dtype=float)
    if len(r) == 0:
        return r
    r = np.where(np.isfinite(r), r, SENT)
    keep = [0]
    for i in range(1, len(r)):
        if not np.array_equal(r[i], r[keep[-1]]):
            keep.append(i)
    r = r[keep]
    while len(r) > 1 and np.array_equal(r[-1], r[0]):
        r = r[:-1]
    return r


def tol_for(a):
    a = a[np.abs(a) < SENT / 2] if a.size else a
    m = float(np.nanmax(np.abs(a))) if a.size else 1.0
    if not np.isfinite(m):
        m = 1.0
    return 8 * EPS32 * max(1.0, m) + 1e-9


def ring_matches(r, exp, allow_rotation=True):
    """r (deduplicated) equals the corner list exp up to float32 rounding; rotation of the start allowed"""
    r = dedup_ring(r)
    e = dedup_ring(np.asarray(exp, dtype=np.float32).astype(float))
    if len(r) != len(e) or len(e) == 0:
        return False
    t = tol_for(e)
    # the boundary may be traversed from any corner and in either direction (engines normalise the
    # winding); the cyclic sequence of corners must be the face's
    for ee in (e, e[::-1]):
        for s in (range(len(e)) if allow_rotation else [0]):
            if np.all(np.abs(np.roll(ee, -s, axis=0) - r) <= t):
                return True
    return False


def match_face(r, plain, projd, candidates):
    """faces whose corner ring (unprojected or projected) equals r"""
    out = []
    rr = dedup_ring(r)
    for f in candidates:
        if ring_matches(rr, plain[f]) or (projd is not None and ring_matches(rr, projd[f])):
            out.append(f)
    return out


def uses_corner(rings, corners):
    corners = np.asarray(corners, dtype=np.float32).astype(float)
    for r in rings:
        for v in dedup_ring(r):
            dl = np.abs(corners[:, 0] - v[0])
            dl = np.minimum(dl, np.abs(dl - 360.0))
            if ((dl < 1e-3) & (np.abs(corners[:, 1] - v[1]) < 1e-3)).any():
                return True
    return False


def piece_of(rs, corners):
    """the line can be (part of) the split boundary of the face with these corners"""
    return check_pieces(rs, corners) in (None, "corner_missing", "cuts_do_not_match")


def monotone_assignment(rows, plain, am, n):
    """lines come polygon by polygon: face 0, 1, ... each with one line, or (antimeridian faces) with as
    many consecutive lines as it has pieces; returns the face of every line or None"""
    out, i = [], 0
    for g in range(n):
        if i >= len(rows):
            return None
        if g not in am:
            if len(rows[i]) == 1 and ring_matches(rows[i][0], plain[g]):
                out.append(g)
                i += 1
                continue
            return None
        for k in (1, 2, 3, 4, 5):
            grp = [r for rs in rows[i:i + k] for r in rs]
            if i + k <= len(rows) and check_pieces(grp, plain[g]) is None:
                out += [g] * k
                i += k
                break
        else:
            return None
    return out if i == len(rows) else None


def shoelace(r):
    r = np.asarray(r, dtype=float)
    x, y = r[:, 0], r[:, 1]
    return 0.5 * abs(np.dot(x, np.roll(y, -1)) - np.dot(y, np.roll(x, -1)))


def check_pieces(pieces, corners):
    """the pieces of one antimeridian face: none spans the seam, together they use every corner of the
    face, add only cut points on the seam / at a pole, and (non-polar faces) keep the area"""
    corners = np.asarray(corners, dtype=np.float32).astype(float)
    t = 1e-3
    polar = False
    seen = np.zeros(len(corners), dtype=bool)
    for pc_ in pieces:
        r = dedup_ring(pc_)
        rc = np.vstack([r, r[:1]])
        for a, b in zip(rc[:-1], rc[1:]):
            # a segment along a pole (both ends at |lat| = 90) is a single point on the sphere
            if abs(b[0] - a[0]) >= 180 - 1e-9 and not (abs(abs(a[1]) - 90.0) < t and abs(abs(b[1]) - 90.0) < t):
                return "piece_spans_antimeridian"
        for v in r:
            on_seam = abs(abs(v[0]) - 180.0) < t
            at_pole = abs(abs(v[1]) - 90.0) < t
            dl = np.abs(corners[:, 0] - v[0])
            dl = np.minimum(dl, np.abs(dl - 360.0))
            # at a pole the longitude of a corner is immaterial
            hit = ((dl < t) | (np.abs(np.abs(corners[:, 1]) - 90.0) < t)) & (np.abs(corners[:, 1] - v[1]) < t)
            if hit.any():
                seen |= hit
            elif not (on_seam or at_pole):
                return "foreign_vertex"
            if at_pole:
                polar = True
    if not seen.all():
        return "corner_missing"
    # the cuts glue back: every seam latitude occurs on the +180 side and on the -180 side
    # (antimeridian places the cut on the great circle of the crossing edge, so planar areas differ)
    east, west = [], []
    for pc_ in pieces:
        for v in dedup_ring(pc_):
            if abs(abs(v[1]) - 90.0) < t:
                continue
            if abs(v[0] - 180.0) < t and not ((np.abs(corners[:, 0] - 180.0) < t) & (np.abs(corners[:, 1] - v[1]) < t)).any():
                east.append(v[1])
            if abs(v[0] + 180.0) < t and not ((np.abs(corners[:, 0] + 180.0) < t) & (np.abs(corners[:, 1] - v[1]) < t)).any():
                west.append(v[1])
    if len(east) != len(west) or any(abs(a - b) > t for a, b in zip(sorted(east), sorted(west))):
        return "cuts_do_not_match"
    return None


# ---------------------------------------------------------------------------------------------
# reading the implementation's objects

def rings_of_geom(geom):
    if hasattr(geom, "data") and hasattr(geom, "buffer_values"):
        # spatialpandas: nested coordinate lists (no shapely validation, NaN allowed)
        d = geom.data
        tn = type(geom).__name__
        if tn == "Polygon":
            return [np.asarray(d[0], dtype=float).reshape(-1, 2)] if len(d) else []
        if tn == "MultiPolygon":
            return [np.asarray(q[0], dtype=float).reshape(-1, 2) for q in d if len(q)]
    g = geom.to_shapely() if hasattr(geom, "to_shapely") else geom
    if g is None or g.is_empty:
        return []
    if g.geom_type == "MultiPolygon":
        return [np.array(q.exterior.coords) for q in g.geoms]
    return [np.array(g.exterior.coords)]


def rows_of(obj):
    """list of rows, each a list of rings"""
    t = type(obj).__name__
    if t == "GeoDataFrame":
        geo = obj["geometry"]
        vals = list(geo.values) if type(obj).__module__.startswith("spatialpandas") else list(geo)
        return [rings_of_geom(x) for x in vals]
    if t == "PolyCollection":
        out = []
        for pth in obj.get_paths():
            v = np.asarray(pth.vertices)
            if pth.codes is not None and len(v) and pth.codes[-1] == 79:
                v = v[:-1]
            out.append([v])
        return out
    if t == "LineCollection":
        return [[np.asarray(s)] for s in obj.get_segments()]
    raise TypeError(t)


def data_of(obj, name):
    t = type(obj).__name__
    if t == "GeoDataFrame":
        return None if name not in obj.columns else [float(x) for x in obj[name]]
    if t == "PolyCollection":
        a = obj.get_array()
        return None if a is None else [float(x) for x in np.asarray(a).ravel()]
    return None


def canon_result(obj):
    """canonical content of a returned object (for equality between a history run and a fresh run)"""
    rows = rows_of(obj)
    hsh = hashlib.sha1()
    for rs in rows:
        hsh.update(b"|")
        for r in rs:
            a = np.asarray(r, dtype=np.float64)
            hsh.update(np.ascontiguousarray(np.where(np.isnan(a), -1e300, a).astype(np.float32)).tobytes())
            hsh.update(b";")
    t = type(obj).__name__
    cols, dat = (), None
    if t == "GeoDataFrame":
        cols = tuple(str(c) for c in obj.columns if str(c) != "geometry")
        dat = tuple((c, tuple(float(x) for x in obj[c])) for c in cols)
    elif t == "PolyCollection":
        a = obj.get_array()
        dat = None if a is None else tuple(float(x) for x in np.asarray(a).ravel())
    return {"type": t, "rows": len(rows), "geom": hsh.hexdigest(), "cols": cols, "data": dat}


# ---------------------------------------------------------------------------------------------
# running one conversion

def build_grid(mc):
    UX = ux()
    lon, lat = lonlat_f(mc)
    return UX.Grid.from_topology(lon, lat, tbl(mc["faces"], F, 0, np.int64), fill_value=F)


def values_for(n, var):
    return np.array([1000.0 * (var + 1) + 7.0 * i for i in range(n)])


def convert(g, call, das=None):
    """call = {export, level, var, periodic, engine, proj, cache, override}; returns (obj, idx)"""
    UX = ux()
    kw = {"periodic_elements": call["periodic"], "projection": make_proj(call["proj"]),
          "cache": call.get("cache", True), "override": call.get("override", False)}
    target = g
    if call["level"] == "da":
        var = call.get("var", 0)
        if das is not None and var in das:
            target = das[var]
        else:
            target = UX.UxDataArray(values_for(g.n_face, var), dims=["n_face"], uxgrid=g, name="v%d" % var)
            if das is not None:
                das[var] = target
    if call["export"] == "gdf":
        return target.to_geodataframe(engine=call.get("engine") or "spatialpandas", **kw), None
    if call["export"] == "poly":
        r = target.to_polycollection(return_indices=True, **kw)
        return r[0], r[1]
    if call["level"] == "da":
        return g.to_linecollection(**kw), None
    return g.to_linecollection(**kw), None


def nan_flags(mc, p, am):
    """per face: does the projected shell contain NaN in x / in y (oracle: cartopy)"""
    if p is None:
        return None
    _, projd = expected_rings(mc, p)
    return [[bool(np.isnan(np.asarray(q, dtype=np.float32)[:, 0]).any()), bool(np.isnan(np.asarray(q, dtype=np.float32)[:, 1]).any())]
            for q in projd]


def spec_single(ck, c, obj, idx, mc, call):
    """the clauses of C15 on one conversion result; returns the measured polygon->face map"""
    p = call["proj"]
    per = call["periodic"]
    exp = call["export"]
    n = len(mc["faces"])
    am = am_oracle(mc, proj_cl_u(p))
    plain, projd = expected_rings(mc, p)
    rows = rows_of(obj)
    info = {"export": exp, "level": call["level"], "periodic": per, "projection": p is not None,
            "engine": call.get("engine") if exp == "gdf" else None}
    faces_of_row = []
    bad = None
    all_faces = list(range(n))
    if exp == "line" and per == "split" and p is None:
        mono = monotone_assignment(rows, plain, am, n)
        if mono is not None:
            faces_of_row = mono
            rows_iter = []
        else:
            rows_iter = list(enumerate(rows))
    else:
        rows_iter = list(enumerate(rows))
    for k, rs in rows_iter:
        if len(rs) == 1:
            m = match_face(rs[0], plain, projd, all_faces)
            if len(m) == 1:
                faces_of_row.append(m[0])
                continue
            if len(m) > 1:
                faces_of_row.append(tuple(m))      # indistinguishable rings (e.g. all corners NaN)
                continue
        # not a plain face ring: must be the pieces of an antimeridian face (split only)
        if per == "split":
            f = None
            if exp == "gdf":
                f = k if k < n else None
            elif exp == "poly" and idx is not None and k < len(idx):
                f = int(idx[k])
            else:
                # lines: the antimeridian face this line belongs to: a complete polygon of the face if there
                # is one, else a piece that uses only corners of the face
                full = [cand for cand in am if check_pieces(rs, plain[cand]) is None]
                part = [cand for cand in am if check_pieces(rs, plain[cand]) in ("corner_missing", "cuts_do_not_match")
                        and uses_corner(rs, plain[cand])]
                f = full[0] if full else (part[0] if part else None)
            faces_of_row.append(f)
            if f is None or f not in am:
                why = "no_face"
                rr = dedup_ring(rs[0]) if len(rs) == 1 else None
                if rr is not None and len(rr) == 4 and f is not None and f not in am and \
                        sorted(map(tuple, np.abs(rr).tolist())) == [(180.0, 90.0)] * 4:
                    # antimeridian.fix_polygon(fix_winding=False) turns a clockwise lon/lat ring into "the globe
                    # with a hole"; the exterior taken from it is the +-180 x +-90 rectangle
                    why = "globe_rectangle_for_noncrossing_face"
                bad = bad or ("polygon_vertices", "row %d is neither a face ring nor pieces of an antimeridian face" % k, why)
            continue
        faces_of_row.append(None)
        bad = bad or ("polygon_vertices", "row %d matches no face" % k, "no_face")
    if bad:
        ck.fail(bad[0], c, dict(info, reason=bad[2]), detail=bad[1])
        return faces_of_row
    # ---- which faces are shown, how often
    shown = [f for f in faces_of_row if f is not None and not isinstance(f, tuple)]
    ambiguous = [f for f in faces_of_row if isinstance(f, tuple)]
    if per == "exclude":
        if any(f in am for f in shown):
            ck.fail("polygon_face_bijection", c, dict(info, reason="antimeridian_face_shown"))
        dup = len(set(shown)) != len(shown)
        if dup:
            ck.fail("polygon_face_bijection", c, dict(info, reason="duplicate"), detail="faces %s" % sorted(shown))
        finite = [f for f in range(n) if f not in am and (projd is None or np.isfinite(np.asarray(projd[f], dtype=np.float32)).all())]
        miss = [f for f in finite if f not in shown]
        if miss:
            ck.fail("polygon_face_bijection", c, dict(info, reason="missing_face"), detail="faces %s not exported" % miss)
    else:
        # split / ignore: every face is shown (projection: NaN polygons may be left out)
        if p is None:
            want = list(range(n))
            if exp == "poly" and per == "split":
                if sorted(set(shown)) != want:
                    ck.fail("polygon_face_bijection", c, dict(info, reason="missing_face"))
            elif exp == "line" and per == "split":
                if sorted(set(shown)) != want:
                    ck.fail("polygon_face_bijection", c, dict(info, reason="missing_face"))
            elif shown != want:
                ck.fail("polygon_face_bijection", c, dict(info, reason="duplicate" if len(set(shown)) != len(shown) else "missing_face"),
                        detail="faces %s" % shown)
        else:
            if len(set(shown)) != len(shown):
                ck.fail("polygon_face_bijection", c, dict(info, reason="duplicate"), detail="faces %s" % sorted(shown))
    # ---- split: the pieces of every antimeridian face
    if per == "split" and p is None:
        for f in am:
            pieces = [r for k, rs in enumerate(rows) if faces_of_row[k] == f for r in rs]
            why = check_pieces(pieces, plain[f]) if pieces else "no_pieces"
            if why:
                ck.fail("split_pieces", c, dict(info, reason=why), detail="face %d" % f)
                break
        for k, rs in enumerate(rows):
            f = faces_of_row[k]
            if f is not None and f not in am and len(rs) != 1:
                ck.fail("split_pieces", c, dict(info, reason="non_antimeridian_face_cut"))
                break
    # ---- returned index table
    if exp == "poly" and idx is not None and per != "ignore":
        if per == "split" or p is None:
            if [int(x) for x in idx] != [f for f in faces_of_row]:
                ck.fail("index_table", c, info, detail="returned %s measured %s" % (list(idx), faces_of_row))
    # ---- data
    if call["level"] == "da" and exp in ("gdf", "poly"):
        vals = values_for(n, call.get("var", 0))
        dat = data_of(obj, "v%d" % call.get("var", 0))
        if dat is None or len(dat) != len(rows):
            ck.fail("data_attached", c, dict(info, reason="length"), detail="%s values for %d polygons"
                    % (None if dat is None else len(dat), len(rows)))
        else:
            for k, f in enumerate(faces_of_row):
                if isinstance(f, tuple):
                    if dat[k] not in [float(vals[q]) for q in f]:
                        ck.fail("data_attached", c, dict(info, reason="wrong_value"),
                                detail="polygon %d carries %r, none of the values of the faces %s it can show" % (k, dat[k], list(f)))
                        break
                    continue
                if f is not None and dat[k] != float(vals[f]):
                    ck.fail("data_attached", c, dict(info, reason="wrong_value"),
                            detail="polygon %d shows face %d, carries %r, the face's value is %r" % (k, f, dat[k], float(vals[f])))
                    break
    return faces_of_row


def model_single(c, mc, call, am_impl, pieces):
    p = call["proj"]
    n = len(mc["faces"])
    nan = nan_flags(mc, p, None)
    vals = [int(v) for v in values_for(n, call.get("var", 0))]
    per = PER[call["periodic"]]
    if call["export"] == "poly":
        return "poly", sx([per, n, am_impl, nan, pieces, vals])
    if call["export"] == "gdf":
        return "gdf", sx([per, n, am_impl, nan, vals])
    return "line", sx([per, n, am_impl, nan])


def run_single(ck, c):
    mc = c["mesh"]
    call = c["call"]
    g = build_grid(mc)
    res = {"raises": None}
    try:
        obj, idx = convert(g, call)
    except Exception as ex:
        res["raises"] = type(ex).__name__ + ": " + str(ex)[:100]
        return res, None
    faces_of_row = spec_single(ck, c, obj, idx, mc, call)
    res["faces"] = faces_of_row
    res["idx"] = None if idx is None else [int(x) for x in idx]
    n = len(mc["faces"])
    if call["level"] == "da" and call["export"] in ("gdf", "poly"):
        dat = data_of(obj, "v%d" % call.get("var", 0))
        res["data"] = None if dat is None else [int(x) for x in dat]
    am = am_oracle(mc, proj_cl_u(call["proj"]))
    pieces = [1] * n
    if call["periodic"] == "split":
        for f in range(n):
            pieces[f] = sum(len(rs) for k, rs in enumerate(rows_of(obj)) if faces_of_row[k] == f) if call["export"] == "poly" else 1
    res["am"] = am
    return res, model_single(c, mc, call, am, pieces)


def renumbered(mc, rng):
    """the same mesh with permuted node numbers, faces kept in order and size (same n_nodes_per_face pattern),
    optionally rotated about the axis by whole degrees"""
    n = len(mc["lon_u"])
    perm = list(range(n))
    rng.shuffle(perm)                      # old -> new
    lon, lat, xyz = [0] * n, [0] * n, [None] * n
    rot = rng.choice([0, 0, 17, -33, 61]) * U
    for o, nw in enumerate(perm):
        lon[nw] = ((mc["lon_u"][o] + rot + H) % (2 * H)) - H
        lat[nw] = mc["lat_u"][o]
        xyz[nw] = mc["xyz"][o]
    faces = []
    for f in mc["faces"]:
        g = [perm[i] for i in f]
        r = rng.randrange(len(g))
        faces.append(g[r:] + g[:r])
    return {"faces": faces, "lon_u": lon, "lat_u": lat, "xyz": xyz}


def run_twogrid(ck, c):
    """another grid with the same face count and face-size pattern is converted first in this process; the
    conversion of this grid is then judged against its own corners (independent oracle)"""
    try:
        g0 = build_grid(c["first"])
        convert(g0, c["first_call"])
    except Exception:
        pass
    return run_single(ck, c)


def cmp_single(ck, c, res, mo):
    call = c["call"]
    if call["export"] == "line":
        mf = list(mo)
        if call["periodic"] == "split":
            # one polygon per face; its boundary may consist of several lines
            seq_ = []
            for f in res["faces"]:
                if not seq_ or seq_[-1] != f:
                    seq_.append(f)
            if seq_ != mf:
                ck.corr_failures.append({"case": c, "what": "faces shown by the lines", "impl": res["faces"], "model": mf})
        elif not (len(res["faces"]) == len(mf) and all((m in f) if isinstance(f, (tuple, list)) else (f == m) for f, m in zip(res["faces"], mf))):
            ck.corr_failures.append({"case": c, "what": "faces shown by the lines", "impl": res["faces"], "model": mf})
        return
    mf, md, mc2o = mo
    okf = len(res["faces"]) == len(mf) and all((m in f) if isinstance(f, (tuple, list)) else (f == m) for f, m in zip(res["faces"], mf))
    if not okf:
        ck.corr_failures.append({"case": c, "what": "polygon -> face map", "impl": res["faces"], "model": mf})
    if call["level"] == "da" and res.get("data") is not None and res["data"] != list(md):
        ck.corr_failures.append({"case": c, "what": "attached data", "impl": res["data"][:20], "model": list(md)[:20]})
    if call["export"] == "poly" and res["idx"] is not None and res["idx"] != list(mc2o):
        ck.corr_failures.append({"case": c, "what": "returned index table", "impl": res["idx"], "model": mc2o})


# ---------------------------------------------------------------------------------------------
# the builders' side tables, from the corner longitudes

def run_tables(ck, c):
    """UxDataArray.to_polycollection / to_geodataframe on a fresh grid; the side tables the builder left in
    the grid's cache dictionaries, the returned index table and the attached data are compared with the
    model, which gets only the corner longitudes (frame of the projection), NaN flags and piece counts"""
    mc = c["mesh"]
    call = dict(c["call"], level="da")
    g = build_grid(mc)
    res = {"raises": None}
    try:
        obj, idx = convert(g, call)
    except Exception as ex:
        res["raises"] = type(ex).__name__ + ": " + str(ex)[:100]
        return res, None
    p = call["proj"]
    n = len(mc["faces"])
    lu = shifted(mc["lon_u"], proj_cl_u(p))
    faces_lon = [[lu[i] for i in f] for f in mc["faces"]]
    m = max(len(f) for f in mc["faces"])
    if call["export"] == "poly":
        d = g._poly_collection_cached_parameters
        nn = d["non_nan_polygon_indices"]
        res["am"] = [int(x) for x in np.asarray(d["antimeridian_face_indices"]).ravel()]
        res["non_nan"] = None if nn is None else [int(x) for x in np.asarray(nn).ravel()]
        res["c2o"] = [int(x) for x in idx]
        dat = data_of(obj, "v%d" % call.get("var", 0))
        res["data"] = None if dat is None else [int(x) for x in dat]
        pieces = [1] * n
        if call["periodic"] == "split":
            am_o = am_oracle(mc, proj_cl_u(p))
            for f in range(n):
                # what antimeridian.fix_polygon makes of a crossing face is taken from the run; for a face that
                # does not cross a wrong count is passed on purpose: the model must not use it
                pieces[f] = res["c2o"].count(f) if f in am_o else 2
    else:
        res["am"] = [int(x) for x in np.asarray(g._gdf_cached_parameters["antimeridian_face_indices"]).ravel()]
        pieces = [1] * n
    vals = [int(v) for v in values_for(n, call.get("var", 0))]
    return res, ("tables", sx([PER[call["periodic"]], m, faces_lon, nan_flags(mc, p, None), pieces, vals]))


def cmp_tables(ck, c, res, mo):
    m_am, m_nn, m_c2o, m_rows, m_data, m_faces = mo
    if list(m_am) != res["am"]:
        ck.corr_failures.append({"case": c, "what": "stored antimeridian_face_indices", "impl": res["am"], "model": m_am})
    if c["call"]["export"] != "poly":
        return
    if (m_nn is None) != (res["non_nan"] is None) or (m_nn is not None and list(m_nn) != res["non_nan"]):
        ck.corr_failures.append({"case": c, "what": "stored non_nan_polygon_indices", "impl": res["non_nan"], "model": m_nn})
    if list(m_c2o) != res["c2o"]:
        ck.corr_failures.append({"case": c, "what": "returned corrected_to_original_faces", "impl": res["c2o"], "model": m_c2o})
    if res["data"] is not None and list(m_data) != res["data"]:
        ck.corr_failures.append({"case": c, "what": "data re-indexed with the side tables", "impl": res["data"][:20], "model": list(m_data)[:20]})
    if c["call"]["proj"] is None and list(m_rows) != list(m_faces):
        ck.corr_failures.append({"case": c, "what": "face-by-face rows vs pipeline (model internal)", "rows": m_rows, "faces": m_faces})


# ---------------------------------------------------------------------------------------------
# antimeridian faces

def run_am(ck, c):
    mc = c["mesh"]
    g = build_grid(mc)
    got = sorted(int(x) for x in np.asarray(g.antimeridian_face_indices).ravel())
    want = am_oracle(mc, 0)
    res = {"am": got, "raises": None}
    if got != want:
        ck.fail("am_faces", c, {"via": "Grid.antimeridian_face_indices"}, detail="impl %s oracle %s" % (got, want))
    m = max(len(f) for f in mc["faces"])
    faces_lon = [[mc["lon_u"][i] for i in f] for f in mc["faces"]]
    return res, ("am", sx([m, faces_lon]))


def cmp_am(ck, c, res, mo):
    if list(mo[0]) != res["am"]:
        ck.corr_failures.append({"case": c, "what": "antimeridian faces", "impl": res["am"], "model": mo[0]})
    want = am_oracle(c["mesh"], 0)
    if [i for i, b in enumerate(mo[1]) if b] != want:
        ck.corr_failures.append({"case": c, "what": "model spans vs oracle", "model": mo[1], "oracle": want})


# ---------------------------------------------------------------------------------------------
# histories

def same_call(a, b):
    return all(a.get(k) == b.get(k) for k in ("export", "level", "var", "periodic", "engine", "proj"))


SIDE_TABLES = {"gdf": ("_gdf_cached_parameters", ["antimeridian_face_indices"]),
               "poly": ("_poly_collection_cached_parameters", ["antimeridian_face_indices", "non_nan_polygon_indices"])}


def side_tables(g, export):
    if export not in SIDE_TABLES:
        return None
    attr, keys = SIDE_TABLES[export]
    d = getattr(g, attr)
    return tuple(None if d.get(k) is None else tuple(int(x) for x in np.asarray(d[k]).ravel()) for k in keys)


def compare_results(a, aidx, b, bidx, export):
    """a, b canonical results (None = the call raised)"""
    if (a is None) != (b is None):
        return "raises"
    if a is None:
        return None
    if a["geom"] != b["geom"] or a["rows"] != b["rows"]:
        return "geometry"
    if a["cols"] != b["cols"]:
        return "columns"
    if a["data"] != b["data"]:
        return "data"
    if export == "poly" and ((aidx is None) != (bidx is None) or (aidx is not None and list(aidx) != list(bidx))):
        return "index_table"
    return None


def run_hist(ck, c):
    """every step of the history is compared with the same call on a fresh grid; objects returned earlier
    must keep their content"""
    mc = c["mesh"]
    steps = c["steps"]
    g = build_grid(mc)
    das = {}
    kept = []          # (step index, object, canonical content right after the return, step)
    res = {"raises": None, "ids": [], "diff": None, "diffs": [], "stale": [], "pollution": []}
    raised = set()
    fresh_memo = {}
    first_bad = None
    for i, st in enumerate(steps):
        try:
            obj, idx = convert(g, st, das)
            cr = canon_result(obj)
            idx = None if idx is None else [int(x) for x in idx]
        except Exception as ex:
            obj, idx, cr = None, None, None
            raised.add(i)
            if i == len(steps) - 1:
                res["raises"] = type(ex).__name__ + ": " + str(ex)[:100]
        if obj is not None:
            kept.append((i, obj, cr, st))
        tabs = side_tables(g, st["export"])
        key = json.dumps([st.get(k) for k in ("export", "level", "var", "periodic", "engine", "proj")])
        if key not in fresh_memo:
            g2 = build_grid(mc)
            try:
                fobj, fidx = convert(g2, st)
                fresh_memo[key] = (canon_result(fobj), None if fidx is None else [int(x) for x in fidx], side_tables(g2, st["export"]))
            except Exception:
                fresh_memo[key] = (None, None, side_tables(g2, st["export"]))
        fcr, fidx, ftabs = fresh_memo[key]
        d = compare_results(cr, idx, fcr, fidx, st["export"])
        stale = st["level"] == "da" and tabs is not None and tabs != ftabs
        own = ("v%d" % st.get("var", 0),) if st["level"] == "da" else ()
        poll = cr is not None and st["export"] == "gdf" and tuple(cr["cols"]) != own
        res["diffs"].append(d)
        res["stale"].append(bool(stale))
        res["pollution"].append(bool(poll))
        if d is not None and first_bad is None:
            first_bad = i
    res["diff"] = res["diffs"][-1]
    if first_bad is not None:
        st = steps[first_bad]
        ck.fail("cache_dependent", c,
                {"export": st["export"], "level": st["level"], "periodic": st["periodic"], "projection": st["proj"] is not None,
                 "differs": res["diffs"][first_bad], "stale_side_tables": res["stale"][first_bad],
                 "column_pollution": res["pollution"][first_bad]},
                detail="step %d of the history differs from the same call on a fresh grid (%s)" % (first_bad, res["diffs"][first_bad]))
    # ---- earlier returned objects must still be what they were
    altered = []
    for i, obj, snap, st in kept[:-1]:
        now = canon_result(obj)
        if now != snap:
            altered.append((i, st["export"], "columns" if (now["geom"] == snap["geom"] and now["data"] != snap["data"] or now["cols"] != snap["cols"]) else "geometry"))
    res["altered"] = altered
    for i, exp, what in altered:
        ck.fail("returned_object_altered", c, {"export": exp, "what": what},
                detail="the object returned by step %d was altered by later conversions" % i)
        break
    res["ids"] = [(i, id(obj)) for i, obj, _, _ in kept]
    res["cols"] = {i: list(canon_result(obj)["cols"]) for i, obj, _, st in kept if st["export"] == "gdf"}
    res["raised"] = sorted(raised)
    # ---- model: the machine of the final call's export kind, on the steps of that kind
    kind = steps[-1]["export"]
    sel = [i for i, st in enumerate(steps) if st["export"] == kind]
    lines = []
    for i in sel:
        st = steps[i]
        var = "N" if st["level"] == "grid" or kind == "line" else 5 + st.get("var", 0)
        eng = 0 if kind != "gdf" else (1 if (st.get("engine") or "spatialpandas") == "spatialpandas" else 2)
        cache = 1 if st.get("cache", True) else 0
        if i in raised and i != len(steps) - 1:
            # a conversion that raised while building: the builder had already written its side tables,
            # nothing was cached and nothing was returned -> an uncached Grid-level build
            var, cache = "N", 0
        lines.append([var, PER[st["periodic"]] + 1, proj_token(st["proj"]), eng, cache,
                      1 if st.get("override", False) else 0])
    res["sel"] = sel
    return res, ("hist", sx([METH[kind], lines]))


def cmp_hist(ck, c, res, mo):
    """correspondence only (the clauses were evaluated in run_hist)"""
    steps = c["steps"]
    outs, reg, keys_ok = mo
    sel = res["sel"]
    clean = not [i for i in res["raised"] if i != len(steps) - 1 or True]
    for j, i in enumerate(sel):
        built, oid, tables = outs[j]
        m_stale = tables is not None and any(list(t) != list(built) for t in tables)
        d = res["diffs"][i]
        st = steps[i]
        frame_resized = (m_stale or res["stale"][i]) and st["export"] == "gdf" and st["level"] == "da"
        if keys_ok and d in ("geometry", "index_table") and not frame_resized:
            ck.corr_failures.append({"case": c, "what": "step %d: geometry depends on the history although the model's machine is transparent" % i})
        if keys_ok and d == "raises" and not (m_stale or res["stale"][i]):
            ck.corr_failures.append({"case": c, "what": "step %d raises only after the history although the model reads consistent tables" % i})
        if d == "data" and not m_stale and clean:
            ck.corr_failures.append({"case": c, "what": "step %d: data differ although the model reads consistent side tables" % i})
        if res["stale"][i] and not m_stale and clean:
            ck.corr_failures.append({"case": c, "what": "step %d: side tables measured stale, model says consistent" % i})
    if not clean:
        return
    # object identities: partition of the steps of this kind by returned object
    impl_ids = dict(res["ids"])
    got = [impl_ids.get(i) for i in sel]

    def part(xs):
        first = {}
        return [first.setdefault(x, len(first)) for x in xs]
    if None not in got and part(got) != part([o[1] for o in outs]):
        ck.corr_failures.append({"case": c, "what": "identity of returned objects", "impl": part(got),
                                 "model": part([o[1] for o in outs])})
    # columns written into frames
    if steps[-1]["export"] == "gdf":
        for j, i in enumerate(sel):
            if i in res["cols"]:
                want = sorted(set(int(x) - 5 for x in reg[j][2])) if reg[j][2] is not None else []
                have = sorted(int(cn[1:]) for cn in res["cols"][i] if cn.startswith("v"))
                if want != have:
                    ck.corr_failures.append({"case": c, "what": "columns of the frame returned by step %d" % i,
                                             "impl": have, "model": want})
                    break


# ---------------------------------------------------------------------------------------------
# generation

def pick_mesh(rng, want_am=None):
    for _ in range(200):
        m = meshgen.gen_mesh(rng, max_ops=rng.choice([0, 1, 2, 3, 5]), partial=rng.random() < 0.5)
        if not (2 <= len(m.faces) <= 36):
            continue
        mc = mesh_case(m)
        if not frame_ok(mc, 0):
            continue
        am = am_oracle(mc, 0)
        if want_am is True and not am:
            continue
        if want_am is False and am:
            continue
        return mc
    return mc


def exact_mesh(rng):
    """caps, bands and pole fans on integer-degree longitudes: edges through a pole (span exactly 180),
    nodes exactly at the poles and exactly on the antimeridian, next to ordinary crossing faces"""
    import math
    k = rng.choice([4, 8])
    step = 360 // k
    rot = rng.choice([0, 45, 90, -90, 180]) if k == 4 else rng.choice([0, 45, 90])
    sign = rng.choice([1, -1])                       # northern or southern cap
    lat1, lat2 = sign * rng.choice([80, 70, 60]), sign * rng.choice([40, 30, 10])

    def wrap(d):
        d = ((d + 180) % 360) - 180
        return 180 if d == -180 and rng.random() < 0.7 else d      # nodes exactly on the seam, mostly as +180
    ring = [wrap(rot + i * step) for i in range(k)]
    nodes, idx = [], {}

    def node(lon, lat):
        key = (lon, lat)
        if key not in idx:
            idx[key] = len(nodes)
            nodes.append(key)
        return idx[key]
    faces = []
    style = rng.choice(["halves", "fan", "halves", "fan+band", "halves+band"])
    if "halves" in style:
        h = k // 2
        faces.append([node(ring[i], lat1) for i in range(0, h + 1)])               # closing edge through the pole: span 180
        faces.append([node(ring[i % k], lat1) for i in range(h, k + 1)])
    if "fan" in style:
        pole = node(rng.choice([0, 90, ring[0]]), sign * 90)
        for i in range(k):
            if rng.random() < 0.85:
                faces.append([pole, node(ring[i], lat1), node(ring[(i + 1) % k], lat1)])
        if rng.random() < 0.5:                                                      # a pole corner opposite to an arc end
            faces.append([pole, node(ring[0], lat1), node(ring[(k // 2) % k], lat1)])
    if "band" in style:
        for i in range(k):
            if rng.random() < 0.8:
                faces.append([node(ring[i], lat1), node(ring[i], lat2), node(ring[(i + 1) % k], lat2), node(ring[(i + 1) % k], lat1)])
    faces = [f for f in faces if len(set(f)) == len(f)]
    for f in faces:
        if rng.random() < 0.5:
            f.reverse()
        r = rng.randrange(len(f))
        f[:] = f[r:] + f[:r]
    rng.shuffle(faces)
    used = sorted({i for f in faces for i in f})
    mp = {o: n for n, o in enumerate(used)}
    nodes = [nodes[o] for o in used]
    faces = [[mp[i] for i in f] for f in faces]
    xyz = [[math.cos(math.radians(la)) * math.cos(math.radians(lo)), math.cos(math.radians(la)) * math.sin(math.radians(lo)),
            math.sin(math.radians(la))] for lo, la in nodes]
    return {"faces": faces, "lon_u": [lo * U for lo, la in nodes], "lat_u": [la * U for lo, la in nodes], "xyz": xyz,
            "exact": True}


def pole_fan_mesh(rng):
    """triangles with one corner stored exactly at a pole (any longitude), none of them crossing the
    antimeridian, traversed in either direction — in the lon/lat plane some rings run clockwise — next to a
    few ordinary faces, one of which crosses"""
    import math
    sign = rng.choice([1, -1])
    base = rng.choice([-150, -120, -60, 0, 20])
    step = rng.choice([25, 35, 40])
    k = rng.randrange(3, 6)
    ring = [base + i * step + rng.choice([0, 1, 2]) for i in range(k)]
    ring = [x for x in ring if -170 < x < 170]
    lat1, lat2 = sign * rng.choice([75, 68, 60]), sign * rng.choice([35, 20])
    pole_lon = rng.choice([ring[0], ring[-1], (ring[0] + ring[-1]) // 2, ring[len(ring) // 2]])
    nodes = [(pole_lon, sign * 90)] + [(x, lat1) for x in ring] + [(x, lat2) for x in ring]
    faces = []
    for i in range(len(ring) - 1):
        f = [0, 1 + i, 2 + i]
        if rng.random() < 0.5:
            f.reverse()
        r = rng.randrange(3)
        faces.append(f[r:] + f[:r])
        faces.append([1 + i, 1 + len(ring) + i, 2 + len(ring) + i, 2 + i])
    # one face across the antimeridian
    nodes += [(172, lat2), (-171, lat2), (-173, lat1 // 2), (174, lat1 // 2)]
    b = len(nodes) - 4
    faces.append([b, b + 1, b + 2, b + 3])
    rng.shuffle(faces)
    xyz = [[math.cos(math.radians(la)) * math.cos(math.radians(lo)), math.cos(math.radians(la)) * math.sin(math.radians(lo)),
            math.sin(math.radians(la))] for lo, la in nodes]
    jit = [0] + [rng.randrange(-400000, 400000) for _ in nodes[1:]]
    return {"faces": faces, "lon_u": [lo * U + j for (lo, la), j in zip(nodes, jit)], "lat_u": [la * U for lo, la in nodes],
            "xyz": xyz}


def pick_proj(rng, mc, allow_none=True, only=None):
    for _ in range(30):
        p = rng.choice(only or PROJS)
        if p is None and not allow_none:
            continue
        if frame_ok(mc, proj_cl_u(p)):
            return p
    return None


def gen_call(rng, mc, export=None, level=None):
    export = export or rng.choice(["gdf", "gdf", "poly", "poly", "line"])
    per = rng.choice(["exclude", "exclude", "split", "ignore"])
    p = pick_proj(rng, mc) if rng.random() < 0.5 else None
    if per == "split":
        p = None            # split with a projection raises (gdf, poly) by design
    level = level or ("grid" if export == "line" else rng.choice(["grid", "da", "da"]))
    return {"export": export, "level": level, "var": rng.randrange(3), "periodic": per,
            "engine": rng.choice(["spatialpandas", "geopandas"]) if export == "gdf" else None, "proj": p,
            "cache": True, "override": False}


def gen_cases(ck):
    rng = ck.rng
    quick = ck.tier == "quick"
    cases = []
    cdir = os.path.join(common.VERIF, "corpus", "C15")
    if os.path.isdir(cdir):
        for fn in sorted(os.listdir(cdir)):
            cases.append(json.load(open(os.path.join(cdir, fn))))
    for _ in range(12 if quick else 1000):
        cases.append({"kind": "am", "mesh": pick_mesh(rng, want_am=rng.choice([True, True, None, False]))})
    # exact configurations: spans of exactly 180 degrees, pole corners, nodes on the seam
    for _ in range(10 if quick else 300):
        mc = exact_mesh(rng)
        if len(mc["faces"]) >= 1 and frame_ok(mc, 0):
            cases.append({"kind": "am", "mesh": mc})
    for rep in range(1 if quick else 15):
        for export in ("gdf", "poly", "line"):
            for level in (("grid", "da") if export != "line" else ("grid",)):
                for per in ("exclude", "ignore"):
                    mc = exact_mesh(rng)
                    if not mc["faces"] or not frame_ok(mc, 0):
                        continue
                    p = rng.choice([None, None, ["Robinson", 0], ["Mollweide", 0]])
                    cases.append({"kind": "single", "mesh": mc,
                                  "call": {"export": export, "level": level, "var": rng.randrange(3), "periodic": per,
                                           "engine": rng.choice(["spatialpandas", "geopandas"]) if export == "gdf" else None,
                                           "proj": p, "cache": True, "override": False}})
    # pole fans: non-crossing faces with a corner stored at a pole, both traversal directions, under split
    for rep in range(2 if quick else 40):
        mc = pole_fan_mesh(rng)
        if not frame_ok(mc, 0):
            continue
        for export, level, engine in (("poly", "grid", None), ("poly", "da", None), ("gdf", "da", rng.choice(["spatialpandas", "geopandas"])),
                                      ("line", "grid", None)):
            for per in (("split",) if quick and export != "poly" else ("split", "exclude", "ignore")):
                cases.append({"kind": "single", "mesh": mc,
                              "call": {"export": export, "level": level, "var": rng.randrange(3), "periodic": per,
                                       "engine": engine, "proj": None, "cache": True, "override": False}})
    # every (export, level, periodic, engine, projection class) at least once per tier
    combos = []
    for export in ("gdf", "poly", "line"):
        for level in (("grid", "da") if export != "line" else ("grid",)):
            for per in ("exclude", "split", "ignore"):
                for engine in (("spatialpandas", "geopandas") if export == "gdf" else (None,)):
                    for pk in ("none", "proj0", "projc", "ortho"):
                        if per == "split" and pk != "none":
                            continue
                        combos.append((export, level, per, engine, pk))
    for rep in range(1 if quick else 30):
        for export, level, per, engine, pk in combos:
            mc = pick_mesh(rng, want_am=True if rng.random() < 0.8 else None)
            only = {"none": [None], "proj0": [["Robinson", 0], ["Mollweide", 0], ["Mercator", 0]],
                    "projc": [["Robinson", 45], ["Robinson", -120], ["Mollweide", 90], ["EqualEarth", 60]],
                    "ortho": [["Orthographic", 30, 20], ["Orthographic", -100, -40]]}[pk]
            p = pick_proj(rng, mc, only=only)
            if pk != "none" and p is None:
                continue
            cases.append({"kind": "single", "mesh": mc,
                          "call": {"export": export, "level": level, "var": rng.randrange(3), "periodic": per,
                                   "engine": engine, "proj": p, "cache": True, "override": False}})
    # histories: fixed templates (one mesh each per repetition), then random ones
    def call(export, level, per, proj, cache=True, override=False, var=0, engine=None):
        return {"export": export, "level": level, "var": var, "periodic": per,
                "engine": (engine or "spatialpandas") if export == "gdf" else None, "proj": proj, "cache": cache,
                "override": override}
    for _ in range(2 if quick else 80):
        mc = pick_mesh(rng, want_am=True)
        shifted_p = pick_proj(rng, mc, only=[["Robinson", 45], ["Robinson", -120], ["Mollweide", 90], ["EqualEarth", 60],
                                             ["Orthographic", 30, 20], ["Orthographic", -100, -40]])
        flat_p = pick_proj(rng, mc, only=[["Robinson", 0], ["Mollweide", 0], ["Mercator", 0]])
        for export in ("poly", "gdf"):
            if shifted_p is not None:
                # an uncached conversion with other arguments between two equal cached ones
                cases.append({"kind": "hist", "mesh": mc, "steps": [call(export, "da", "exclude", shifted_p, var=1),
                                                                    call(export, "grid", "exclude", None, cache=False),
                                                                    call(export, "da", "exclude", shifted_p, var=1)]})
                cases.append({"kind": "hist", "mesh": mc, "steps": [call(export, "grid", "exclude", None),
                                                                    call(export, "da", "exclude", shifted_p, cache=False, var=2),
                                                                    call(export, "da", "exclude", None, var=0)]})
            # another variable first
            cases.append({"kind": "hist", "mesh": mc, "steps": [call(export, "da", "exclude", None, var=0),
                                                                call(export, "da", "exclude", None, var=1)]})
            cases.append({"kind": "hist", "mesh": mc, "steps": [call(export, "grid", "split", None),
                                                                call(export, "da", "split", None, var=2),
                                                                call(export, "grid", "split", None)]})
        # cached X, then Y with cache=False (optionally override=True), then Y again with the default flags
        # (and X again): for every single-argument difference between X and Y, at both levels
        for export in ("gdf", "poly", "line"):
            argsets = [("exclude", None, "spatialpandas"), ("ignore", None, "spatialpandas"), ("split", None, "spatialpandas")]
            if flat_p is not None:
                argsets.append(("exclude", flat_p, "spatialpandas"))
            if shifted_p is not None:
                argsets.append(("ignore", shifted_p, "spatialpandas"))
            if export == "gdf":
                argsets.append(("exclude", None, "geopandas"))
            pairs = [(x, y) for x in argsets for y in argsets if x != y]
            rng.shuffle(pairs)
            for x, y in pairs[:(4 if quick else 12)]:
                lv = "grid" if export == "line" else rng.choice(["grid", "da"])
                mid_override = rng.random() < 0.3
                tail = rng.choice([[y], [y, x], [x]])
                st = [call(export, rng.choice(["grid", lv]), x[0], x[1], engine=x[2], var=0),
                      call(export, rng.choice(["grid", lv]), y[0], y[1], engine=y[2], cache=False, override=mid_override, var=1)]
                st += [call(export, lv, z[0], z[1], engine=z[2], var=2) for z in tail]
                cases.append({"kind": "hist", "mesh": mc, "steps": st})
        for pj in (shifted_p, flat_p):
            if pj is None:
                continue
            for export in ("line", "poly", "gdf"):
                # projected first, then unprojected (and back): each must be what a fresh grid gives
                cases.append({"kind": "hist", "mesh": mc, "steps": [call(export, "grid", "exclude", pj),
                                                                    call(export, "grid", "exclude", None)]})
                cases.append({"kind": "hist", "mesh": mc, "steps": [call(export, "grid", "exclude", None),
                                                                    call(export, "grid", "exclude", pj),
                                                                    call(export, "grid", "exclude", None)]})
                cases.append({"kind": "hist", "mesh": mc, "steps": [call(export, "grid", "ignore", None),
                                                                    call(export, "grid", "exclude", None),
                                                                    call(export, "grid", "ignore", None, override=True)]})
    for _ in range(40 if quick else 4000):
        mc = pick_mesh(rng, want_am=True if rng.random() < 0.8 else None)
        kind = rng.choice(["gdf", "gdf", "poly", "poly", "line"])
        k = rng.randrange(1, 5)
        steps = []
        for j in range(k + 1):
            st = gen_call(rng, mc, export=kind if (j == k or rng.random() < 0.8) else None)
            st["cache"] = rng.random() < 0.75
            st["override"] = rng.random() < 0.15
            steps.append(st)
        # make the final call likely to hit the cache of an earlier one
        if rng.random() < 0.7:
            same = [s for s in steps[:-1] if s["export"] == kind]
            if same and rng.random() < 0.5:
                same = same[-1:]          # the most recent conversion of this kind, whatever its flags
            if same:
                base = rng.choice(same)
                fin = dict(base)
                fin["level"] = rng.choice(["grid", "da"]) if kind != "line" else "grid"
                fin["var"] = rng.randrange(3)
                fin["cache"] = rng.random() < 0.8
                fin["override"] = rng.random() < 0.1
                steps[-1] = fin
        cases.append({"kind": "hist", "mesh": mc, "steps": steps})
    # two grids with coinciding counts and face-size patterns in one process (module-level state)
    for _ in range(10 if quick else 300):
        a = pick_mesh(rng, want_am=True if rng.random() < 0.7 else None)
        b = None
        for _t in range(20):
            cand = renumbered(a, rng)
            if frame_ok(cand, 0):
                b = cand
                break
        if b is None:
            continue
        first, second = (a, b) if rng.random() < 0.5 else (b, a)
        c1 = gen_call(rng, first)
        c2 = gen_call(rng, second)
        if rng.random() < 0.5:
            c2 = dict(c1, var=rng.randrange(3))              # the very same conversion on the second grid
        for cl in (c1, c2):
            if cl["proj"] is not None and not frame_ok(second if cl is c2 else first, proj_cl_u(cl["proj"])):
                cl["proj"] = None
        cases.append({"kind": "twogrid", "mesh": second, "first": first, "first_call": c1, "call": c2})
    # the side tables of every single conversion that has them
    for c in [c for c in cases if c["kind"] == "single" and c["call"]["export"] in ("poly", "gdf")]:
        cases.append({"kind": "tables", "mesh": c["mesh"], "call": c["call"]})
    return cases


RUNNERS = {"am": run_am, "single": run_single, "hist": run_hist, "tables": run_tables, "twogrid": run_twogrid}
CMPS = {"am": cmp_am, "single": cmp_single, "hist": cmp_hist, "tables": cmp_tables, "twogrid": cmp_single}


def strip(c):
    return {k: v for k, v in c.items() if not k.startswith("_")}


def main(ck):
    if os.environ.get("C15_DEBUG"):
        orig = ck.fail
        seen = {}

        def fail(clause, case, info=None, **kw):
            k = (clause, json.dumps(info, sort_keys=True))
            seen[k] = seen.get(k, 0) + 1
            if seen[k] == 1:
                print("FAIL", clause, info, json.dumps({a: b for a, b in case.items() if a not in ("mesh",) and not a.startswith("_")})[:400],
                      str(kw.get("detail"))[:200])
            return orig(clause, case, info, **kw)
        ck.fail = fail
    import time
    t0 = time.time()
    ck.check_props()
    ok = ck.build_driver()
    t_build = time.time() - t0
    import warnings
    warnings.filterwarnings("ignore")
    cases = gen_cases(ck)
    ck.cov["rule"] = ("corpus + antimeridian index sets on sphere tilings (with / without crossing and polar faces) + every "
                      "combination of export (GeoDataFrame / PolyCollection / LineCollection) x level (Grid / UxDataArray) x "
                      "periodic_elements x engine x projection class (none / central longitude 0 / shifted central longitude / "
                      "Orthographic with NaN) + histories of 1-4 earlier conversions with other arguments, variables, cache and "
                      "override flags, the final call biased to hit a cache; non-trivial = every case; distinct = distinct "
                      "(mesh, calls)")
    kinds, raises = {}, {}
    pending, results = {}, []
    for idx, c in enumerate(cases):
        ck.note_case(json.dumps(strip(c), sort_keys=True, default=str), True)
        kinds[c["kind"]] = kinds.get(c["kind"], 0) + 1
        try:
            res, mreq = RUNNERS[c["kind"]](ck, c)
        except Exception:
            import traceback
            ck.proof["errors"].append("harness error on case %s: %s" % (json.dumps(strip(c))[:300], traceback.format_exc()[-900:]))
            continue
        if res.get("raises"):
            key = res["raises"].split(":")[0]
            raises[key] = raises.get(key, 0) + 1
        results.append((c, res, mreq))
        if mreq is not None:
            pending.setdefault(mreq[0], []).append((len(results) - 1, mreq[1]))
        if len(ck.cov["samples"]) < 4 and c["kind"] != "am" and idx % 11 == 0:
            ck.sample({"case": {k: v for k, v in strip(c).items() if k != "mesh"}, "n_face": len(c["mesh"]["faces"]),
                       "impl": {k: v for k, v in res.items() if k in ("faces", "am", "diff", "altered", "raises")}})
    matched = {}
    if ok:
        for cmd, lst in pending.items():
            variants = [0, 1] if any("@V" in l for _, l in lst) else [0]
            outs = {v: ck.run_model(cmd, [l.replace("@V", str(v)) for _, l in lst]) for v in variants}
            for j, (ri, _) in enumerate(lst):
                c, res, _ = results[ri]
                fails = {}
                for v in variants:
                    mo = outs[v][j]
                    keep = ck.corr_failures
                    ck.corr_failures = []
                    if isinstance(mo, list) and mo and mo[0] == "ERR":
                        ck.corr_failures.append({"case": strip(c), "model": mo})
                    else:
                        CMPS[c["kind"]](ck, c if c["kind"] == "hist" else strip(c), res, mo)
                    fails[v] = ck.corr_failures
                    ck.corr_failures = keep
                good = [v for v in variants if not fails[v]]
                if good:
                    tag = "both" if len(good) == 2 else ("as_written" if good[0] == 0 else "repaired")
                    matched.setdefault(c["kind"], {}).setdefault(tag, 0)
                    matched[c["kind"]][tag] += 1
                else:
                    ck.corr_failures += [{k: (strip(v) if k == "case" else v) for k, v in f.items()} for f in fails[0]]
    if os.environ.get("C15_DEBUG"):
        for cf in ck.corr_failures[:40]:
            print("CORR", json.dumps({k: (v if k != "case" else {kk: vv for kk, vv in v.items() if kk != "mesh"}) for k, v in cf.items()}, default=str)[:900])
    if ck.tier == "thorough":
        rc, out = common.sh("timeout 900 coqchk -silent -o -Q . Verif Verif.Props.C15_props", cwd=common.COQ, timeout=1000)
        ck.extra["coqchk"] = "ok" if rc == 0 and "Axioms: <none>" in out else out[-400:]
        if rc != 0:
            ck.proof["errors"].append("coqchk failed: " + out[-600:])
    hist_diffs = {}
    for c, res, _ in results:
        if c["kind"] == "hist":
            for dd in res.get("diffs", []):
                hist_diffs[str(dd)] = hist_diffs.get(str(dd), 0) + 1
    ck.extra.update({"case_kinds": kinds, "model_variant_matched": matched, "conversions_that_raise": raises,
                     "seconds_build_and_proof_check (incl. waiting for the shared build lock)": round(t_build, 1),
                     "history_steps_vs_fresh": hist_diffs,
                     "clauses_checked_on_impl": ["am_faces", "polygon_vertices", "polygon_face_bijection", "split_pieces",
                                                 "index_table", "data_attached", "cache_dependent", "returned_object_altered"],
                     "tolerance": "vertices: 8 x float32 eps x max(1,|coordinate|); longitudes integer micro-degrees, every >= 180 "
                                  "decision and the seam kept clear by 3e-3 degree; split pieces: 1e-3 degree vertex match, 1e-3 relative area",
                     "projections": [p for p in PROJS if p],
                     "note_projection": "cartopy 0.26 PlateCarree has no lon_0 in proj4_params: every export with "
                                        "projection=PlateCarree() raises KeyError in _correct_central_longitude (environment); not used"})
    ck.trusted += ["oracles: cartopy transform_points for projected corners and NaN flags, shapely/antimeridian output is only "
                   "checked (no piece spans the seam, corners kept, only seam/pole points added, area kept), numpy float32 rounding",
                   "cache key lists of the three Grid.to_* methods are regenerated from the source by a fail-closed ast translator "
                   "(harness/translators/c15_keys.py)"]
    ck.assumptions += ["the antimeridian is the one of the requested projection (longitudes shifted by its central longitude), as the "
                       "exports compute it; Grid.antimeridian_face_indices uses the unshifted frame",
                       "with a projection, polygons whose projected shell contains NaN may be left out (the property does not say)",
                       "a conversion that raises is not a wrong result; it counts only when it raises after a history but not on a fresh grid",
                       "hidden keyword arguments (project=, exclude_nan_polygons=, exclude_antimeridian=, matplotlib kwargs) are not varied"]


def replay(ck, rp):
    c = rp["case"]
    ck.note_case(json.dumps(strip(c), sort_keys=True, default=str))
    ck.note_case("replay")
    import warnings
    warnings.filterwarnings("ignore")
    RUNNERS[c["kind"]](ck, c)
