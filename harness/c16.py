"""C16 — edge distances, differences and gradients follow the edge's own neighbours.

Proof: coq/Props/C16_props.v about coq/Model/C16.v (exact Q model of the difference / gradient
kernels along leading dimensions, the index plan of the two distance kernels, law of cosines = angle
of unit vectors, l2 normalisation over R).
Tie: the real Grid / UxDataArray methods are run on generated grids (any size mix, boundary edges,
n_face <, =, > n_node, source-supplied distance tables) and data (rank 1-3, several dtypes); the
clauses are evaluated on the implementation's output against a 30-digit geodesic oracle and exact
rational arithmetic; the extracted model is run on the same connectivity/data and compared.
"""
import json
import os
import sys
from fractions import Fraction

import numpy as np

import common
import meshgen
from common import FILL, sx

sys.path.insert(0, os.path.join(common.VERIF, ".pydeps"))
import mpmath as mp  # noqa: E402

mp.mp.dps = 30


# ---------------------------------------------------------------------------------------------
# oracle

def unit(lon_deg, lat_deg):
    lo, la = mp.radians(mp.mpf(float(lon_deg))), mp.radians(mp.mpf(float(lat_deg)))
    return (mp.cos(lo) * mp.cos(la), mp.sin(lo) * mp.cos(la), mp.sin(la))


def geodesic(a, b):
    """angle between two unit vectors (stable for small and near-antipodal angles)"""
    cx = (a[1] * b[2] - a[2] * b[1], a[2] * b[0] - a[0] * b[2], a[0] * b[1] - a[1] * b[0])
    return mp.atan2(mp.sqrt(cx[0] ** 2 + cx[1] ** 2 + cx[2] ** 2), a[0] * b[0] + a[1] * b[1] + a[2] * b[2])


def dist_tol(d):
    """allowed deviation of a float64 great-circle distance d: relative 1e-9 plus the conditioning of
    arccos (an error of a few ulp in the cosine moves the angle by ulp / sin d)"""
    d = float(d)
    return 1e-9 * d + 2e-15 / max(abs(np.sin(d)), 1e-7)


def frac(x):
    return Fraction(*float(x).as_integer_ratio())


# ---------------------------------------------------------------------------------------------
# cases

DTYPES = ["float64", "float64", "int64", "float32", "uint8"]


def gen_case(rng, shape_class=None, big=False):
    want = shape_class or rng.choice(["any", "any", "F>V", "F<V", "F=V"])
    m = None
    for _ in range(40):
        if want == "F=V" and rng.random() < 0.5:
            cand = meshgen.gen_mesh(rng, max_ops=0, partial=False, seeds=["tetra"])
        else:
            cand = meshgen.gen_mesh(rng, max_ops=14 if big else 6)
        f, v = len(cand.faces), len(cand.nodes)
        if want == "any" or (want == "F>V" and f > v) or (want == "F<V" and f < v) or (want == "F=V" and f == v):
            m = cand
            break
    if m is None:
        m = cand
    # MPAS-format source (in memory): the mesh as primal cells, or — closed meshes — read as the dual
    mpas = None
    if rng.random() < 0.22:
        mpas = {"mode": "primal", "int_dtype": rng.choice(["int64", "int64", "int32"]),
                "pad_junk": rng.random() < 0.5, "edges_on_cell": rng.random() < 0.5,
                "lon_0_2pi": rng.random() < 0.5}
        if m.closed and rng.random() < 0.5:
            d = meshgen.dual(m)
            if len(d.faces) == len(m.nodes) and all(3 <= len(f) <= 8 for f in d.faces) and d.is_manifold():
                plon, plat = m.lonlat()
                mpas.update({"mode": "dual", "p_lon": [float(x) for x in plon], "p_lat": [float(x) for x in plat],
                             "p_faces": [list(f) for f in m.faces]})
                m = d           # what the Grid must describe: nodes = cells, faces = rings around vertices
    lon, lat = m.lonlat()
    n_face = len(m.faces)
    rank = rng.choice([1, 1, 2, 2, 3])
    lead = [rng.randrange(1, 4) for _ in range(rank - 1)]
    dtype = rng.choice(DTYPES)
    kind = rng.choice(["face", "face", "node"])
    n_el = n_face if kind == "face" else len(m.nodes)
    style = rng.choice(["int", "int", "real", "const", "dyadic"])
    total = int(np.prod(lead)) * n_el if lead else n_el
    if dtype == "uint8":
        vals = [rng.randrange(0, 256) for _ in range(total)]
        if style == "const":
            vals = [vals[0]] * total
    elif style == "int" or dtype == "int64":
        vals = [rng.randrange(-50, 51) for _ in range(total)]
    elif style == "real":
        vals = [rng.uniform(-1e3, 1e3) for _ in range(total)]
    elif style == "dyadic":
        vals = [rng.randrange(-4096, 4097) / 64.0 for _ in range(total)]
    else:
        c0 = rng.choice([0.0, 3.5, -7.25, 1e6])
        vals = [c0] * total
    if style == "const" and dtype in ("int64",):
        vals = [7] * total
    case = {
        "lon": [float(x) for x in lon], "lat": [float(x) for x in lat],
        "faces": [list(f) for f in m.faces], "width_extra": rng.choice([0, 0, 1]),
        "closed": bool(m.closed), "name": m.name,
        "sup_end": rng.random() < 0.25, "sup_efd": rng.random() < 0.4,
        "sup_seed": rng.randrange(1 << 30),
        "face_centres": rng.choice(["derived", "derived", "supplied"]),
        "kind": kind, "lead": lead, "dtype": dtype, "style": style, "vals": vals,
        "normalize": rng.random() < 0.5,
        # provenance of the node coordinates (as in C04): lon/lat only, Cartesian only, both;
        # supplied Cartesian coordinates on the unit sphere or on a sphere of another radius
        # connectivity provenance: derived by the library, or supplied by the source in a legitimate but
        # non-canonical form (edges in arbitrary order, node pairs in either orientation, the two faces of
        # an interior edge in either order incl. face 0 second; edge_node only / edge_face only / both)
        "conn": rng.choice(["derived", "derived", "supplied_both", "supplied_both", "supplied_edge_nodes",
                            "supplied_both_via_from_topology"]),
        "conn_seed": rng.randrange(1 << 30),
        "node_prov": rng.choice(["ll", "ll", "xyz", "xyz", "both"]),
        "radius": rng.choice([1.0, 1.0, 6371.229, 0.37]),
    }
    if mpas is not None:
        case["mpas"] = mpas
        case["conn"] = "mpas_" + mpas["mode"]
        case["node_prov"] = "ll"
        case["face_centres"] = "supplied"
    # history on the one Grid object: reads of the two distance tables and data operations in random
    # order, some repeated; every table is read again at the end
    ops = ["end", "efd", "diff", "grad", "gradn"]
    hist = [rng.choice(ops) for _ in range(rng.randrange(0, 5))]
    rest = [o for o in ops if o not in hist]
    rng.shuffle(rest)
    case["history"] = hist + rest + [rng.choice(["grad", "gradn", "diff"])]
    return case


def table_of(case):
    w = max(len(f) for f in case["faces"]) + case["width_extra"]
    return np.array([f + [FILL] * (w - len(f)) for f in case["faces"]], dtype=np.intp)


def supplied_connectivity(case):
    """the source's own edge tables: the canonical ones (sorted node pairs; faces of each edge in face
    order) with rows permuted, node pairs reversed at random and the two faces of interior rows swapped
    at random — at least one row lists face 0 second when face 0 has an interior edge"""
    import random
    r = random.Random(case["conn_seed"])
    mp_ = {}
    for fi, f in enumerate(case["faces"]):
        for j in range(len(f)):
            a, b = f[j], f[(j + 1) % len(f)]
            mp_.setdefault((min(a, b), max(a, b)), []).append(fi)
    rows = sorted(mp_.items())
    if any(len(fs) > 2 for _, fs in rows):
        return None
    r.shuffle(rows)
    en, ef = [], []
    zero_second = False
    for (a, b), fs in rows:
        en.append([b, a] if r.random() < 0.5 else [a, b])
        if len(fs) == 2:
            f0, f1 = fs
            if (f0 == 0 and not zero_second) or (f0 != 0 and r.random() < 0.5):
                f0, f1 = f1, f0
                zero_second = zero_second or f1 == 0
            ef.append([f0, f1])
        else:
            ef.append([fs[0], FILL])
    return np.array(en, dtype=np.intp), np.array(ef, dtype=np.intp)


def cell_centres(lon, lat, faces):
    out_lo, out_la = [], []
    for f in faces:
        v = [sum(float(unit(lon[i], lat[i])[a]) for i in f) / len(f) for a in range(3)]
        n = sum(c * c for c in v) ** 0.5
        v = [c / n for c in v]
        out_lo.append(float(np.degrees(np.arctan2(v[1], v[0]))))
        out_la.append(float(np.degrees(np.arcsin(max(-1.0, min(1.0, v[2]))))))
    return out_lo, out_la


def mpas_dataset(case):
    """an MPAS-format mesh dataset held in memory (1-based tables, 0 = missing, radians)"""
    import random
    import xarray as xr
    mp_ = case["mpas"]
    r = random.Random(case["conn_seed"])
    if mp_["mode"] == "dual":
        plon, plat, pfaces = mp_["p_lon"], mp_["p_lat"], mp_["p_faces"]
        clon, clat = case["lon"], case["lat"]            # cell centres = the dual's nodes
        rings = case["faces"]                            # cells around every vertex, cyclic
    else:
        plon, plat, pfaces = case["lon"], case["lat"], case["faces"]
        clon, clat = cell_centres(plon, plat, pfaces)
        rings = [[] for _ in plon]
        for ci, f in enumerate(pfaces):
            for v in f:
                rings[v].append(ci)
    it = np.dtype(mp_["int_dtype"])
    n_cells, n_vert = len(pfaces), len(plon)
    width = max(len(f) for f in pfaces) + case["width_extra"]
    voc = np.zeros((n_cells, width), dtype=it)
    for ci, f in enumerate(pfaces):
        voc[ci, :len(f)] = np.array(f) + 1
        if mp_["pad_junk"]:
            voc[ci, len(f):] = f[-1] + 1                 # MPAS files often repeat the last vertex as padding
    deg = max(len(x) for x in rings)
    cov = np.zeros((n_vert, deg), dtype=it)
    for vi, cs in enumerate(rings):
        cov[vi, :len(cs)] = np.array(cs) + 1
    sc = supplied_connectivity({"faces": pfaces, "conn_seed": case["conn_seed"]})
    en, ef = sc
    voe = (en + 1).astype(it)
    coe = np.where(ef == FILL, 0, ef + 1).astype(it)
    two_pi = lambda a: (a % 360.0) if mp_["lon_0_2pi"] else a
    ds = xr.Dataset()
    ds["verticesOnCell"] = xr.DataArray(voc, dims=["nCells", "maxEdges"])
    ds["nEdgesOnCell"] = xr.DataArray(np.array([len(f) for f in pfaces], dtype=it), dims=["nCells"])
    ds["cellsOnVertex"] = xr.DataArray(cov, dims=["nVertices", "vertexDegree"])
    ds["verticesOnEdge"] = xr.DataArray(voe, dims=["nEdges", "TWO"])
    ds["cellsOnEdge"] = xr.DataArray(coe, dims=["nEdges", "TWO"])
    ds["lonVertex"] = xr.DataArray(np.deg2rad(two_pi(np.array(plon, float))), dims=["nVertices"])
    ds["latVertex"] = xr.DataArray(np.deg2rad(np.array(plat, float)), dims=["nVertices"])
    ds["lonCell"] = xr.DataArray(np.deg2rad(two_pi(np.array(clon, float))), dims=["nCells"])
    ds["latCell"] = xr.DataArray(np.deg2rad(np.array(clat, float)), dims=["nCells"])
    if mp_["edges_on_cell"] and mp_["mode"] == "primal":
        idx = {(min(int(a), int(b)), max(int(a), int(b))): i for i, (a, b) in enumerate(en)}
        eoc = np.zeros((n_cells, width), dtype=it)
        for ci, f in enumerate(pfaces):
            for j in range(len(f)):
                a, b = f[j], f[(j + 1) % len(f)]
                eoc[ci, j] = idx[(min(a, b), max(a, b))] + 1
        ds["edgesOnCell"] = xr.DataArray(eoc, dims=["nCells", "maxEdges"])
    supplied = {}
    if case["sup_end"]:
        supplied["edge_node_distances"] = np.array([r.randrange(1, 1 << 22) / 1024.0 for _ in range(len(en))])
        ds["dvEdge"] = xr.DataArray(supplied["edge_node_distances"].copy(), dims=["nEdges"])
    if case["sup_efd"]:
        supplied["edge_face_distances"] = np.array([r.randrange(1, 1 << 22) / 1024.0 for _ in range(len(en))])
        ds["dcEdge"] = xr.DataArray(supplied["edge_face_distances"].copy(), dims=["nEdges"])
    ds.attrs["sphere_radius"] = 1.0
    return ds, supplied


class SourceObject:
    """ONE source (an xarray.Dataset or a set of arrays) from which a Grid can be built repeatedly"""

    def __init__(self, make, arrays, supplied):
        self.make, self.arrays, self.supplied = make, arrays, supplied
        self.before = {k: np.array(v).copy() for k, v in arrays.items()}

    def modified(self):
        return sorted(k for k, v in self.arrays.items()
                      if v.shape != self.before[k].shape or v.dtype != self.before[k].dtype
                      or not np.array_equal(v, self.before[k], equal_nan=(v.dtype.kind == "f")))


def build_source(case):
    import uxarray as ux
    if "mpas" in case:
        ds, supplied = mpas_dataset(case)
        dual = case["mpas"]["mode"] == "dual"
        arrays = {k: ds[k].values for k in ds.data_vars}          # the live arrays of the source
        return SourceObject(lambda: ux.Grid.from_dataset(ds, use_dual=dual), arrays, supplied)
    return build_grid(case, as_source=True)


def build_grid(case, as_source=False):
    """the Grid of a case; supplied tables follow the Grid's own edge numbering"""
    import random
    import uxarray as ux
    import xarray as xr
    from uxarray.conventions import ugrid
    lon = np.array(case["lon"], float)
    lat = np.array(case["lat"], float)
    ds = xr.Dataset()
    prov = case.get("node_prov", "ll")
    if prov in ("ll", "both"):
        ds["node_lon"] = xr.DataArray(lon.copy(), dims=["n_node"])
        ds["node_lat"] = xr.DataArray(lat.copy(), dims=["n_node"])
    if prov in ("xyz", "both"):
        rad = float(case.get("radius", 1.0))
        lo, la = np.deg2rad(lon), np.deg2rad(lat)
        ds["node_x"] = xr.DataArray(rad * np.cos(lo) * np.cos(la), dims=["n_node"])
        ds["node_y"] = xr.DataArray(rad * np.sin(lo) * np.cos(la), dims=["n_node"])
        ds["node_z"] = xr.DataArray(rad * np.sin(la), dims=["n_node"])
    ds["face_node_connectivity"] = xr.DataArray(table_of(case), dims=["n_face", "n_max_face_nodes"],
                                                attrs=dict(ugrid.FACE_NODE_CONNECTIVITY_ATTRS))
    r = random.Random(case["sup_seed"])
    supplied = {}
    if case["face_centres"] == "supplied":
        fl, fa = [], []
        for f in case["faces"]:
            v = [sum(float(unit(lon[i], lat[i])[a]) for i in f) / len(f) + r.uniform(-0.01, 0.01) for a in range(3)]
            n = sum(c * c for c in v) ** 0.5
            v = [c / n for c in v]
            fl.append(float(np.degrees(np.arctan2(v[1], v[0]))))
            fa.append(float(np.degrees(np.arcsin(max(-1.0, min(1.0, v[2]))))))
        ds["face_lon"] = xr.DataArray(np.array(fl), dims=["n_face"])
        ds["face_lat"] = xr.DataArray(np.array(fa), dims=["n_face"])
    conn = case.get("conn", "derived")
    sc = supplied_connectivity(case) if conn != "derived" else None
    if sc is None:
        conn = "derived"
    else:
        ds["edge_node_connectivity"] = xr.DataArray(sc[0].copy(), dims=list(ugrid.EDGE_NODE_CONNECTIVITY_DIMS),
                                                    attrs=dict(ugrid.EDGE_NODE_CONNECTIVITY_ATTRS))
        if conn != "supplied_edge_nodes":
            ds["edge_face_connectivity"] = xr.DataArray(sc[1].copy(), dims=list(ugrid.EDGE_FACE_CONNECTIVITY_DIMS),
                                                        attrs=dict(ugrid.EDGE_FACE_CONNECTIVITY_ATTRS))
        supplied["_edge_nodes"] = sc[0]
        if conn != "supplied_edge_nodes":
            supplied["_edge_faces"] = sc[1]
    if case["sup_end"] or case["sup_efd"]:
        if sc is not None:
            n_edge = len(sc[0])
        else:
            g0 = ux.Grid.from_topology(lon.copy(), lat.copy(), table_of(case), fill_value=FILL)
            n_edge = int(g0.n_edge)
        if case["sup_end"]:
            supplied["edge_node_distances"] = np.array([r.randrange(1, 1 << 22) / 1024.0 for _ in range(n_edge)])
        if case["sup_efd"]:
            supplied["edge_face_distances"] = np.array([r.randrange(1, 1 << 22) / 1024.0 for _ in range(n_edge)])
        for k, v in supplied.items():
            if not k.startswith("_"):
                ds[k] = xr.DataArray(v.copy(), dims=["n_edge"])
    if conn == "supplied_both_via_from_topology" and prov != "xyz" and not (case["sup_end"] or case["sup_efd"]):
        # the public constructor with the source's tables as keyword arguments (the SAME arrays every time)
        kw = {k: ds[k].values.copy() for k in ds.data_vars
              if k not in ("node_lon", "node_lat", "face_node_connectivity")}
        a_lon, a_lat, a_tab = lon.copy(), lat.copy(), table_of(case)
        arrays = dict(kw, node_lon=a_lon, node_lat=a_lat, face_node_connectivity=a_tab)
        make = lambda: ux.Grid.from_topology(a_lon, a_lat, a_tab, fill_value=FILL, **kw)
    else:
        # Grid(ds) keeps the Dataset object it is given: every build gets its own Dataset around the
        # SAME source arrays (shallow copy)
        arrays = {k: ds[k].values for k in ds.data_vars}
        make = lambda: ux.Grid(ds.copy(deep=False), source_grid_spec="UGRID")
    if as_source:
        return SourceObject(make, arrays, supplied)
    return make(), supplied


def data_array(case, g):
    import uxarray as ux
    n_el = len(case["faces"]) if case["kind"] == "face" else len(case["lon"])
    shape = list(case["lead"]) + [n_el]
    arr = np.array(case["vals"], dtype=np.float64).reshape(shape).astype(case["dtype"])
    dims = ["lev%d" % i for i in range(len(case["lead"]))] + ["n_" + case["kind"]]
    return ux.UxDataArray(arr.copy(), dims=dims, uxgrid=g, name="v"), arr


def edge_faces_truth(case, edge_nodes):
    """for every edge (by its node pair): the faces that have it as a side"""
    mp_ = {}
    for fi, f in enumerate(case["faces"]):
        for j in range(len(f)):
            a, b = f[j], f[(j + 1) % len(f)]
            mp_.setdefault((min(a, b), max(a, b)), []).append(fi)
    return [mp_.get((min(int(a), int(b)), max(int(a), int(b))), []) for a, b in edge_nodes]


# ---------------------------------------------------------------------------------------------

def run_impl(case):
    """drive ONE Grid object through the case's history; every read of a distance table and every
    result of a data operation is recorded (copies), in order"""
    import itertools
    import uxarray as ux
    so = build_source(case)
    supplied = so.supplied
    # first build: its tables and results now ...
    g1 = so.make()
    q1 = quick_quantities(case, g1)
    # ... second build from the same source object: the grid the history runs on
    g = so.make()
    out = {"g": g, "supplied": supplied, "source": so, "g1": g1, "q1": q1}
    out["edge_nodes"] = np.asarray(g.edge_node_connectivity.values).copy()
    out["edge_faces"] = np.asarray(g.edge_face_connectivity.values).copy()
    out["n_edge"] = int(g.n_edge)
    da, arr = data_array(case, g)
    out["arr"] = arr
    out["da"] = da
    if case["kind"] == "face":
        fda = da
    else:
        # gradient calls of the history act on an auxiliary face-centred field (results not examined)
        fda = ux.UxDataArray(np.arange(len(case["faces"]), dtype=float) * 1.5, dims=["n_face"], uxgrid=g, name="aux")
    reads = {"end": [], "efd": []}
    results = {"diff": [], "grad": [], "gradn": []}
    trace = []
    present = lambda: [int("edge_node_distances" in g._ds), int("edge_face_distances" in g._ds)]
    presence = [present()]
    history = list(case.get("history") or ["end", "efd", "diff", "grad", "gradn"]) + ["end", "efd"]
    for op in history:
        trace.append(op)
        if op == "end":
            reads["end"].append((len(trace), np.asarray(g.edge_node_distances.values, dtype=float).copy()))
        elif op == "efd":
            reads["efd"].append((len(trace), np.asarray(g.edge_face_distances.values, dtype=float).copy()))
        elif op == "diff":
            results["diff"].append(da.difference(destination="edge"))
        elif op == "grad":
            r = fda.gradient(normalize=False)
            if fda is da:
                results["grad"].append(r)
        elif op == "gradn":
            r = fda.gradient(normalize=True)
            if fda is da:
                results["gradn"].append(r)
        presence.append(present())
    out["presence"] = presence
    out["history_run"] = history
    out["reads"] = reads
    out["end"] = reads["end"][-1][1]
    out["efd"] = reads["efd"][-1][1]
    out["results"] = results
    out["diff"] = results["diff"][0]
    if case["kind"] == "face":
        out["grad"] = results["grad"][0]
        out["gradn"] = results["gradn"][0]
    out["face_lon"] = np.asarray(g.face_lon.values, dtype=float).copy()
    out["face_lat"] = np.asarray(g.face_lat.values, dtype=float).copy()
    out["node_lon"] = np.asarray(g.node_lon.values, dtype=float).copy()
    out["node_lat"] = np.asarray(g.node_lat.values, dtype=float).copy()
    # independence along leading dimensions: the same call on every leading slice
    if case["lead"]:
        sl = []
        for idx in itertools.product(*[range(k) for k in case["lead"]]):
            sub = ux.UxDataArray(arr[idx].copy(), dims=["n_" + case["kind"]], uxgrid=g, name="v")
            sl.append((idx, np.asarray(sub.difference(destination="edge").values),
                       np.asarray(sub.gradient(normalize=False).values) if case["kind"] == "face" else None))
        out["slices"] = sl
    # the first grid again, after the second was built and used; the source object itself
    out["q1_again"] = quick_quantities(case, g1)
    out["source_modified"] = so.modified()
    # state after the history
    out["after"] = {
        "data": np.asarray(da.values).copy(), "data_dtype": str(da.dtype),
        "edge_nodes": np.asarray(g.edge_node_connectivity.values).copy(),
        "edge_faces": np.asarray(g.edge_face_connectivity.values).copy(),
        "supplied": {k: np.asarray(g._ds[k].values).copy() for k in supplied if not k.startswith("_")},
    }
    return out


def quick_quantities(case, g):
    """every C16 quantity of a grid, without any history"""
    import uxarray as ux
    q = {"edge_nodes": np.asarray(g.edge_node_connectivity.values).copy(),
         "edge_faces": np.asarray(g.edge_face_connectivity.values).copy(),
         "end": np.asarray(g.edge_node_distances.values, dtype=float).copy(),
         "efd": np.asarray(g.edge_face_distances.values, dtype=float).copy()}
    da, _ = data_array(case, g)
    q["diff"] = np.asarray(da.difference(destination="edge").values).copy()
    fda = da if case["kind"] == "face" else ux.UxDataArray(
        np.arange(len(case["faces"]), dtype=float) * 1.5, dims=["n_face"], uxgrid=g, name="aux")
    q["grad"] = np.asarray(fda.gradient(normalize=False).values).copy()
    return q


def rep(ck, case, clause, info, detail=""):
    ck.fail(clause, case, info, detail=detail if isinstance(detail, str) else json.dumps(detail, default=str))
    case.setdefault("_failed", []).append((clause, info.get("signature", "")))


def spec_check(ck, case, o):
    import uxarray as ux
    g = o["g"]
    en, ef = o["edge_nodes"], o["edge_faces"]
    n_edge = o["n_edge"]
    # node directions: the source's own (case) coordinates, whatever system the Grid was given
    nl, na = case["lon"], case["lat"]
    nodes_u = [unit(nl[i], na[i]) for i in range(len(nl))]
    faces_u = [unit(o["face_lon"][i], o["face_lat"][i]) for i in range(len(o["face_lon"]))]
    tf = edge_faces_truth(case, en)
    n_node, n_face = len(nl), len(faces_u)
    base = {"n_face_vs_n_node": "F>V" if n_face > n_node else ("F<V" if n_face < n_node else "F=V"),
            "node_prov": case.get("node_prov", "ll"), "radius_is_one": float(case.get("radius", 1.0)) == 1.0,
            "connectivity": case.get("conn", "derived")}
    hist = list(case.get("history") or []) + ["end", "efd"]

    # ---- edge_node_distances: every read along the history
    true_end = [geodesic(nodes_u[int(en[e][0])], nodes_u[int(en[e][1])]) for e in range(n_edge)]
    for pos, tab in o["reads"]["end"]:
        info = dict(base, quantity="edge_node_distances", read_position=pos, after_ops=sorted(set(hist[:pos - 1])),
                    signature="other")
        if case["sup_end"]:
            if not np.array_equal(tab, o["supplied"]["edge_node_distances"]):
                rep(ck, case, "supplied_passthrough", info)
                break
            continue
        if tab.shape != (n_edge,):
            rep(ck, case, "shape", info)
            break
        bad = None
        for e in range(n_edge):
            v = float(tab[e])
            if not (np.isfinite(v) and abs(mp.mpf(v) - true_end[e]) <= dist_tol(true_end[e])):
                bad = e
                break
        if bad is not None:
            rep(ck, case, "edge_node_distance", info, {"edge": bad, "impl": float(tab[bad]), "truth": float(true_end[bad]),
                                                     "history": hist[:pos]})
            break

    # ---- edge_face_distances: every read along the history
    true_efd = []
    for e in range(n_edge):
        fs = tf[e]
        true_efd.append(geodesic(faces_u[fs[0]], faces_u[fs[1]]) if len(fs) == 2 else mp.mpf(0))
    if case["sup_efd"]:
        D = [frac(x) for x in o["supplied"]["edge_face_distances"]]
        Dtol = [0.0] * n_edge
    else:
        D = None
        Dtol = [dist_tol(t) for t in true_efd]
    for pos, tab in o["reads"]["efd"]:
        info = dict(base, quantity="edge_face_distances", read_position=pos, after_ops=sorted(set(hist[:pos - 1])),
                    signature="other")
        if case["sup_efd"]:
            if not np.array_equal(tab, o["supplied"]["edge_face_distances"]):
                rep(ck, case, "supplied_passthrough", info, {"history": hist[:pos]})
                break
            continue
        if tab.shape != (n_edge,):
            rep(ck, case, "shape", info)
            break
        bad = None
        for e in range(n_edge):
            v = float(tab[e])
            if len(tf[e]) != 2:
                if v != 0.0:
                    bad = (e, "boundary_not_zero")
                    break
                continue
            if not (np.isfinite(v) and abs(mp.mpf(v) - true_efd[e]) <= Dtol[e]):
                bad = (e, "interior")
                break
        if bad:
            rep(ck, case, "edge_face_distance", dict(info, signature=bad[1]),
                {"edge": bad[0], "impl": float(tab[bad[0]]), "truth": float(true_efd[bad[0]]), "history": hist[:pos]})
            break

    # ---- the history leaves tables, data and connectivity as they were
    for q in ("end", "efd"):
        first = o["reads"][q][0][1]
        for pos, tab in o["reads"][q][1:]:
            if not np.array_equal(first, tab, equal_nan=True):
                rep(ck, case, "table_changed_by_history", dict(base, quantity="edge_node_distances" if q == "end" else
                                                               "edge_face_distances", signature="other"),
                    {"first_read_at": o["reads"][q][0][0], "changed_at": pos, "history": hist[:pos]})
                break
    # one source, two grids: the second build must give what the first gave, must not disturb the
    # first, and the source's own arrays must come out unchanged
    if o.get("source_modified"):
        rep(ck, case, "source_tables_modified", dict(base, quantity=",".join(o["source_modified"])[:80], signature="other"),
            {"modified": o["source_modified"]})
    if "q1" in o:
        q1, q1b = o["q1"], o["q1_again"]
        q2 = {"edge_nodes": en, "edge_faces": ef, "end": o["reads"]["end"][0][1], "efd": o["reads"]["efd"][0][1],
              "diff": np.asarray(o["results"]["diff"][0].values)}
        for k in ("edge_nodes", "edge_faces", "end", "efd", "diff", "grad"):
            if not (q1[k].shape == q1b[k].shape and np.array_equal(q1[k], q1b[k], equal_nan=q1[k].dtype.kind == "f")):
                rep(ck, case, "first_grid_changed_by_second_build", dict(base, quantity=k, signature="other"))
                break
        for k in ("edge_nodes", "edge_faces", "end", "efd", "diff"):
            if not (q1[k].shape == q2[k].shape and np.array_equal(q1[k], q2[k], equal_nan=q1[k].dtype.kind == "f")):
                rep(ck, case, "second_build_differs", dict(base, quantity=k, signature="other"))
                break
    aft = o["after"]
    if aft["data_dtype"] != str(o["arr"].dtype) or not np.array_equal(aft["data"], o["arr"]):
        rep(ck, case, "data_changed_by_operation", dict(base, quantity="data", signature="other"))
    if not (np.array_equal(aft["edge_nodes"], en) and np.array_equal(aft["edge_faces"], ef)):
        rep(ck, case, "connectivity_changed_by_operation", dict(base, quantity="connectivity", signature="other"))
    for k, v in o["supplied"].items():
        if k.startswith("_"):
            continue
        if not np.array_equal(aft["supplied"][k], v):
            rep(ck, case, "supplied_table_changed", dict(base, quantity=k, signature="other"))
    for k, lst in o["results"].items():
        for r in lst[1:]:
            if not np.array_equal(np.asarray(lst[0].values), np.asarray(r.values), equal_nan=True):
                rep(ck, case, "result_depends_on_history", dict(base, quantity=k, signature="other"))
                break

    # ---- differences / gradients
    arr = o["arr"]
    lead = tuple(case["lead"])
    flat = arr.reshape((-1, arr.shape[-1]))
    exact = [[frac(x) for x in row] for row in flat]

    def meta(res, what):
        if not isinstance(res, ux.UxDataArray):
            rep(ck, case, "result_type", dict(base, quantity=what, signature="other"), type(res).__name__)
            return False
        if res.uxgrid is not g:
            rep(ck, case, "same_grid", dict(base, quantity=what, signature="other"))
        want_dims = tuple("lev%d" % i for i in range(len(lead))) + ("n_edge",)
        if tuple(res.dims) != want_dims or tuple(res.shape) != lead + (n_edge,):
            rep(ck, case, "edge_dimensioned", dict(base, quantity=what, signature="other"),
                {"dims": list(res.dims), "shape": list(res.shape)})
            return False
        return True

    diff = o["diff"]
    if meta(diff, "difference"):
        dv = np.asarray(diff.values).reshape((-1, n_edge))
        pairs = [tuple(int(x) for x in r) for r in en] if case["kind"] == "node" else None
        rtol = Fraction(1, 10 ** 6) if case["dtype"] == "float32" else Fraction(1, 10 ** 12)
        bad = None
        for r, row in enumerate(exact):
            for e in range(n_edge):
                if case["kind"] == "node":
                    want = abs(row[pairs[e][0]] - row[pairs[e][1]])
                else:
                    want = abs(row[tf[e][0]] - row[tf[e][1]]) if len(tf[e]) == 2 else Fraction(0)
                got = float(dv[r][e])
                if not np.isfinite(got) or abs(frac(got) - want) > rtol * want:
                    bad = (r, e, got, float(want))
                    break
            if bad:
                break
        if bad:
            sig = "other"
            if case["dtype"] == "uint8":
                sig = "unsigned_wraparound"
            rep(ck, case, "difference", dict(base, quantity="difference_" + case["kind"], dtype=case["dtype"], signature=sig),
                {"row": bad[0], "edge": bad[1], "impl": bad[2], "truth": bad[3]})
        if case["style"] == "const" and np.any(dv != 0):
            rep(ck, case, "constant_field_difference", dict(base, quantity="difference", dtype=case["dtype"], signature="other"))
        for idx, sd, _ in o.get("slices", []):
            if not np.array_equal(np.asarray(diff.values)[idx], sd, equal_nan=True):
                rep(ck, case, "leading_dims_independent", dict(base, quantity="difference", signature="other"))
                break

    if case["kind"] == "face":
        grad, gradn = o["grad"], o["gradn"]
        truth_rows = None
        if meta(grad, "gradient"):
            gv = np.asarray(grad.values).reshape((-1, n_edge))
            bad = None
            follows = True
            truth_rows = []
            for r, row in enumerate(exact):
                trow = []
                for e in range(n_edge):
                    if len(tf[e]) != 2:
                        want, tol = 0.0, 0.0
                    else:
                        dd = abs(row[tf[e][0]] - row[tf[e][1]])
                        if D is not None:
                            w = dd / D[e]
                            want, tol = float(w), float(w) * 1e-12
                        else:
                            dist = true_efd[e]
                            want = float(mp.mpf(dd.numerator) / dd.denominator / dist)
                            tol = abs(want) * (Dtol[e] / float(dist) + 1e-12)
                    trow.append(want)
                    got = float(gv[r][e])
                    if case["dtype"] == "float32":
                        tol += 1e-6 * abs(want)
                    if bad is None and not (np.isfinite(got) and abs(got - want) <= tol):
                        bad = (r, e, got, want)
                truth_rows.append(trow)
            follows_sig = "other"
            if D is None:
                # is it the (correct) difference divided by the table the Grid reports?
                dvv = np.asarray(diff.values, dtype=float).reshape((-1, n_edge))
                with np.errstate(all="ignore"):
                    alt = np.where(ef[:, 1] != FILL, dvv / o["efd"], dvv)
                if alt.shape == gv.shape and np.allclose(alt, gv, rtol=1e-12, atol=0, equal_nan=True):
                    follows_sig = "follows_reported_edge_face_distances"
            if bad:
                sig = follows_sig
                rep(ck, case, "gradient", dict(base, quantity="gradient", dtype=case["dtype"], efd_supplied=bool(case["sup_efd"]),
                                               signature=sig),
                    {"row": bad[0], "edge": bad[1], "impl": bad[2], "truth": bad[3]})
            if case["style"] == "const" and np.any(gv != 0):
                rep(ck, case, "constant_field_gradient", dict(base, quantity="gradient", efd_supplied=bool(case["sup_efd"]),
                                                              signature=follows_sig if np.any(np.isnan(gv)) else "other"))
            for idx, _, sg in o.get("slices", []):
                if not np.array_equal(np.asarray(grad.values)[idx], sg, equal_nan=True):
                    rep(ck, case, "leading_dims_independent", dict(base, quantity="gradient", signature="other"))
                    break
        if meta(gradn, "gradient_normalized") and truth_rows is not None:
            gn = np.asarray(gradn.values, dtype=float).reshape(-1)
            gt = np.asarray(np.asarray(grad.values), dtype=float).reshape(-1)
            if np.all(np.isfinite(gt)) and np.linalg.norm(gt) > 0:
                nrm = float(np.sqrt(np.sum(gn * gn)))
                if not (abs(nrm - 1.0) <= 1e-12):
                    rep(ck, case, "normalized_unit_norm", dict(base, quantity="gradient_normalized", signature="other"),
                        {"norm": nrm})
                else:
                    cosang = float(np.dot(gn, gt) / np.linalg.norm(gt))
                    if not (cosang >= 1 - 1e-9):
                        rep(ck, case, "normalized_is_rescaling", dict(base, quantity="gradient_normalized", signature="other"),
                            {"cos": cosang})


# ---------------------------------------------------------------------------------------------
# model side

def sxq(fr):
    return [fr.numerator, fr.denominator]


def pairs_sx(a):
    return [[int(x) for x in r] for r in a]


def model_lines(case, o):
    en, ef = pairs_sx(o["edge_nodes"]), pairs_sx(o["edge_faces"])
    plans = sx([1 if case["sup_end"] else 0, 1 if case["sup_efd"] else 0, en, ef])
    arr = o["arr"].reshape((-1, o["arr"].shape[-1]))
    rows = [[sxq(frac(x)) for x in row] for row in arr]
    # a non-finite or zero reported distance cannot be sent as a rational: use 1 (entry is not compared)
    dist = []
    for x in o["efd"]:
        x = float(x)
        dist.append(sxq(frac(x)) if np.isfinite(x) and x > 0 else [1, 1])
    data = sx([rows, en, ef, dist, 1 if case["kind"] == "node" else 0])
    codes = {"end": 0, "efd": 1, "diff": 2, "grad": 3, "gradn": 4}
    hist = sx([1 if case["sup_end"] else 0, 1 if case["sup_efd"] else 0, en, ef, [codes[h] for h in o["history_run"]]])
    return plans, data, hist


def compare_model(ck, case, o, mplans, mdata, stats):
    n_edge = o["n_edge"]
    nl, na = o["node_lon"], o["node_lat"]
    n_node = len(nl)
    coords = {1: (nl, na), 2: (o["face_lon"], o["face_lat"])}
    for which, plan, impl in (("end", mplans[0], o["end"]), ("efd", mplans[1], o["efd"])):
        if len(plan) != n_edge:
            return {"why": "plan length", "table": which}
        sup = o["supplied"].get("edge_node_distances" if which == "end" else "edge_face_distances")
        for e, (tag, i, j) in enumerate(plan):
            v = float(impl[e])
            if tag == 0:
                if v != 0.0:
                    return {"why": "zero entry", "table": which, "edge": e, "impl": v}
            elif tag == 3:
                if sup is None or v != float(sup[i]):
                    return {"why": "supplied entry", "table": which, "edge": e}
            else:
                lo, la = coords[tag]
                if i >= len(lo) or j >= len(lo) or i < 0 or j < 0:
                    stats["plan_entries_out_of_range"] = stats.get("plan_entries_out_of_range", 0) + 1
                    continue
                t = geodesic(unit(lo[i], la[i]), unit(lo[j], la[j]))
                if np.isnan(v) and (t < 1e-6 or t > mp.pi - 1e-6):
                    stats["arccos_domain_rounding"] = stats.get("arccos_domain_rounding", 0) + 1
                    continue
                if not (np.isfinite(v) and abs(mp.mpf(v) - t) <= dist_tol(t)):
                    return {"why": "geodesic entry", "table": which, "edge": e, "plan": [tag, i, j], "impl": v,
                            "model": float(t)}
    mdiff, mgrad = mdata
    dv = np.asarray(o["diff"].values, dtype=float).reshape((-1, n_edge))
    rtol = Fraction(1, 10 ** 6) if case["dtype"] == "float32" else Fraction(1, 10 ** 12)
    for r, row in enumerate(mdiff):
        for e, (n, d) in enumerate(row):
            want = Fraction(n, d)
            got = float(dv[r][e])
            if not np.isfinite(got) or abs(frac(got) - want) > rtol * want:
                return {"why": "difference", "row": r, "edge": e, "impl": got, "model": float(want)}
    if case["kind"] == "face":
        gv = np.asarray(o["grad"].values, dtype=float).reshape((-1, n_edge))
        for r, row in enumerate(mgrad):
            for e, (n, d) in enumerate(row):
                x = float(o["efd"][e])
                if o["edge_faces"][e][1] != FILL and not (np.isfinite(x) and x > 0):
                    continue
                want = Fraction(n, d)
                got = float(gv[r][e])
                tol = rtol * abs(want)
                if not np.isfinite(got) or abs(frac(got) - want) > tol:
                    return {"why": "gradient", "row": r, "edge": e, "impl": got, "model": float(want)}
    return None


# ---------------------------------------------------------------------------------------------

def run_case(ck, case, stats, want_model=True):
    try:
        o = run_impl(case)
    except Exception as ex:
        import traceback
        rep(ck, case, "raises", {"quantity": "any", "signature": type(ex).__name__, "dtype": case["dtype"]},
            traceback.format_exc()[-1500:])
        return None
    spec_check(ck, case, o)
    for f in case.get("_failed", []):
        stats.setdefault("impl_failures", {})
        k = "%s/%s" % f
        stats["impl_failures"][k] = stats["impl_failures"].get(k, 0) + 1
    return o


def gen_cases(ck):
    rng = ck.rng
    cases = []
    cdir = os.path.join(common.VERIF, "corpus", "C16")
    if os.path.isdir(cdir):
        for fn in sorted(os.listdir(cdir)):
            cases.append(json.load(open(os.path.join(cdir, fn))))
    quick = ck.tier == "quick"
    n = 500 if quick else 10000
    classes = ["any", "any", "F>V", "F<V", "F=V"]
    for i in range(n):
        cases.append(gen_case(rng, shape_class=classes[i % len(classes)], big=(not quick and i % 8 == 0)))
    return cases


def main(ck):
    ck.check_props()
    ok = ck.build_driver()
    import warnings
    warnings.filterwarnings("ignore")
    cases = gen_cases(ck)
    ck.cov["rule"] = (
        "sphere tilings from meshgen (9 polyhedra grown by split/subdivide/stellate/dual, 40% partial with boundary "
        "edges, renumbered, rotated incl. poles), selected so that n_face >, <, = n_node all occur (tetrahedron for "
        "F=V=4); distance tables derived or source-supplied (arbitrary positive tables in the Grid's edge order); face "
        "centres derived or supplied; node coordinates supplied as lon/lat only, Cartesian only or both, Cartesian on the unit "
        "sphere or on a sphere of radius 6371.229 / 0.37; one Grid object per case driven through a random history of reads of "
        "both distance tables, difference(), gradient(normalize=False/True) (some repeated), every table read again at the end: "
        "each read is checked, tables/data/connectivity/supplied tables must be unchanged, repeated calls must agree; "
        "edge_node_connectivity / edge_face_connectivity derived by the library or supplied by the source in non-canonical "
        "form (rows permuted, node pairs reversed, faces of interior edges swapped incl. face 0 second; through Grid(ds) and "
        "Grid.from_topology keywords) or as an MPAS-format dataset held in memory (int64 / int32 tables, padding 0 or repeated, "
        "optional edgesOnCell/dvEdge/dcEdge, read as primal or — closed meshes — as dual); every case builds the Grid TWICE from "
        "the same source object: the second grid runs the history, the first is re-examined afterwards, the source arrays are "
        "compared before/after; data face- or node-centred, rank 1-3, dtypes float64/int64/float32/uint8, integer, "
        "real, dyadic or constant values; difference(), gradient(normalize=False/True), each also per leading slice; "
        "non-trivial = grid has >= 2 faces; distinct = distinct (mesh name, sizes, flags, data)")
    stats = {}
    dist = {"size_relation": {}, "boundary_edges": 0, "rank": {}, "dtype": {}, "kind": {}, "sup_end": 0, "sup_efd": 0,
            "style": {}, "face_centres": {}, "node_prov": {}, "scaled_node_xyz": 0, "history_len": {},
            "table_reads_after_gradient": 0}
    outs = []
    for idx, c in enumerate(cases):
        key = (c["name"], len(c["lon"]), len(c["faces"]), c["sup_end"], c["sup_efd"], c["kind"], tuple(c["lead"]),
               c["dtype"], c["style"], tuple(c["vals"][:6]))
        ck.note_case(key, len(c["faces"]) >= 2)
        o = run_case(ck, c, stats)
        outs.append(o)
        nf, nv = len(c["faces"]), len(c["lon"])
        rel = "F>V" if nf > nv else ("F<V" if nf < nv else "F=V")
        dist["size_relation"][rel] = dist["size_relation"].get(rel, 0) + 1
        if o is not None and np.any(o["edge_faces"][:, 1] == FILL):
            dist["boundary_edges"] += 1
        for k2, v in (("rank", str(len(c["lead"]) + 1)), ("dtype", c["dtype"]), ("kind", c["kind"]), ("style", c["style"]),
                      ("face_centres", c["face_centres"])):
            dist[k2][v] = dist[k2].get(v, 0) + 1
        cm = c.get("conn", "derived")
        dist.setdefault("connectivity", {})
        dist["connectivity"][cm] = dist["connectivity"].get(cm, 0) + 1
        if o is not None and "_edge_faces" in o["supplied"]:
            dist["supplied_edge_face_kept"] = dist.get("supplied_edge_face_kept", 0) + int(
                np.array_equal(o["edge_faces"], o["supplied"]["_edge_faces"]))
            dist["rows_with_face0_second"] = dist.get("rows_with_face0_second", 0) + int(
                np.any(o["edge_faces"][:, 1] == 0))
        if o is not None and "_edge_nodes" in o["supplied"]:
            dist["supplied_edge_node_kept"] = dist.get("supplied_edge_node_kept", 0) + int(
                np.array_equal(o["edge_nodes"], o["supplied"]["_edge_nodes"]))
        np_ = c.get("node_prov", "ll")
        dist["node_prov"][np_] = dist["node_prov"].get(np_, 0) + 1
        dist["scaled_node_xyz"] += int(np_ != "ll" and float(c.get("radius", 1.0)) != 1.0)
        hl = str(len(c.get("history") or []))
        dist["history_len"][hl] = dist["history_len"].get(hl, 0) + 1
        hh = list(c.get("history") or [])
        dist["table_reads_after_gradient"] += int(any(h in ("grad", "gradn") for h in hh))
        dist["sup_end"] += int(c["sup_end"])
        dist["sup_efd"] += int(c["sup_efd"])
        if o is not None and len(ck.cov["samples"]) < 4 and idx % 61 == 0:
            ck.sample({"mesh": c["name"], "n_node": nv, "n_face": nf, "n_edge": o["n_edge"], "kind": c["kind"],
                       "shape": c["lead"] + [nf if c["kind"] == "face" else nv], "dtype": c["dtype"],
                       "sup_end": c["sup_end"], "sup_efd": c["sup_efd"],
                       "edge_face_connectivity_head": [["F" if x == FILL else int(x) for x in r] for r in o["edge_faces"][:4]],
                       "edge_node_distances_head": [float(x) for x in o["end"][:4]],
                       "edge_face_distances_head": [float(x) for x in o["efd"][:4]]})
    # model on the same connectivity and data
    if ok:
        live = [(c, o) for c, o in zip(cases, outs) if o is not None]
        pl, dl, hl = [], [], []
        for c, o in live:
            a, b, h = model_lines(c, o)
            pl.append(a)
            dl.append(b)
            hl.append(h)
        mp_ = ck.run_model("plans", pl)
        md_ = ck.run_model("data", dl)
        mh_ = ck.run_model("history", hl)
        for (c, o), mh in zip(live, mh_):
            # which distance tables exist in Grid._ds after every step of the history
            if mh != o["presence"]:
                ck.corr_failures.append({"case": {k: v for k, v in c.items() if k not in ("vals", "_failed")},
                                         "diff": {"why": "table presence along the history", "model": mh,
                                                  "impl": o["presence"], "history": o["history_run"]}})
        stats["history_presence_compared"] = len(live)
        for (c, o), a, b in zip(live, mp_, md_):
            if (isinstance(a, list) and a and a[0] == "ERR") or (isinstance(b, list) and b and b[0] == "ERR"):
                ck.corr_failures.append({"case": {k: v for k, v in c.items() if k != "vals"}, "model": [a, b][:1]})
                continue
            d = compare_model(ck, c, o, a, b, stats)
            if d:
                ck.corr_failures.append({"case": {k: v for k, v in c.items() if k != "_failed"}, "diff": d})
        stats["model_compared_cases"] = len(live)
        audit_n = audit(ck, live[:25], pl[:25], mp_[:25])
    else:
        audit_n = 0
    ck.extra.update({
        "distribution": dist, "impl_vs_model": stats, "extraction_audit_cases": audit_n,
        "tolerances": {"distance": "1e-9*d + 2e-15/max(sin d, 1e-7)", "difference_rel": 1e-12, "gradient_rel": "1e-12 + distance tolerance",
                       "float32_data_rel": 1e-6, "unit_norm": 1e-12},
        "clauses_checked_on_impl": ["edge_node_distance", "edge_face_distance", "supplied_passthrough", "difference",
                                    "gradient", "constant_field_difference", "constant_field_gradient", "normalized_unit_norm",
                                    "normalized_is_rescaling", "leading_dims_independent", "edge_dimensioned", "same_grid",
                                    "result_type", "shape", "table_changed_by_history", "data_changed_by_operation",
                                    "connectivity_changed_by_operation", "supplied_table_changed", "result_depends_on_history",
                                    "source_tables_modified", "first_grid_changed_by_second_build", "second_build_differs"],
        "partial": "float rounding is not modelled (exact Q / R statements; deviation validated with the tolerances above); "
                   "arccos is not evaluated in the extracted model: the model fixes WHICH coordinates every table entry is "
                   "computed from, the geodesic itself is evaluated by the 30-digit oracle",
    })
    ck.trusted += ["numpy fancy indexing / broadcasting along leading axes as modelled (d[..., idx])",
                   "mpmath (30 digits) geodesic oracle; fractions.Fraction for data"]
    ck.assumptions += ["edge_node_connectivity / edge_face_connectivity / face centres are correct (C02, C03, C04): the oracle "
                       "recomputes the faces of every edge from the face table and reads the Grid's reported face centres",
                       "the face dimension is the last dimension of the data (the property speaks of leading dimensions)"]


def audit(ck, live, plines, mres):
    import re
    lines = []
    for (c, o), _ in zip(live, plines):
        en = ";".join("(%d,%d)" % (int(a), int(b)) for a, b in o["edge_nodes"])
        ef = ";".join("(%d,%s)" % (int(a), "FILL" if b == FILL else str(int(b))) for a, b in o["edge_faces"])
        lines.append("Eval vm_compute in (c16_plans %s %s [%s]%%Z [%s]%%Z)." % (
            "true" if c["sup_end"] else "false", "true" if c["sup_efd"] else "false", en, ef))
    rc, out = ck.audit_vm(lines, "From Verif Require Import Base C16.\nOpen Scope Z_scope.")
    if rc != 0:
        ck.proof["errors"].append("in-kernel audit failed: " + out[-800:])
        return 0
    blocks = re.split(r"(?m)^\s*= ", out)[1:]
    n = 0
    for b, mo in zip(blocks, mres):
        body = b.split("\n     :")[0]
        nums = re.findall(r"-?\d+", body)
        flat = []

        def fl(v):
            if isinstance(v, list):
                for q in v:
                    fl(q)
            else:
                flat.append(str(v))
        fl(mo)
        if nums != flat:
            ck.proof["errors"].append("extraction audit mismatch: kernel %s vs extracted %s" % (nums[:20], flat[:20]))
        n += 1
    if len(blocks) != len(live):
        ck.proof["errors"].append("extraction audit: %d answers for %d cases" % (len(blocks), len(live)))
    return n


def replay(ck, rp):
    import warnings
    warnings.filterwarnings("ignore")
    case = {k: v for k, v in rp["case"].items() if k != "_failed"}
    ck.note_case("replay")
    ck.note_case(json.dumps(case, sort_keys=True, default=str))
    run_case(ck, case, {})
