"""C17 — topological aggregations reduce over exactly each element's corner nodes.

Proof: coq/Props/C17_props.v (about coq/Model/C17.v; parametric in the reduction, every
standard-form table, every number of leading indices).
Tie: the extracted model (c17face / c17edge / c17parts / c17dispatch) and the real
`UxDataArray.topological_<agg>(destination=...)` run on the same generated grids and node data;
the property clauses are evaluated directly on the implementation's output against an exact
rational per-element reference (fractions.Fraction), NaN/inf data against NumPy applied per
element.
"""
import itertools
import json
import math
import os
import re
import warnings
from fractions import Fraction

import numpy as np

import common
import meshgen
from common import FILL, sx

AGGS = ["mean", "max", "min", "prod", "sum", "std", "var", "median", "all", "any"]   # index = model code
NP = {"mean": np.mean, "max": np.max, "min": np.min, "prod": np.prod, "sum": np.sum, "std": np.std,
      "var": np.var, "median": np.median, "all": np.all, "any": np.any}
DEST_DIM = {"face": "n_face", "edge": "n_edge"}
NOTLAST_AGGS = ["sum", "mean", "max"]
TOL = {"float": 1e-12, "float32": 2e-5, "int": 1e-12, "int32": 1e-12, "bool": 1e-12}
NP_DTYPE = {"float": np.float64, "float32": np.float32, "int": np.int64, "int32": np.int32, "bool": np.bool_}


# ---------------------------------------------------------------------------------------------
# data encoding (JSON-safe, bit exact)

def enc_val(v):
    if isinstance(v, (bool, np.bool_)):
        return bool(v)
    if isinstance(v, (int, np.integer)):
        return int(v)
    return float(v).hex() if math.isfinite(v) else repr(float(v))


def dec_val(v):
    if isinstance(v, str):
        return float.fromhex(v) if v not in ("nan", "inf", "-inf") else float(v)
    return v


def make_array(d):
    flat = [dec_val(v) for v in d["flat"]]
    return np.array(flat, dtype=NP_DTYPE[d["dtype"]]).reshape(d["shape"])


# ---------------------------------------------------------------------------------------------
# exact reference

def exact_aggs(vals):
    """all ten reductions of a non-empty list of Fractions; std is returned as its square"""
    n = len(vals)
    s = sum(vals)
    mean = s / n
    var = sum((x - mean) ** 2 for x in vals) / n
    p = Fraction(1)
    for x in vals:
        p *= x
    srt = sorted(vals)
    med = srt[n // 2] if n % 2 else (srt[n // 2 - 1] + srt[n // 2]) / 2
    return {"mean": mean, "max": max(vals), "min": min(vals), "prod": p, "sum": s, "std": var, "var": var,
            "median": med, "all": Fraction(int(all(x != 0 for x in vals))),
            "any": Fraction(int(any(x != 0 for x in vals)))}


def value_ok(agg, got, exp, n, scale, dtype):
    """got: python float/int/bool from the implementation; exp: Fraction (std: variance)."""
    try:
        g = Fraction(got)
    except (ValueError, OverflowError):
        return False
    if agg in ("max", "min", "all", "any"):
        return g == exp
    if agg == "median" and n % 2 == 1 and (dtype in ("float", "float32") or abs(exp) < 2 ** 53):
        return g == exp                     # (np.median of integers is a float64 by NumPy's own definition)
    if dtype in ("int", "int32", "bool") and agg in ("sum", "prod") and abs(exp) < 2 ** 53:
        return g == exp
    tol = TOL[dtype]
    if agg == "std":
        e = math.sqrt(exp)
        return abs(float(g) - e) <= tol * float(scale)
    if agg == "var":
        return abs(g - exp) <= Fraction(tol) * scale * scale
    if agg == "sum":
        return abs(g - exp) <= Fraction(tol) * scale * n
    if agg == "prod":
        return abs(g - exp) <= Fraction(tol) * abs(exp)
    return abs(g - exp) <= Fraction(tol) * scale            # mean, median


def elements_of(table, edges):
    faces = [[x for x in r if x != FILL] for r in table]
    return {"face": faces, "edge": [list(e) for e in edges]}


def check_values(got, arr, elems, agg, dtype, special):
    """got: ndarray lead + (n_elem,), arr: ndarray lead + (n_node,); returns None or a description"""
    n_node = arr.shape[-1]
    A = arr.reshape(-1, n_node)
    G = np.asarray(got).reshape(-1, len(elems))
    if special:                                  # NaN / inf present: NumPy applied per element is the reference
        with warnings.catch_warnings():
            warnings.simplefilter("ignore")
            for l in range(A.shape[0]):
                for e, nodes in enumerate(elems):
                    ref = NP[agg](A[l][nodes])
                    g = G[l][e]
                    if np.isnan(ref) or np.isnan(g):
                        if not (np.isnan(ref) and np.isnan(g)):
                            return "lead %d elem %d: got %r want %r" % (l, e, g, ref)
                    elif np.isinf(ref) or np.isinf(g):
                        if ref != g:
                            return "lead %d elem %d: got %r want %r" % (l, e, g, ref)
                    elif abs(float(g) - float(ref)) > 1e-12 * max(1.0, abs(float(ref))):
                        return "lead %d elem %d: got %r want %r" % (l, e, g, ref)
        return None
    for l in range(A.shape[0]):
        row = [Fraction(x) for x in A[l].tolist()]
        scale = max([abs(x) for x in row] or [Fraction(0)])
        for e, nodes in enumerate(elems):
            vals = [row[i] for i in nodes]
            exp = exact_aggs(vals)[agg]
            if dtype in ("int", "int32") and agg == "prod" and abs(exp) >= 2 ** 63:
                continue                          # int64 wrap-around is NumPy's business
            g = G[l][e].item()
            if not value_ok(agg, g, exp, len(vals), scale, dtype):
                return "lead %d elem %d nodes %s: got %r want %s%s" % (
                    l, e, nodes, g, "sqrt " if agg == "std" else "", float(exp))
    return None


# ---------------------------------------------------------------------------------------------
# implementation

def build_grid(c):
    import uxarray as ux
    t = np.array(c["table"], dtype=np.intp)
    n = c["n_node"]
    ll = c.get("lonlat")
    if ll:
        lon, lat = np.array(ll[0], dtype=float), np.array(ll[1], dtype=float)
    else:
        lon, lat = np.linspace(-170, 170, n), np.linspace(-80, 80, n)
    g = ux.Grid.from_topology(lon, lat, t.copy(), fill_value=FILL)
    if c.get("supplied_edges"):
        # the source supplies its own edge table: other order, other orientation
        import random
        rr = random.Random(c["supplied_edges"])
        en = [list(e) for e in g.edge_node_connectivity.values.tolist()]
        rr.shuffle(en)
        en = [e[::-1] if rr.random() < 0.5 else e for e in en]
        g = ux.Grid.from_topology(lon, lat, t.copy(), fill_value=FILL,
                                  edge_node_connectivity=np.array(en, dtype=np.intp))
    return g


def make_uxda(c, g, arr):
    import uxarray as ux
    d = c["data"]
    data = arr
    if d.get("dask") and arr.size:
        import dask.array as da
        data = da.from_array(arr, chunks=tuple(max(1, s // 2) for s in arr.shape) if arr.ndim else ())
    return ux.UxDataArray(data, dims=list(d["dims"]), uxgrid=g, name="v")


def call(uxda, agg, dest):
    with warnings.catch_warnings():
        warnings.simplefilter("ignore")
        with np.errstate(all="ignore"):
            return getattr(uxda, "topological_" + agg)(destination=dest)


def info_of(c, agg, dest):
    d = c["data"]
    return {"dest": dest, "agg": agg, "dtype": d["dtype"], "data_class": d.get("cls"),
            "layout": d.get("layout", "last"), "dask": bool(d.get("dask"))}


def run_valid(ck, c, g, arr, elems, collect):
    """node-centred data with the node dimension last; all aggregations x both destinations"""
    import uxarray as ux
    d = c["data"]
    uxda = make_uxda(c, g, arr)
    lead_dims = tuple(d["dims"][:-1])
    npf0 = np.asarray(g.n_nodes_per_face.values).copy()
    fnc0 = np.asarray(g.face_node_connectivity.values).copy()
    enc0 = np.asarray(g.edge_node_connectivity.values).copy()
    arr0 = arr.copy()
    for dest in c.get("dests", ("face", "edge")):
        n_elem = len(elems[dest])
        for agg in c.get("aggs", AGGS):
            info = info_of(c, agg, dest)
            cc = dict(c, agg=agg, dest=dest)
            try:
                r = call(uxda, agg, dest)
                if not (np.array_equal(g.n_nodes_per_face.values, npf0) and np.array_equal(g.face_node_connectivity.values, fnc0)
                        and np.array_equal(g.edge_node_connectivity.values, enc0)
                        and np.array_equal(np.asarray(uxda.values), arr0, equal_nan=arr0.dtype.kind == "f")
                        and npf0.tolist() == [sum(1 for x in row if x != FILL) for row in c["table"]]):
                    ck.fail("frame", cc, info, detail="the aggregation changed n_nodes_per_face / a connectivity table / the input data")
            except Exception as ex:
                ck.fail("raises", cc, info, detail=repr(ex))
                continue
            if not isinstance(r, ux.UxDataArray):
                ck.fail("type", cc, info, detail=str(type(r)))
                continue
            if r.uxgrid is not g:
                ck.fail("grid", cc, info, detail="result is attached to another grid object")
            if tuple(r.dims) != lead_dims + (DEST_DIM[dest],):
                ck.fail("dims", cc, info, detail="dims %r" % (tuple(r.dims),))
                continue
            if tuple(r.shape) != tuple(arr.shape[:-1]) + (n_elem,):
                ck.fail("shape", cc, info, detail="shape %r, %d %ss" % (tuple(r.shape), n_elem, dest))
                continue
            vals = np.asarray(r.values)
            bad = check_values(vals, arr, elems[dest], agg, d["dtype"], d.get("special"))
            if bad:
                ck.fail("value", cc, info, detail=bad)
            collect[(dest, agg)] = vals
            collect[("dtype", dest, agg)] = str(r.dtype)


def run_notlast(ck, c, g, arr, elems, collect):
    """node dimension not last: raising is accepted; a returned result must be the correct one"""
    import uxarray as ux
    d = c["data"]
    uxda = make_uxda(c, g, arr)
    ax = d["dims"].index("n_node")
    for dest in c.get("dests", ("face", "edge")):
        n_elem = len(elems[dest])
        for agg in c.get("aggs", NOTLAST_AGGS):
            info = info_of(c, agg, dest)
            cc = dict(c, agg=agg, dest=dest)
            try:
                r = call(uxda, agg, dest)
            except Exception as ex:
                collect[(dest, agg)] = type(ex).__name__
                continue
            want_dims = tuple(DEST_DIM[dest] if x == "n_node" else x for x in d["dims"])
            want_shape = tuple(n_elem if i == ax else s for i, s in enumerate(arr.shape))
            spec_ok = False
            if not isinstance(r, ux.UxDataArray):
                ck.fail("type", cc, info, detail=str(type(r)))
            elif tuple(r.dims) != want_dims:
                ck.fail("dims", cc, info, detail="dims %r" % (tuple(r.dims),))
            elif tuple(r.shape) != want_shape:
                ck.fail("shape", cc, info, detail="dims %r shape %r but the grid has %d %ss" % (
                    tuple(r.dims), tuple(r.shape), n_elem, dest))
            else:
                bad = check_values(np.moveaxis(np.asarray(r.values), ax, -1), np.moveaxis(arr, ax, -1),
                                   elems[dest], agg, d["dtype"], d.get("special"))
                if bad:
                    ck.fail("value", cc, info, detail=bad)
                else:
                    spec_ok = True
            collect[(dest, agg)] = (tuple(r.dims), np.asarray(r.values), spec_ok)


# ---------------------------------------------------------------------------------------------
# histories across derived grids: aggregate on the parent, then on subsets / copies / duals made afterwards (and the
# other way round); every result is compared with the per-element reference ON THE DERIVED GRID

DERIVE_KINDS = ["isel_face", "isel_node", "isel_edge", "subset_nn_nodes", "subset_nn_faces", "subset_circle", "copy", "dual"]
DERIVED_STATS = {}


def check_uxda(ck, c, X, stage, aggs, dtype, special=False):
    """all clauses of a valid call on any node-centred UxDataArray X (node dimension last), reference taken from
    X.uxgrid's own connectivity"""
    import uxarray as ux
    gX = X.uxgrid
    arr = np.asarray(X.values)
    faces = [[x for x in r if x != FILL] for r in gX.face_node_connectivity.values.tolist()]
    edges = [list(e) for e in gX.edge_node_connectivity.values.tolist()]
    elems = {"face": faces, "edge": edges}
    lead_dims = tuple(X.dims[:-1])
    for dest in ("face", "edge"):
        for agg in aggs:
            info = dict(info_of(c, agg, dest), layout="derived", stage=stage, derive=c["plan"]["derive"], order=c["plan"]["order"])
            cc = dict(c, agg=agg, dest=dest, stage=stage)
            try:
                r = call(X, agg, dest)
            except Exception as ex:
                ck.fail("raises", cc, info, detail="%s: %r" % (stage, ex))
                continue
            if not isinstance(r, ux.UxDataArray):
                ck.fail("type", cc, info, detail=str(type(r)))
                continue
            if r.uxgrid is not gX:
                ck.fail("grid", cc, info, detail="%s: result is attached to another grid object" % stage)
            if tuple(r.dims) != lead_dims + (DEST_DIM[dest],):
                ck.fail("dims", cc, info, detail="%s: dims %r" % (stage, tuple(r.dims)))
                continue
            if tuple(r.shape) != tuple(arr.shape[:-1]) + (len(elems[dest]),):
                ck.fail("shape", cc, info, detail="%s: shape %r, %d %ss" % (stage, tuple(r.shape), len(elems[dest]), dest))
                continue
            bad = check_values(np.asarray(r.values), arr, elems[dest], agg, dtype, special)
            if bad:
                ck.fail("value", cc, info, detail="%s: %s" % (stage, bad))
            DERIVED_STATS["calls_checked"] = DERIVED_STATS.get("calls_checked", 0) + 1


def derive(c, g, uxda, arr_face):
    """the derived node-centred array (new grid object) of the plan, or None when the derivation is not available"""
    import uxarray as ux
    plan = c["plan"]
    kind, idx = plan["derive"], plan["idx"]
    lon, lat = np.asarray(g.node_lon.values), np.asarray(g.node_lat.values)
    with warnings.catch_warnings():
        warnings.simplefilter("ignore")
        if kind == "isel_face":
            return uxda.isel(n_face=[i % g.n_face for i in idx])
        if kind == "isel_node":
            return uxda.isel(n_node=[i % g.n_node for i in idx])
        if kind == "isel_edge":
            return uxda.isel(n_edge=[i % g.n_edge for i in idx])
        v = idx[0] % g.n_node
        centre = (float(lon[v]), float(lat[v]))
        if kind == "subset_nn_nodes":
            return uxda.subset.nearest_neighbor(centre, k=min(g.n_node, 1 + len(idx)), element="nodes")
        if kind == "subset_nn_faces":
            return uxda.subset.nearest_neighbor(centre, k=min(g.n_face, 1 + len(idx) // 2), element="face centers")
        if kind == "subset_circle":
            return uxda.subset.bounding_circle(centre, plan.get("r", 40.0), element="nodes")
        if kind == "copy":
            return uxda.copy()
        if kind == "dual":
            lead = tuple(np.asarray(uxda.values).shape[:-1])
            f = ux.UxDataArray(arr_face, dims=list(uxda.dims[:-1]) + ["n_face"], uxgrid=g, name="w")
            return f.get_dual()
    raise ValueError(kind)


def run_derived(ck, c, g, arr):
    d = c["data"]
    plan = c["plan"]
    uxda = make_uxda(c, g, arr)
    rs = np.random.RandomState(len(c["table"]) * 7919 + c["n_node"])
    arr_face = rs.randint(-4000, 4000, size=tuple(arr.shape[:-1]) + (len(c["table"]),)) / 8.0
    aggs, paggs = plan["aggs"], plan["parent_aggs"]

    def get(stage):
        try:
            X = derive(c, g, uxda, arr_face)
        except Exception as ex:
            DERIVED_STATS["derivation_raised:" + plan["derive"]] = DERIVED_STATS.get("derivation_raised:" + plan["derive"], 0) + 1
            return None
        if X is None or "n_node" not in X.dims or X.dims[-1] != "n_node" or int(X.uxgrid.n_face) == 0:
            DERIVED_STATS["derivation_unusable"] = DERIVED_STATS.get("derivation_unusable", 0) + 1
            return None
        return X
    dt = "float" if plan["derive"] == "dual" else d["dtype"]
    sp = False if plan["derive"] == "dual" else d.get("special")
    if plan["order"] == "parent_first":
        check_uxda(ck, c, uxda, "parent", paggs, d["dtype"], d.get("special"))
        X = get("derived after the parent's aggregation")
        if X is not None:
            check_uxda(ck, c, X, "%s made after the parent's aggregation" % plan["derive"], aggs, dt, sp)
            check_uxda(ck, c, uxda, "parent again", paggs[:1], d["dtype"], d.get("special"))
    else:
        X = get("derived first")
        if X is not None:
            check_uxda(ck, c, X, "%s, aggregated before the parent" % plan["derive"], aggs, dt, sp)
        check_uxda(ck, c, uxda, "parent after the derived grid's aggregation", paggs, d["dtype"], d.get("special"))
        if X is not None:
            check_uxda(ck, c, X, "%s again, after the parent's aggregation" % plan["derive"], aggs[:2], dt, sp)
        Y = get("derived again")
        if Y is not None:
            check_uxda(ck, c, Y, "second %s, made after both aggregations" % plan["derive"], aggs[:2], dt, sp)
    DERIVED_STATS[plan["derive"] + "/" + plan["order"]] = DERIVED_STATS.get(plan["derive"] + "/" + plan["order"], 0) + 1


def gen_plan(rng, n_face):
    k = rng.randrange(1, 5)
    return {"derive": rng.choice(DERIVE_KINDS + ["isel_face", "isel_node", "isel_edge"]), "idx": [rng.randrange(0, 10 ** 6) for _ in range(k)],
            "order": rng.choice(["parent_first", "parent_first", "derived_first"]),
            "r": rng.choice([15.0, 40.0, 90.0]),
            "parent_aggs": rng.sample(AGGS, 2), "aggs": rng.sample(AGGS, 4)}


def run_errors(ck, c, g, n_edge, collect):
    """unsupported source/destination combinations must raise"""
    import uxarray as ux
    nf, nn = len(c["table"]), c["n_node"]
    sources = [("n_face", nf), ("n_edge", n_edge), ("x", c.get("xlen", nn)), ("n_node", nn)]
    for dim, ln in sources:
        arr = np.arange(float(2 * ln)).reshape(2, ln)
        uxda = ux.UxDataArray(arr, dims=["t", dim], uxgrid=g, name="v")
        for dest in ("face", "edge", "node", None, "faces"):
            if dim == "n_node" and dest in ("face", "edge"):
                continue
            for agg in c.get("aggs", ["mean", "sum"]):
                info = {"source": dim, "dest": dest, "agg": agg, "layout": "error_path"}
                try:
                    r = call(uxda, agg, dest)
                    collect[(dim, dest)] = "run"
                    ck.fail("error_path", dict(c, agg=agg, dest=dest, source=dim), info,
                            detail="returned %r %r instead of raising" % (tuple(r.dims), tuple(r.shape)))
                except Exception as ex:
                    collect[(dim, dest)] = type(ex).__name__


def impl_partitions(npf):
    from uxarray.grid.connectivity import get_face_node_partitions
    ch, si, es, sc = get_face_node_partitions(np.array(npf, dtype=np.intp))
    ch, si, es, sc = [np.asarray(x).tolist() for x in (ch, si, es, sc)]
    return [(int(e), sorted(si[a:b])) for e, a, b in zip(es, ch[:-1], ch[1:])], (ch, es, sc)


# ---------------------------------------------------------------------------------------------
# generators

def small_tables(rng, count):
    """tables with 1..3 faces on <=6 nodes, sizes 3..5, every padding layout (sampled)"""
    out = []
    for _ in range(count):
        n = rng.randrange(3, 7)
        k = rng.randrange(1, 4)
        faces = [rng.sample(range(n), rng.randrange(3, min(5, n) + 1)) for _ in range(k)]
        w = max(len(f) for f in faces) + rng.choice([0, 0, 1, 2])
        out.append((n, [f + [FILL] * (w - len(f)) for f in faces]))
    return out


def special_table(rng):
    kind = rng.choice(["one_ngon", "uniform", "uniform_pad", "gap", "big", "sorted", "single", "tetra",
                       "one_ngon", "big"])
    if kind == "single":
        s = rng.randrange(3, 9)
        return kind, s, [list(range(s)) + [FILL] * rng.choice([0, 1, 3])]
    if kind == "tetra":                    # n_node == n_face == 4
        return kind, 4, [[0, 1, 2], [0, 3, 1], [0, 2, 3], [1, 3, 2]]
    n = rng.randrange(8, 30)
    if kind == "one_ngon":
        k = rng.randrange(2, 12)
        faces = [rng.sample(range(n), 3) for _ in range(k)]
        faces.insert(rng.randrange(k + 1), rng.sample(range(n), rng.randrange(4, 9)))
    elif kind in ("uniform", "uniform_pad"):
        s = rng.randrange(3, 7)
        faces = [rng.sample(range(n), s) for _ in range(rng.randrange(1, 12))]
    elif kind == "gap":
        faces = [rng.sample(range(n), rng.choice([3, 8])) for _ in range(rng.randrange(2, 12))]
    elif kind == "big":                     # > 16 faces: NumPy's argsort leaves its insertion-sort regime
        n = rng.randrange(20, 80)
        faces = [rng.sample(range(n), rng.randrange(3, 9)) for _ in range(rng.randrange(17, 120))]
    else:
        faces = [rng.sample(range(n), rng.randrange(3, 9)) for _ in range(rng.randrange(2, 14))]
        faces.sort(key=len, reverse=rng.random() < 0.5)
    w = max(len(f) for f in faces) + (rng.choice([1, 2]) if kind == "uniform_pad" else rng.choice([0, 0, 1]))
    return kind, n, [f + [FILL] * (w - len(f)) for f in faces]


def gen_data(rng, n_node, cls=None, lead=None, extra_dims=None):
    cls = cls or rng.choice(["dyadic", "dyadic", "gauss", "int", "int", "intmid", "bool", "nanpoison",
                             "float32", "int32", "bigint"])
    if lead is None:
        lead = rng.choice([(), (), (1,), (2,), (3,), (2, 3), (1, 2), (0,), (2, 1, 2)])
    shape = tuple(lead) + (n_node,)
    total = int(np.prod(shape)) if shape else 1
    special = False
    if cls == "dyadic":
        dtype = "float"
        ks = rng.sample(range(-4000, 4001), min(total, 8001)) if total <= 8001 else [rng.randrange(-4000, 4001) for _ in range(total)]
        flat = [k / 8.0 for k in ks]
    elif cls == "gauss":
        dtype = "float"
        s = 10.0 ** rng.randrange(-3, 4)
        flat = [rng.gauss(0, 1) * s for _ in range(total)]
    elif cls == "nanpoison":
        dtype = "float"
        special = True
        flat = [rng.randrange(-800, 801) / 4.0 for _ in range(total)]
        for _ in range(rng.randrange(1, 3)):
            if total:
                flat[rng.randrange(total)] = rng.choice([float("nan"), float("nan"), float("inf"), float("-inf")])
    elif cls == "float32":
        dtype = "float32"
        flat = [rng.randrange(-4000, 4001) / 8.0 for _ in range(total)]
    elif cls == "int":
        dtype = "int"
        flat = [rng.randrange(-9, 10) for _ in range(total)]
    elif cls == "int32":
        dtype = "int32"
        flat = [rng.randrange(-50, 51) for _ in range(total)]
    elif cls == "intmid":
        dtype = "int"
        flat = [rng.randrange(-10 ** 6, 10 ** 6) for _ in range(total)]
    elif cls == "bigint":
        dtype = "int"
        base = 2 ** 59
        flat = [base + k for k in rng.sample(range(1, 100000), total)] if total < 90000 else [base] * total
    else:
        dtype = "bool"
        p = rng.choice([0.5, 0.85, 0.15])
        flat = [rng.random() < p for _ in range(total)]
    dims = ["d%d" % i for i in range(len(lead))] + ["n_node"]
    return {"dtype": dtype, "cls": cls, "shape": list(shape), "dims": dims, "flat": [enc_val(v) for v in flat],
            "special": special, "layout": "last"}


def gen_cases(ck):
    rng = ck.rng
    quick = ck.tier == "quick"
    cases = []
    cdir = os.path.join(common.VERIF, "corpus", "C17")
    if os.path.isdir(cdir):
        for fn in sorted(os.listdir(cdir)):
            c = json.load(open(os.path.join(cdir, fn)))
            c["kind"] = "corpus"
            cases.append(c)
    grids = []
    for n, t in small_tables(rng, 60 if quick else 1000):
        grids.append(("small", n, t, None))
    for _ in range(60 if quick else 1000):
        n, t = meshgen.gen_table(rng)
        grids.append(("random_table", n, t, None))
    for _ in range(90 if quick else 1500):
        k, n, t = special_table(rng)
        grids.append(("special:" + k, n, t, None))
    for i in range(70 if quick else 900):
        big = (not quick) and i % 40 == 0
        m = meshgen.gen_mesh(rng, max_ops=50 if big else 10)
        grids.append(("mesh", len(m.nodes), m.table(m.width() + rng.choice([0, 0, 1])), m.lonlat()))
    # array-wide blocking only shows on LARGE leading dimensions: a few small grids with a long leading axis
    for lead in ([(513,), (1300,), (700, 2)] if quick else [(513,), (1300,), (4099,), (700, 2), (1025, 1), (2, 600), (512,), (1024,)]):
        n, t = meshgen.gen_table(rng, max_nodes=7, max_faces=3)
        n = max(n, max(x for r in t for x in r if x != FILL) + 1)
        dd = gen_data(rng, n, cls=rng.choice(["dyadic", "int"]), lead=lead)
        cases.append({"kind": "big_leading", "table": t, "n_node": n, "lonlat": None, "data": dd, "mode": "valid",
                      "big_lead": True, "aggs": ["sum", "max", "mean", "any"]})
    for (kind, n, t, ll) in grids:
        n_used = max(x for r in t for x in r if x != FILL) + 1
        n = max(n, n_used)
        c = {"kind": kind, "table": t, "n_node": n, "lonlat": ll, "data": gen_data(rng, n), "mode": "valid"}
        if rng.random() < 0.06:
            c["data"]["dask"] = True
        if rng.random() < 0.15 and c["data"]["cls"] in ("dyadic", "int", "int32", "bool"):
            c["supplied_edges"] = rng.randrange(1, 10 ** 6)
        cases.append(c)
        if rng.random() < 0.3:             # histories across derived grids
            dd = gen_data(rng, n, cls=rng.choice(["dyadic", "dyadic", "int", "gauss", "bool"]), lead=rng.choice([(), (2,), (2, 2)]))
            cases.append({"kind": kind, "table": t, "n_node": n, "lonlat": ll, "data": dd, "mode": "derived",
                          "plan": gen_plan(rng, len(t))})
        r = rng.random()
        if r < 0.22:                       # node dimension not last
            other = rng.choice([n, n, n + rng.randrange(1, 4), max(1, n - rng.randrange(1, 4)), len(t)])
            pos = rng.choice(["first", "first", "middle"])
            lead = (other,) if pos == "first" else (2, other)
            d = gen_data(rng, n, cls=rng.choice(["dyadic", "int"]), lead=lead)
            arr_dims = d["dims"]
            # move n_node from last to position 0 (first) or 1 (middle)
            a = make_array(d)
            if pos == "first":
                a = np.moveaxis(a, -1, 0)
                dims = ["n_node", "d0"]
            else:
                a = np.moveaxis(a, -1, 1)
                dims = ["d0", "n_node", "d1"]
            d.update({"shape": list(a.shape), "dims": dims, "flat": [enc_val(v) for v in a.ravel().tolist()],
                      "layout": "node_dim_not_last"})
            cases.append({"kind": kind, "table": t, "n_node": n, "lonlat": ll, "data": d, "mode": "notlast"})
        elif r < 0.40:
            cases.append({"kind": kind, "table": t, "n_node": n, "lonlat": ll, "mode": "errors",
                          "xlen": rng.choice([n, len(t), 5]), "data": {"dtype": "float", "layout": "error_path"}})
    return cases


# ---------------------------------------------------------------------------------------------
# model

def q_sx(x):
    f = Fraction(x)
    return "(%d %d)" % (f.numerator, f.denominator)


def data_sx(arr):
    A = arr.reshape(-1, arr.shape[-1])
    return "(" + " ".join("(" + " ".join(q_sx(v) for v in row) + ")" for row in A.tolist()) + ")"


def model_lines_for(c, arr):
    """lines for c17face / c17edge: one per aggregation"""
    t = sx(c["table"])
    ds = data_sx(arr)
    return ["(%d %s %s)" % (k, t, ds) for k in range(len(AGGS))]


def frac_of_q(q):
    return Fraction(q[0], q[1])


def model_close(agg, got, mod, n, scale, dtype, dest="edge"):
    """implementation value vs exact model value (std: model gives the variance)"""
    return value_ok(agg, got, mod, n, scale, dtype)


DIMCODE = {"n_node": 0, "n_edge": 1, "n_face": 2}


def dims_code(dims):
    return [DIMCODE.get(x, 10 + i) for i, x in enumerate(dims)]


# ---------------------------------------------------------------------------------------------

def run_case(ck, c, collect_all=None):
    """runs the implementation on one case; returns (grid facts, collected outputs)"""
    g = build_grid(c)
    edges = [tuple(int(x) for x in e) for e in g.edge_node_connectivity.values.tolist()]
    elems = elements_of(c["table"], edges)
    out = {"edges": edges, "n_edge": int(g.n_edge), "collect": {}}
    if c["mode"] == "valid":
        arr = make_array(c["data"])
        run_valid(ck, c, g, arr, elems, out["collect"])
    elif c["mode"] == "notlast":
        arr = make_array(c["data"])
        run_notlast(ck, c, g, arr, elems, out["collect"])
    elif c["mode"] == "derived":
        run_derived(ck, c, g, make_array(c["data"]))
    else:
        run_errors(ck, c, g, out["n_edge"], out["collect"])
    return out


def main(ck):
    ck.check_props()
    ok = ck.build_driver()
    cases = gen_cases(ck)
    ck.cov["rule"] = ("corpus + sampled small tables (1-3 faces, <=6 nodes, sizes 3-5, 0-2 padding columns) + random "
                      "combinatorial tables (sizes 3..8) + special layouts (one n-gon among triangles, uniform with/"
                      "without padding column, sizes {3,8} only, >16 faces, faces pre-sorted by size either way, "
                      "single face, tetrahedron) + sphere tilings/partial grids from meshgen, renumbered; node data "
                      "float64 (dyadic / gaussian / NaN-inf poisoned), float32, int64 (small / 1e6 / 2^60), int32, "
                      "bool, rank 1-4 incl. zero-length leading axis, numpy and dask backed; all 10 reductions x "
                      "{face, edge}; node dimension not last; unsupported source/destination combinations. "
                      "non-trivial = >=2 distinct face sizes or padding present; distinct = distinct (table, data)")
    hist, sizes, dt_hist, rank_hist, mode_hist = {}, {}, {}, {}, {}
    results = []
    for idx, c in enumerate(cases):
        t = c["table"]
        fs = {sum(1 for x in r if x != FILL) for r in t}
        nontrivial = len(fs) >= 2 or any(x == FILL for r in t for x in r)
        ck.note_case((t, c.get("data", {}).get("flat"), c["mode"]), nontrivial)
        hist[c["kind"]] = hist.get(c["kind"], 0) + 1
        mode_hist[c["mode"]] = mode_hist.get(c["mode"], 0) + 1
        if c["mode"] == "valid":
            for r in t:
                k = sum(1 for x in r if x != FILL)
                sizes[k] = sizes.get(k, 0) + 1
            d = c["data"]
            key = d["cls"] + ("/dask" if d.get("dask") else "")
            dt_hist[key] = dt_hist.get(key, 0) + 1
            rank_hist[len(d["shape"])] = rank_hist.get(len(d["shape"]), 0) + 1
        try:
            results.append(run_case(ck, c))
        except Exception as ex:
            results.append(None)
            ck.fail("raises", c, {"layout": "harness", "mode": c["mode"]}, detail="case setup: " + repr(ex))
        if c["mode"] == "valid" and len(ck.cov["samples"]) < 4 and results[-1] and idx % 37 == 0:
            col = results[-1]["collect"]
            ck.sample({"kind": c["kind"], "table": [["F" if x == FILL else x for x in r] for r in t][:5],
                       "dtype": c["data"]["dtype"], "shape": c["data"]["shape"],
                       "mean_face_impl": np.asarray(col.get(("face", "mean"), [])).ravel()[:5].tolist()})
    # ---- model correspondence ---------------------------------------------------------------
    n_corr = n_dtype = n_rev = n_et = 0
    if ok:
        face_lines, edge_lines, part_lines, disp_lines, owners = [], [], [], [], []
        disp_owner = []
        for ci, (c, res) in enumerate(zip(cases, results)):
            if res is None:
                continue
            if c["mode"] == "valid" and not c["data"].get("special") and not c.get("big_lead"):
                arr = make_array(c["data"])
                ls = model_lines_for(c, arr)
                face_lines += ls
                edge_lines += ls
                owners.append((ci, len(ls)))
                part_lines.append(sx([c["table"]]))
            elif c["mode"] == "notlast":
                d = c["data"]
                for dest in ("face", "edge"):
                    n_elem = len(c["table"]) if dest == "face" else res["n_edge"]
                    disp_lines.append(sx([dims_code(d["dims"]), 0 if dest == "face" else 1, d["shape"], n_elem]))
                    disp_owner.append((ci, dest, "notlast"))
            elif c["mode"] == "errors":
                for (dim, dest), outc in res["collect"].items():
                    dcode = {"face": 0, "edge": 1, "node": 2, None: "N"}.get(dest, 3)
                    disp_lines.append(sx([dims_code(["t", dim]), dcode, [2, 5], 7]))
                    disp_owner.append((ci, (dim, dest), "errors"))
        mf = ck.run_model("c17face", face_lines) if face_lines else []
        me = ck.run_model("c17edge", edge_lines) if edge_lines else []
        mp = ck.run_model("c17parts", part_lines) if part_lines else []
        md = ck.run_model("c17dispatch", disp_lines) if disp_lines else []
        pos = 0
        for oi, (ci, cnt) in enumerate(owners):
            c, res = cases[ci], results[ci]
            arr = make_array(c["data"])
            dtype = c["data"]["dtype"]
            A = arr.reshape(-1, arr.shape[-1])
            rows = [[Fraction(x) for x in r] for r in A.tolist()]
            scales = [max([abs(x) for x in r] or [Fraction(0)]) for r in rows]
            faces = [[x for x in r if x != FILL] for r in c["table"]]
            # partitions
            try:
                ip, _ = impl_partitions([len(f) for f in faces])
                mpp = [(int(e), sorted(fi)) for e, fi in mp[oi][0]]
                if ip != mpp:
                    ck.corr_failures.append({"case": c["table"], "what": "partitions", "impl": ip, "model": mpp})
                gath = sorted((f, idx) for f, idx in mp[oi][1])
                if gath != sorted((f, faces[f]) for f in range(len(faces))):
                    ck.corr_failures.append({"case": c["table"], "what": "model gathers != corners", "model": gath})
            except Exception as ex:
                ck.corr_failures.append({"case": c["table"], "what": "partitions raise", "detail": repr(ex)})
            for k, agg in enumerate(AGGS):
                m_face, m_edge = mf[pos + k], me[pos + k]
                # face
                iv = res["collect"].get(("face", agg))
                if iv is not None:
                    if m_face is None or (isinstance(m_face, list) and m_face and m_face[0] == "ERR"):
                        ck.corr_failures.append({"case": c["table"], "agg": agg, "what": "model face None/ERR", "model": m_face})
                    else:
                        G = np.asarray(iv).reshape(-1, len(faces))
                        bad = None
                        for l, mrow in enumerate(m_face):
                            for f, mv in enumerate(mrow):
                                if mv is None:
                                    bad = "model cell uninitialised lead %d face %d" % (l, f)
                                    break
                                mq = frac_of_q(mv)
                                if dtype in ("int", "int32") and agg == "prod" and abs(mq) >= 2 ** 63:
                                    continue
                                if not model_close(agg, G[l][f].item(), mq, len(faces[f]), scales[l], dtype, "face"):
                                    bad = "lead %d face %d impl %r model %s" % (l, f, G[l][f].item(), float(mq))
                                    break
                            if bad:
                                break
                        if len(m_face) != G.shape[0]:
                            bad = "leading count impl %d model %d" % (G.shape[0], len(m_face))
                        if bad:
                            ck.corr_failures.append({"case": c["table"], "data": c["data"], "agg": agg, "dest": "face", "what": bad})
                        n_corr += 1
                # edge
                iv = res["collect"].get(("edge", agg))
                if iv is not None:
                    medges = [tuple(e) for e in m_edge[0]]
                    if sorted(medges) != sorted(tuple(sorted(e)) for e in res["edges"]):
                        ck.corr_failures.append({"case": c["table"], "what": "edge tables differ", "impl": res["edges"], "model": medges})
                    elif m_edge[1] is None:
                        ck.corr_failures.append({"case": c["table"], "agg": agg, "what": "model edge None"})
                    else:
                        G = np.asarray(iv).reshape(-1, len(res["edges"]))
                        mpos = {e: i for i, e in enumerate(medges)}
                        bad = None
                        for l, mrow in enumerate(m_edge[1]):
                            for e, en in enumerate(res["edges"]):
                                mq = frac_of_q(mrow[mpos[tuple(sorted(en))]])
                                if dtype in ("int", "int32") and agg == "prod" and abs(mq) >= 2 ** 63:
                                    continue
                                if not model_close(agg, G[l][e].item(), mq, 2, scales[l], dtype):
                                    bad = "lead %d edge %d impl %r model %s" % (l, e, G[l][e].item(), float(mq))
                                    break
                            if bad:
                                break
                        if bad:
                            ck.corr_failures.append({"case": c["table"], "data": c["data"], "agg": agg, "dest": "edge", "what": bad})
                        n_corr += 1
            pos += cnt
        # dtype promotion table of the model vs the dtype the implementation returns (both destinations)
        DT = {"bool": 0, "int32": 1, "int": 2, "float32": 3, "float": 4}
        DTN = {"bool": 0, "int32": 1, "int64": 2, "float32": 3, "float64": 4}
        table = ck.run_model("c17dtype", ["(%d %d)" % (a, dcode) for a in range(len(AGGS)) for dcode in range(5)])
        table = {(a, dcode): int(table[a * 5 + dcode]) for a in range(len(AGGS)) for dcode in range(5)}
        for ci, cnt in owners:
            c, res = cases[ci], results[ci]
            for k, agg in enumerate(AGGS):
                for dest in ("face", "edge"):
                    got = res["collect"].get(("dtype", dest, agg))
                    if got is None:
                        continue
                    n_dtype += 1
                    if DTN.get(got) != table[(k, DT[c["data"]["dtype"]])]:
                        ck.corr_failures.append({"case": c["table"], "what": "result dtype", "agg": agg, "dest": dest,
                                                 "source": c["data"]["dtype"], "impl": got, "model_code": table[(k, DT[c["data"]["dtype"]])]})
        # processing order of the partitions: the model's loop body on the REVERSED gathers gives the same arrays
        rev_lines, rev_ref = [], []
        pos = 0
        for oi, (ci, cnt) in enumerate(owners):
            if oi % 6 == 0:
                for k in (0, 4, 7):
                    rev_lines.append(face_lines[pos + k])
                    rev_ref.append(mf[pos + k])
            pos += cnt
        if rev_lines:
            for a, b in zip(ck.run_model("c17facerev", rev_lines), rev_ref):
                n_rev += 1
                if a != b:
                    ck.corr_failures.append({"what": "model: reversed processing order changes the result", "rev": str(a)[:200], "fwd": str(b)[:200]})
        # source-supplied edge tables (own order and orientation): c17_edge_row on exactly that table, edge by edge
        et_lines, et_owner = [], []
        for ci, cnt in owners:
            c, res = cases[ci], results[ci]
            if c.get("supplied_edges"):
                arr = make_array(c["data"])
                for k in (1, 4):
                    et_lines.append("(%d %s %s)" % (k, sx([list(e) for e in res["edges"]]), data_sx(arr)))
                    et_owner.append((ci, AGGS[k]))
        if et_lines:
            for (ci, agg), mrows in zip(et_owner, ck.run_model("c17edgetable", et_lines)):
                c, res = cases[ci], results[ci]
                iv = res["collect"].get(("edge", agg))
                if iv is None:
                    continue
                n_et += 1
                G = np.asarray(iv).reshape(-1, len(res["edges"]))
                M = [[frac_of_q(q) for q in row] for row in mrows]
                if len(M) != G.shape[0] or any(Fraction(G[l][e].item()) != M[l][e] for l in range(len(M)) for e in range(len(M[l]))):
                    ck.corr_failures.append({"case": c["table"], "what": "supplied edge table: model and implementation differ", "agg": agg})
        # dispatch / dims bookkeeping (incl. the node-dimension-not-last layout: the faithful model predicts the
        # mislabelled result whenever NumPy's indexing of the last axis does not raise)
        for (ci, key, mode), mo in zip(disp_owner, md):
            c, res = cases[ci], results[ci]
            if mode == "errors":
                # the property fixes that these combinations raise, not which exception type
                got = "run" if res["collect"].get(key) == "run" else "raises"
                want = "run" if mo[0] == "run" else "raises"
                if got != want:
                    ck.corr_failures.append({"case": c["table"], "what": "dispatch", "source_dest": key, "impl": got, "model": want})
                n_corr += 1
            else:
                # node dimension not last: the model raises ValueError; an implementation that raises (any type) agrees
                for agg in NOTLAST_AGGS:
                    got = res["collect"].get((key, agg))
                    if got is None:
                        continue
                    n_corr += 1
                    if (mo[0] == "run") != (not isinstance(got, str)):
                        ck.corr_failures.append({"case": c["table"], "what": "notlast dispatch", "dims": c["data"]["dims"],
                                                 "impl": got if isinstance(got, str) else "returns", "model": mo[0]})
    # ---- extraction audit: the same model evaluated by the kernel (vm_compute) on a sample -----
    audit_n = 0
    if ok:
        sample = [c for c in cases if c["mode"] == "valid" and not c["data"].get("special") and len(c["table"]) <= 6
                  and c["data"]["dtype"] in ("int", "bool") and c["data"]["cls"] != "bigint"
                  and 0 < int(np.prod(c["data"]["shape"])) <= 40][:25]
        lines, mlines = [], []
        for c in sample:
            arr = make_array(c["data"])
            A = arr.reshape(-1, arr.shape[-1]).astype(int).tolist()
            tt = "[" + ";".join("[" + ";".join("FILL" if x == FILL else "%d" % x for x in r) + "]" for r in c["table"]) + "]"
            dd = "[" + ";".join("[" + ";".join("(%d#1)%%Q" % v for v in r) + "]" for r in A) + "]"
            for k in (4, 0):
                lines.append("Eval vm_compute in (c17_pf (c17_run_face %d %s%%Z %s), c17_pe (c17_run_edge %d %s%%Z %s))." % (k, tt, dd, k, tt, dd))
                mlines.append("(%d %s %s)" % (k, sx(c["table"]), data_sx(arr)))
        if lines:
            rc, out = ck.audit_vm(lines, "From Coq Require Import QArith.\nFrom Verif Require Import Base C02 C17.\nOpen Scope Z_scope.\n"
                                   "Definition c17_pq (q : Q) := (Qnum q, Z.pos (Qden q)).\n"
                                   "Definition c17_pf (r : option (list (list (option Q)))) := match r with Some rows => map (map (fun c => match c with Some q => c17_pq q | None => (0, 0) end)) rows | None => [] end.\n"
                                   "Definition c17_pe (r : option (list (list Q))) := match r with Some rows => map (map c17_pq) rows | None => [] end.")
            if rc != 0:
                ck.proof["errors"].append("in-kernel audit failed: " + out[-800:])
            else:
                blocks = re.split(r"(?m)^\s*= ", out)[1:]
                mfa = ck.run_model("c17face", mlines)
                mea = ck.run_model("c17edge", mlines)
                for b, a, e in zip(blocks, mfa, mea):
                    body = b.split("\n     :")[0]
                    nums = [(int(x), int(y)) for x, y in re.findall(r"\(\s*(-?\d+)\s*,\s*(\d+)\s*\)", body)]
                    flat = []
                    for row in a:
                        flat += [tuple(q) for q in row]
                    for row in e[1]:
                        flat += [tuple(q) for q in row]
                    if nums != flat:
                        ck.proof["errors"].append("extraction audit mismatch: kernel %s vs extracted %s" % (nums[:12], flat[:12]))
                    audit_n += 1
    ck.extra.update({
        "case_kinds": hist, "case_modes": mode_hist, "face_size_histogram": {str(k): v for k, v in sorted(sizes.items())},
        "data_classes": dt_hist, "data_rank_histogram": {str(k): v for k, v in sorted(rank_hist.items())},
        "aggregations": AGGS, "destinations": ["face", "edge"], "derived_grid_histories": dict(sorted(DERIVED_STATS.items())),
        "model_vs_impl_comparisons": n_corr, "dtype_table_comparisons": n_dtype, "reversed_order_model_runs": n_rev,
        "supplied_edge_table_comparisons": n_et, "extraction_audit_cases": audit_n,
        "tolerances": {"exact": "min, max, all, any; median of an odd count (float data, int data below 2^53); sum/prod of int/bool data below 2^53",
                       "otherwise": "|impl - exact| <= 1e-12 * scale (float32 data: 2e-5), scale = max|x| of the "
                                    "leading row (sum: n*max|x|, var: max|x|^2, prod: |exact|); NaN/inf data: NumPy "
                                    "applied per element, NaN/inf pattern equal, finite values rel 1e-12"},
        "clauses_checked_on_impl": ["raises", "type", "grid", "dims", "shape", "value", "error_path",
                                    "frame (n_nodes_per_face, face_node, edge_node and the input data unchanged after every call)"],
        "partial": "the reductions themselves are NumPy's (parameter of the theorems); std is compared as sqrt of the "
                   "exact variance; float rounding inside the tolerance above; dtype of the result is not part of the "
                   "property (since fix 997ba86d both destinations return the dtype the reduction produces)"})
    ck.trusted += ["NumPy primitives modelled by documented semantics: argsort (any valid argsort, proved), "
                   "unique(return_counts) = run lengths of the sorted values, cumsum, concatenate, basic/fancy "
                   "indexing of the last axis incl. negative wrap-around and IndexError, item assignment",
                   "NumPy's ten reductions (parameter agg of the theorems; reference = exact rational arithmetic)",
                   "xarray: DataArray construction with dims and .rename of a dimension"]
    ck.assumptions += ["face_node_connectivity is in standard form and n_nodes_per_face / edge_node_connectivity are "
                       "the C02 tables (C01/C02 own that)"]


def replay(ck, rp):
    c = rp["case"]
    ck.note_case("replay")
    agg, dest = c.get("agg"), c.get("dest")
    c = dict(c)
    if agg:
        c["aggs"] = [agg]
    if dest in ("face", "edge") and c.get("mode") != "errors":
        c["dests"] = [dest]
    run_case(ck, c)
